#!/usr/bin/env python3
"""run the property's check against every seeded change (applied to /repo, undone straight afterwards); writes seeded/RESULTS.json"""
import os, sys, json, subprocess, time
V=os.path.dirname(os.path.dirname(os.path.abspath(__file__)))
only=sys.argv[1:] 
res={}
if os.path.exists(V+'/seeded/RESULTS.json'): res=json.load(open(V+'/seeded/RESULTS.json'))
for d in sorted(os.listdir(V+'/seeded')):
    p=V+'/seeded/'+d
    if not os.path.isdir(p) or not os.path.exists(p+'/meta.json') or (only and d not in only): continue
    meta=json.load(open(p+'/meta.json'))
    assert subprocess.run(['git','-C','/repo','status','--porcelain','--untracked-files=no'],capture_output=True,text=True).stdout.strip()=='', 'repo dirty'
    a=subprocess.run(['git','-C','/repo','apply',p+'/patch.diff'],capture_output=True,text=True)
    if a.returncode!=0:
        res[d]=dict(status='patch does not apply', detail=a.stderr[-300:]); continue
    t0=time.time()
    try:
        r=subprocess.run(['./check',meta['property'],'--tier','quick'],cwd=V,capture_output=True,text=True,timeout=1200)
        out=r.stdout.strip().split('\n')
        res[d]=dict(property=meta['property'], exit=r.returncode, wall_s=round(time.time()-t0,1),
                    lines=[l[:400] for l in out if l.startswith(('VIOLATION','UNDECIDED','OK'))][:6])
    finally:
        subprocess.run(['git','-C','/repo','checkout','--','.'])
    print(d, res[d].get('exit'), (res[d].get('lines') or [''])[0][:200], flush=True)
    json.dump(res,open(V+'/seeded/RESULTS.json','w'),indent=1)
json.dump(res,open(V+'/seeded/RESULTS.json','w'),indent=1)
