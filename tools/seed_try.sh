#!/bin/bash
# usage: seed_try.sh <dir with patch.diff> <PROPERTY>... : run the quick check(s) against a scratch copy of /repo with the patch (dev aid; evidence files are not to be trusted afterwards)
D=$1; shift
T=$(mktemp -d /tmp/seedtry_XXXX)
trap "rm -rf $T" EXIT
git -C /repo archive HEAD | tar -x -C $T     # the committed tree, not the working tree (another run may have a patch applied there)
( cd $T && patch -p1 -s < $D/patch.diff ) || { echo "patch does not apply"; exit 3; }
cd "$(dirname "$0")/.."
for P in "$@"; do
  python3 -m vx.check $P --repo-src $T/src 2>&1 | grep -E "^(OK|VIOLATION|UNDECIDED)" | cut -c1-420
done
