#!/usr/bin/env python3
"""benign_corpus.py <out.json> <patchdir>... : replay the complete differential corpus (all four categories) on a scratch copy of /repo's committed tree with each
behaviour-preserving patch applied; any discrepancy would be a false alarm of the always-on cross-unit supplement (DESIGN 3.4)."""
import os, sys, json, subprocess, shutil, tempfile, hashlib, concurrent.futures as cf
V = os.path.dirname(os.path.dirname(os.path.abspath(__file__)))
def one(pd):
    d = tempfile.mkdtemp(prefix='bc_')
    try:
        subprocess.run('git -C /repo archive HEAD | tar -x -C ' + d, shell=True, check=True)
        a = subprocess.run(['patch', '-p1', '-s', '-d', d, '-i', pd + '/patch.diff'], capture_output=True, text=True)
        if a.returncode != 0: return pd, dict(error='patch does not apply')
        code = ("import sys, json; sys.path.insert(0, %r)\nfrom vx import witness\nout = {}\n"
                "for cat in ['parse', 'exec', 'script', 'conv']:\n    ds, n = witness.run_category(cat, %r)\n    out[cat] = dict(cases=n, discrepancies=[dict(properties=x['properties'], case=str(x['case'])[:200], why=x.get('why')) for x in ds[:5]], count=len(ds))\n"
                "print(json.dumps(out))") % (V, d + '/src')
        r = subprocess.run([sys.executable, '-c', code], cwd=V, capture_output=True, text=True, timeout=1500)
        try: return pd, json.loads(r.stdout.strip().split('\n')[-1])
        except Exception: return pd, dict(error=(r.stderr or r.stdout)[-400:])
    finally:
        shutil.rmtree(d, ignore_errors=True)
        shutil.rmtree(os.path.join(V, 'build', 'driver_' + hashlib.sha1((d + '/src').encode()).hexdigest()[:10]), ignore_errors=True)
        shutil.rmtree(os.path.join(V, 'build', 'driver_' + hashlib.sha1(d.encode()).hexdigest()[:10]), ignore_errors=True)
out = sys.argv[1]; res = {}
with cf.ThreadPoolExecutor(max_workers=6) as ex:
    for pd, r in ex.map(one, sys.argv[2:]):
        res[pd] = r
        print(pd, 'ERROR ' + r['error'][:200] if 'error' in r else {k: (v['cases'], v['count']) for k, v in r.items()}, flush=True)
        json.dump(res, open(out, 'w'), indent=1)
