#!/usr/bin/env python3
"""seed_store.py <srcroot> : copy confirmed seeded changes <srcroot>/<Cxx>/<x>/ to /verif/seeded/<Cxx>-<x>/ with meta.json"""
import os, sys, json, shutil, re, subprocess
root=sys.argv[1]
head=subprocess.run(['git','-C','/repo','rev-parse','--short','HEAD'],capture_output=True,text=True).stdout.strip()
for prop in sorted(os.listdir(root)):
    for x in sorted(os.listdir(os.path.join(root,prop))):
        src=os.path.join(root,prop,x); dst='/verif/seeded/%s-%s'%(prop,x)
        if not os.path.exists(src+'/patch.diff'): continue
        os.makedirs(dst,exist_ok=True)
        for f in ['patch.diff','demo.rs','notes.md']:
            if os.path.exists(src+'/'+f): shutil.copy(src+'/'+f,dst+'/'+f)
        notes=open(src+'/notes.md').read() if os.path.exists(src+'/notes.md') else ''
        style={'a':'rewrite / refactor-style regression','b':'rewrite / refactor-style regression','c':'minimal in-place slip (1-3 lines)','d':'two cooperating sites','e':'regression in supporting code (helper, accessor, registry, context, tables)','f':'needs a narrow, specific input class to manifest','g':'a feature or generalisation that accidentally breaks the property','h':'a change on a failure or edge path','i':'edit confined to the small supporting files','j':'shows only with user-supplied registrations, context values or reuse','k':'slip in a branch the suite never executes','l':'visible through direct use of the public API (AST / Context reuse, Value, create_context!)','m':'an accident inside a legitimate, larger edit','n':'callee and caller disagree about a convention after a one-sided edit','o':'a performance optimisation whose saved work was not redundant','p':'a hardening / robustness change that rejects or rewrites valid input','q':'a changed default or a move towards leniency','r':'a copy-paste slip between sibling functions or arms','s':'an idiom / API clean-up (a near-equivalent library call that differs on an edge)','t':'a state-handling regression (state that survives or is lost where it must not)','u':'a boundary regression (only inputs exactly on the boundary break)','v':'a feature-interaction regression (needs two features at once)','w':'a regression in a less-visited corner (entry points, init order, derives / hand-written impls, small helpers, macro)','x':'an output-side regression (right decision, wrong thing returned or left behind)','y':'a regression in shared infrastructure (keyword / context / manager plumbing / token helpers)','z':'a type- or signature-level change (narrowed, widened or replaced type with conversions)','A':'a size-dependent regression (correct below a threshold of 8-300 elements, bytes or levels)','B':'a regression in what counts as the same (case, prefix, scale, representation)'}.get(x,'')
        meta=dict(id='%s-%s'%(prop,x), property=prop, style=style, origin='independent sub-agent given only the property text and a scratch worktree of /repo',
                  needs_to_manifest=re.sub(r'\s+',' ',notes)[:700],
                  confirmed_by='tools/seed_confirm.sh in a scratch worktree at /repo HEAD %s: demo passes on the unchanged tree; with the patch the 187+7 suite still passes and the demo fails' % head,
                  files=['patch.diff','demo.rs','notes.md'])
        json.dump(meta,open(dst+'/meta.json','w'),indent=1)
print(len(os.listdir('/verif/seeded')))
