#!/usr/bin/env python3
"""Systematic mutation analysis of the checks (development aid, DESIGN.md 9; not part of any registered command).

  mutants.py gen   <repo_root> <mutants.json>            token-level mutants of the non-test code of <repo_root>/src
  mutants.py test  <repo_root> <mutants.json> <out.json> which mutants compile and pass the unedited suite (parallel scratch copies)
  mutants.py check <repo_root> <survivors.json> <out.json> [workers]  run every claimed property's quick check against each survivor

Scratch copies live under /tmp and are removed at the end. Nothing here touches /repo."""
import os, sys, json, re, subprocess, shutil, tempfile, concurrent.futures as cf
V = os.path.dirname(os.path.dirname(os.path.abspath(__file__)))
sys.path.insert(0, V)
from vx.rustsrc import lex

REL = {'<': ['<='], '<=': ['<'], '>': ['>='], '>=': ['>'], '==': ['!='], '!=': ['=='], '&&': ['||'], '||': ['&&'],
       '+': ['-'], '-': ['+'], '*': ['/'], '/': ['*'], '%': ['/'], '+=': ['-='], '-=': ['+='], '*=': ['/='], '<<': ['>>'], '>>': ['<<'],
       '&': ['|'], '|': ['&'], '^': ['&'], '<<=': ['>>='], '>>=': ['<<='], '&=': ['|='], '|=': ['&='], '^=': ['&=']}
METH = {'is_none': 'is_some', 'is_some': 'is_none', 'is_err': 'is_ok', 'is_ok': 'is_err', 'checked_add': 'checked_sub', 'checked_sub': 'checked_add',
        'checked_mul': 'checked_add', 'checked_div': 'checked_rem', 'checked_rem': 'checked_div', 'starts_with': 'ends_with', 'ends_with': 'starts_with',
        'min': 'max', 'max': 'min', 'LEFT': 'RIGHT', 'RIGHT': 'LEFT', 'CALC': 'SETTER', 'SETTER': 'CALC', 'true': 'false', 'false': 'true',
        'is_alphabetic': 'is_alphanumeric', 'is_alphanumeric': 'is_alphabetic', 'is_whitespace': 'is_alphabetic', 'lhs': 'rhs', 'rhs': 'lhs', 'left': 'right', 'right': 'left',
        'push': 'insert0', 'UNARY': 'POSTFIX', 'POSTFIX': 'UNARY', 'BINARY': 'TERNARY', 'LIST': 'CHAIN', 'CHAIN': 'LIST', 'MAP': 'LIST', 'FUNCTION': 'REFERENCE', 'REFERENCE': 'FUNCTION'}

def gen(root, out):
    muts = []
    for fn in sorted(os.listdir(os.path.join(root, 'src'))):
        if not fn.endswith('.rs'): continue
        src = open(os.path.join(root, 'src', fn)).read()
        cut = src.find('#[cfg(test)]')
        if cut < 0: cut = len(src)
        toks = [t for t in lex(src) if t.a < cut]
        for i, t in enumerate(toks):
            prev = toks[i - 1] if i else None
            nxt = toks[i + 1] if i + 1 < len(toks) else None
            line = src.count('\n', 0, t.a) + 1
            def add(new, what):
                muts.append(dict(file=fn, a=t.a, b=t.b, old=src[t.a:t.b], new=new, line=line, op=what))
            if t.k == 'p' and t.s in REL:
                spaced = t.a > 0 and src[t.a - 1] == ' ' and t.b < len(src) and src[t.b] in ' \n'
                if not spaced: continue
                if t.s in ('<', '>', '&', '|', '*', '-') and prev is not None and prev.k == 'p' and prev.s not in (')', ']'): continue   # generics, patterns, unary
                if t.s == '|' and (nxt is None or prev is None): continue
                for r in REL[t.s]: add(r, 'op')
            elif t.k == 'p' and t.s == '!' and prev is not None and prev.k != 'id' and nxt is not None and (nxt.k == 'id' or nxt.s == '('):
                add('', 'drop_not')
            elif t.k == 'num' and re.fullmatch(r'[0-9]+', t.s) and not (prev is not None and prev.s == '.') and not (nxt is not None and nxt.s == '.' and False):
                n = int(t.s)
                add(str(n + 1), 'const+1')
                if n > 0: add(str(n - 1), 'const-1')
            elif t.k == 'id' and t.s in METH:
                if METH[t.s] == 'insert0': continue
                # only uses, not definitions / field declarations
                if prev is not None and prev.s in ('fn', 'let', 'mut', 'pub'): continue
                if nxt is not None and nxt.s == ':' and t.s in ('lhs', 'rhs', 'left', 'right'): continue
                add(METH[t.s], 'ident')
            elif t.k == 'str' and t.s.startswith('"') and 1 <= len(t.s) - 2 <= 9 and '{' not in t.s and '\\' not in t.s:
                add(t.s[:-1] + '_"', 'str')
            elif t.k == 'char' and len(t.s) == 3:
                alt = {"'('": "')'", "')'": "'('", "'['": "']'", "']'": "'['", "'{'": "'}'", "'}'": "'{'", "','": "';'", "';'": "','", "'\"'": "'`'", "'.'": "'_'", "'_'": "'.'",
                       "'e'": "'f'", "'E'": "'F'", "'0'": "'1'", "'9'": "'8'", "' '": "'_'", "'\\n'": "' '"}.get(t.s)
                if alt: add(alt, 'char')
        if '2' in os.environ.get('MUT_BATCH', '1'):
            _batch2(fn, src, toks, muts)
    if os.environ.get('MUT_BATCH', '1') == '2': muts = [m for m in muts if m['op'] in ('if_const', 'del_stmt', 'swap_args', 'range_incl')]
    for k, m in enumerate(muts): m['id'] = ('M%04d' if os.environ.get('MUT_BATCH', '1') == '1' else 'N%04d') % k
    json.dump(muts, open(out, 'w'), indent=0)
    print(len(muts), 'mutants')

def _batch2(fn, src, toks, muts):
    """second batch: constant conditions, deleted call statements, swapped identifier arguments, inclusive ranges"""
    from vx.rustsrc import lex as _lex
    # mates
    st = []
    mate = {}
    for i, t in enumerate(toks):
        if t.s in ('(', '[', '{'): st.append(i)
        elif t.s in (')', ']', '}') and st:
            j = st.pop(); mate[j] = i; mate[i] = j
    def line(o): return src.count('\n', 0, o) + 1
    for i, t in enumerate(toks):
        if t.k == 'id' and t.s == 'if' and i + 1 < len(toks) and toks[i + 1].s != 'let':
            j = i + 1
            while j < len(toks) and toks[j].s != '{':
                if toks[j].s in ('(', '['): j = mate.get(j, j)
                j += 1
            if j < len(toks) and j > i + 1:
                a, b = toks[i + 1].a, toks[j - 1].b
                if 'let' in src[a:b]: continue
                for new in ('true', 'false'):
                    muts.append(dict(file=fn, a=a, b=b, old=src[a:b], new=new, line=line(a), op='if_const'))
        # a statement that is a bare call: `recv.meth(args)?;` or `recv.meth(args);` preceded by `;` `{` or `}`
        if t.s == ';' and i > 2 and toks[i - 1].s in (')', '?'):
            k = i - 1
            if toks[k].s == '?': k -= 1
            if toks[k].s != ')' or k not in mate: continue
            o = mate[k]
            # walk back over the receiver path
            b0 = o - 1
            while b0 > 0 and (toks[b0].k == 'id' or toks[b0].s in ('.', '::')) : b0 -= 1
            if toks[b0].s == ')' and b0 in mate:      # e.g. Manager::new().register(..)
                b0 = mate[b0] - 1
                while b0 > 0 and (toks[b0].k == 'id' or toks[b0].s in ('.', '::')): b0 -= 1
            if toks[b0].s not in (';', '{', '}'): continue
            first = toks[b0 + 1]
            if first.s in ('return', 'let', 'break', 'continue', 'write', 'assert', 'assert_eq', 'panic'): continue
            muts.append(dict(file=fn, a=first.a, b=t.b, old=src[first.a:t.b], new='', line=line(first.a), op='del_stmt'))
        if t.s == '(' and i in mate and mate[i] == i + 4 and toks[i + 1].k == 'id' and toks[i + 2].s == ',' and toks[i + 3].k == 'id' and toks[i - 1].k == 'id' and toks[i - 2].s != 'fn' and toks[i + 1].s != toks[i + 3].s:
            a, b = toks[i + 1].a, toks[i + 3].b
            muts.append(dict(file=fn, a=a, b=b, old=src[a:b], new='%s, %s' % (toks[i + 3].s, toks[i + 1].s), line=line(a), op='swap_args'))
        if t.s == '..' and i + 1 < len(toks) and toks[i + 1].s not in (']', ')', ',', '}'):
            muts.append(dict(file=fn, a=t.a, b=t.b, old='..', new='..=', line=line(t.a), op='range_incl'))

def _copy(root):
    d = tempfile.mkdtemp(prefix='mut_')
    subprocess.run(['rsync', '-a', '--exclude', 'target', '--exclude', '.git', root + '/', d + '/'], check=True)     # <root> must be a clean copy, never /repo while a patch may be applied there
    return d

def _apply(d, root, m):
    p = os.path.join(d, 'src', m['file'])
    s = open(os.path.join(root, 'src', m['file'])).read()
    assert s[m['a']:m['b']] == m['old']
    open(p, 'w').write(s[:m['a']] + m['new'] + s[m['b']:])

def _restore(d, root, m):
    shutil.copy(os.path.join(root, 'src', m['file']), os.path.join(d, 'src', m['file']))

def test(root, mfile, out, workers=8):
    muts = json.load(open(mfile))
    res = {}
    if os.path.exists(out): res = json.load(open(out))
    chunks = [[m for m in muts[i::workers] if m['id'] not in res] for i in range(workers)]
    def work(chunk):
        d = _copy(root)
        env = dict(os.environ, CARGO_NET_OFFLINE='true', CARGO_TARGET_DIR=os.path.join(d, 'target'))
        outl = []
        try:
            for m in chunk:
                _apply(d, root, m)
                try:
                    r = subprocess.run(['cargo', 'test', '--workspace', '--no-fail-fast', '--offline', '-q'], cwd=d, env=env, capture_output=True, text=True, timeout=100)
                    txt = r.stdout + r.stderr
                    if 'error: could not compile' in txt or re.search(r'^error(\[E\d+\])?:', txt, re.M) and 'test result' not in txt: st = 'nocompile'
                    elif r.returncode == 0: st = 'survives'
                    else: st = 'killed'
                except subprocess.TimeoutExpired:
                    st = 'timeout'
                    subprocess.run(['pkill', '-f', d], capture_output=True)
                outl.append((m['id'], st))
                _restore(d, root, m)
        finally:
            shutil.rmtree(d, ignore_errors=True)
        return outl
    with cf.ThreadPoolExecutor(max_workers=workers) as ex:
        for outl in ex.map(work, chunks):
            for k, st in outl: res[k] = st
            json.dump(res, open(out, 'w'), indent=0)
    from collections import Counter
    print(Counter(res.values()))

def check(root, mfile, sfile, out, workers=3):
    muts = {m['id']: m for m in json.load(open(mfile))}
    st = json.load(open(sfile))
    todo = [muts[k] for k in sorted(st) if st[k] == 'survives']
    props = [c['property_id'] for c in json.load(open(V + '/MANIFEST.json'))['checks']]
    res = {}
    if os.path.exists(out): res = json.load(open(out))
    todo = [m for m in todo if m['id'] not in res]
    chunks = [todo[i::workers] for i in range(workers)]
    def work(chunk):
        d = _copy(root)
        try:
            for m in chunk:
                _apply(d, root, m)
                r1 = {}
                order = {'tokenizer.rs': 'C10 C05 C01 C09 C02 C12', 'token.rs': 'C10 C05 C01 C02', 'keyword.rs': 'C10 C08 C05 C02', 'parser.rs': 'C02 C05 C12 C07 C06 C03 C18 C01 C08 C09',
                         'operator.rs': 'C03 C04 C02 C06 C08 C09 C05 C10', 'function.rs': 'C03 C04 C08', 'value.rs': 'C17 C03 C04 C09 C06 C07', 'descriptor.rs': 'C18 C01',
                         'context.rs': 'C06 C07 C08 C03', 'lib.rs': 'C08 C01 C07', 'init.rs': 'C08'}.get(m['file'], ' '.join(props)).split()
                for p in order:
                    if any(x['exit'] == 1 for x in r1.values()): break
                    r = subprocess.run(['python3', '-m', 'vx.check', p, '--repo-src', d + '/src'], cwd=V, capture_output=True, text=True, timeout=1800)
                    lines = [l[:260] for l in r.stdout.split('\n') if l.startswith(('VIOLATION', 'UNDECIDED'))]
                    r1[p] = dict(exit=r.returncode, lines=lines[:2])
                res[m['id']] = dict(mut=m, res=r1)
                json.dump(res, open(out, 'w'), indent=0)
                ex1 = [p for p in r1 if r1[p]['exit'] == 1]; ex2 = [p for p in r1 if r1[p]['exit'] == 2]
                print(m['id'], m['file'], m['line'], repr(m['old']), '->', repr(m['new']), 'VIOL ' + ','.join(ex1) if ex1 else ('UNDEC ' + ','.join(ex2) if ex2 else 'SILENT'), flush=True)
                _restore(d, root, m)
        finally:
            shutil.rmtree(d, ignore_errors=True)
            import hashlib
            shutil.rmtree(os.path.join(V, 'build', 'driver_' + hashlib.sha1(d.encode()).hexdigest()[:10]), ignore_errors=True)
    with cf.ThreadPoolExecutor(max_workers=workers) as ex:
        list(ex.map(work, chunks))

if __name__ == '__main__':
    a = sys.argv
    if a[1] == 'gen': gen(a[2], a[3])
    elif a[1] == 'test': test(a[2], a[3], a[4], int(a[5]) if len(a) > 5 else 8)
    elif a[1] == 'check': check(a[2], a[3], a[4], a[5], int(a[6]) if len(a) > 6 else 3)
