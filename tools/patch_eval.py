#!/usr/bin/env python3
"""evaluate checks against patches on scratch copies of /repo: patch_eval.py <out.json> <patchdir>... ; each patchdir has patch.diff
Runs every claimed property's quick check with --repo-src on the copy (evidence files are NOT to be trusted after this)."""
import os, sys, json, subprocess, shutil, tempfile, concurrent.futures as cf
V=os.path.dirname(os.path.dirname(os.path.abspath(__file__)))
props=[c['property_id'] for c in json.load(open(V+'/MANIFEST.json'))['checks']]
if os.environ.get('PE_PROPS'): props=[p for p in props if p in os.environ['PE_PROPS'].split(',')]
def one(pd):
    d=tempfile.mkdtemp(prefix='pe_')
    try:
        subprocess.run('git -C /repo archive HEAD | tar -x -C '+d, shell=True, check=True)      # the committed tree, not the working tree
        a=subprocess.run(['git','apply','--unsafe-paths','--directory='+d, pd+'/patch.diff'],capture_output=True,text=True,cwd='/')
        if a.returncode!=0:
            a=subprocess.run(['patch','-p1','-d',d,'-i',pd+'/patch.diff'],capture_output=True,text=True)
            if a.returncode!=0: return pd,{'error':'patch does not apply: '+a.stderr[-200:]+a.stdout[-200:]}
        res={}
        for p in props:
            r=subprocess.run(['python3','-m','vx.check',p,'--repo-src',d+'/src'],cwd=V,capture_output=True,text=True,timeout=1800)
            lines=[l for l in r.stdout.split('\n') if l.startswith(('VIOLATION','UNDECIDED'))]
            res[p]=dict(exit=r.returncode, lines=[l[:300] for l in lines[:3]])
        return pd,res
    finally:
        shutil.rmtree(d,ignore_errors=True)
        for b in os.listdir(V+'/build'):
            pass
out=sys.argv[1]; pds=sys.argv[2:]
allres={}
if os.path.exists(out): allres=json.load(open(out))
with cf.ThreadPoolExecutor(max_workers=3) as ex:
    for pd,res in ex.map(one,pds):
        allres[pd]=res
        bad={p:r for p,r in res.items() if isinstance(r,dict) and r.get('exit')!=0} if 'error' not in res else res
        print(pd, 'ALL OK' if not bad else json.dumps(bad)[:600], flush=True)
        json.dump(allres,open(out,'w'),indent=1)
