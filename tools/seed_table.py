#!/usr/bin/env python3
"""print the markdown table of DESIGN.md section 9 from seeded/*/meta.json and seeded/RESULTS.json"""
import os, json, re
V = os.path.dirname(os.path.dirname(os.path.abspath(__file__)))
res = json.load(open(V + '/seeded/RESULTS.json'))
print('| id | what it needs to manifest | how it is reported |\n|---|---|---|')
n = dict(deductive=0, bounded=0, other=0)
for d in sorted(os.listdir(V + '/seeded')):
    mp = V + '/seeded/' + d + '/meta.json'
    if not os.path.exists(mp): continue
    meta = json.load(open(mp)); r = res.get(d, {})
    what = re.sub(r'\|', '/', meta['needs_to_manifest'])[:140]
    lines = [l for l in r.get('lines', []) if l.startswith('VIOLATION')]
    if r.get('exit') == 1 and lines:
        m = re.search(r'obligation=(.*)$', lines[0]); ob = m.group(1) if m else ''
        if ob.startswith('bounded-stand-in'):
            i = re.search(r'input=(.*)$', ob); how = 'bounded stand-in, input ' + (i.group(1)[:60] if i else ''); n['bounded'] += 1
        else:
            how = '**deductive**: ' + re.sub(r'\|', '/', ob)[:80]; n['deductive'] += 1
    else:
        how = 'NOT REPORTED (exit %s) %s' % (r.get('exit'), (r.get('lines') or [''])[0][:80]); n['other'] += 1
    print('| %s | %s | %s |' % (d, what, how))
print('\n', n)
