#!/bin/bash
# usage: seed_confirm.sh <dir with patch.diff demo.rs> -> prints CONFIRMED/REJECTED <reason>; works in a scratch worktree of /repo (removed at exit)
D=$1; WT=/tmp/seedwt_$$
git -C /repo worktree add -f --detach $WT HEAD >/dev/null 2>&1 || { echo "REJECTED worktree"; exit 1; }
trap "git -C /repo worktree remove --force $WT >/dev/null 2>&1; git -C /repo worktree prune" EXIT
cd $WT
mkdir -p tests && cp $D/demo.rs tests/demo.rs
base=$(cargo test --offline --test demo 2>&1 | grep -E "^test result" | head -1)
case "$base" in *"0 failed"*) ;; *) echo "REJECTED demo does not pass on the unchanged tree: $base"; exit 1;; esac
git apply $D/patch.diff || { echo "REJECTED patch does not apply"; exit 1; }
rm tests/demo.rs
suite=$(cargo test --workspace --no-fail-fast --offline 2>&1 | grep -E "^test result" | tr '\n' ' ')
case "$suite" in *"187 passed; 0 failed"*"7 passed; 0 failed"*) ;; *) echo "REJECTED suite does not pass with the change: $suite"; exit 1;; esac
cp $D/demo.rs tests/demo.rs
with=$(cargo test --offline --test demo 2>&1 | grep -E "^test result" | head -1)
case "$with" in *" 0 failed"*) echo "REJECTED demo passes with the change: $with"; exit 1;; esac
echo "CONFIRMED base=[$base] suite=[$suite] with=[$with]"
