use expression_engine::*;
use std::panic;
fn p(s: &str) -> String {
    let s2 = s.to_string();
    match panic::catch_unwind(move || match parse_expression(&s2) { Ok(a) => format!("Ok[{}]", a.expr()), Err(e) => format!("Err({})", e) }) {
        Ok(r) => r, Err(_) => "PANIC".into() }
}
fn e(s: &str) -> String {
    let s2 = s.to_string();
    match panic::catch_unwind(move || match execute(&s2, create_context!()) { Ok(a) => format!("Ok[{}]", a), Err(e) => format!("Err({})", e) }) {
        Ok(r) => r, Err(_) => "PANIC".into() }
}
fn main() {
    panic::set_hook(Box::new(|_| {}));
    for s in ["+é", "[1)2]", "{1,2}", "f(1]2)", "true ? 1 , 2", "* 2", "1 : 2", "5 < 2+3 ? 4 : 2", "true && 3 not in [3]", "1 + 2*3 not == 7", "-(1+2)", "2-(3-4)", "(1+2)++", "2 not in [2]", "'a\"b'"] {
        println!("parse {:?} -> {}", s, p(s));
    }
    for s in ["1/0", "5%0", "79228162514264337593543950335+1", "1<<64", "min()", "(1.5*2) << 1", "3.0 | 1", "5 < 2+3 ? 4 : 2", "1 + 2*3 not == 7"] {
        println!("exec {:?} -> {}", s, e(s));
    }
    register_infix_op("hi", 111, InfixOpType::CALC, InfixOpAssociativity::LEFT, std::sync::Arc::new(|a, _b| Ok(a)));
    println!("parse {:?} -> {}", "1 + 2 hi 3", p("1 + 2 hi 3"));
    println!("parse {:?} -> {}", "(1 + 2) hi 3", p("(1 + 2) hi 3"));
}
