use vstd::prelude::*;
use vstd::string::*;
use rust_decimal::prelude::*;
use rust_decimal::Decimal;
verus! {
#[verifier::exec_allows_no_decreases_clause]
mod m { use super::*; use vstd::prelude::*; use vstd::string::*; use rust_decimal::Decimal;

#[verifier::external_type_specification]
#[verifier::external_body]
pub struct ExDecimal(rust_decimal::Decimal);

pub enum Error { ShouldBeBool(), NotReferenceExpr, InfixOpNotRegistered(String) }
pub type Result<T> = core::result::Result<T, Error>;

#[verifier::external_derive]
#[derive(Clone, PartialEq, Debug)]
pub enum Value { String(String), Number(Decimal), Bool(bool), List(Vec<Value>), Map(Vec<(Value, Value)>), None }
impl From<bool> for Value { fn from(value: bool) -> Self { Value::Bool(value) } }
impl From<&str> for Value { fn from(value: &str) -> Self { Value::String(value.to_string()) } }
impl From<Decimal> for Value { fn from(value: Decimal) -> Self { Value::Number(value) } }

#[verifier::external_body] pub struct Context { x: u64 }
#[verifier::external_body] pub struct Fn1 { x: u64 }   // stands for Arc<dyn Fn(Value)->Result<Value> + Send + Sync>
#[verifier::external_body] pub struct Fn2 { x: u64 }
#[verifier::external_body] pub struct FnN { x: u64 }
#[verifier::external_body] pub fn vx_call1(f: Fn1, a: Value) -> Result<Value> { unimplemented!() }
#[verifier::external_body] pub fn vx_call2(f: Fn2, a: Value, b: Value) -> Result<Value> { unimplemented!() }
#[verifier::external_body] pub fn vx_call_fn(f: FnN, a: Vec<Value>) -> Result<Value> { unimplemented!() }
impl Context {
  #[verifier::external_body] pub fn value(&self, name: &str) -> Result<Value> { unimplemented!() }
  #[verifier::external_body] pub fn get_func(&self, name: &str) -> Option<FnN> { unimplemented!() }
  #[verifier::external_body] pub fn set_variable(&mut self, name: &str, value: Value) { unimplemented!() }
}
pub enum InfixOpType { CALC, SETTER }
pub struct InfixOpManager {}
impl InfixOpManager {
  #[verifier::external_body] pub fn new() -> Self { unimplemented!() }
  #[verifier::external_body] pub fn get_precidence(&self, op: &str) -> (i32, i32) { unimplemented!() }
  #[verifier::external_body] pub fn get_op_type(&self, op: &str) -> Result<InfixOpType> { unimplemented!() }
  #[verifier::external_body] pub fn get_handler(&self, op: &str) -> Result<Fn2> { unimplemented!() }
}
pub struct PrefixOpManager {}
impl PrefixOpManager {
  #[verifier::external_body] pub fn new() -> Self { unimplemented!() }
  #[verifier::external_body] pub fn get(&self, op: &str) -> Result<Fn1> { unimplemented!() }
}
pub struct PostfixOpManager {}
impl PostfixOpManager {
  #[verifier::external_body] pub fn new() -> Self { unimplemented!() }
  #[verifier::external_body] pub fn get(&self, op: &str) -> Result<Fn1> { unimplemented!() }
}
pub struct InnerFunctionManager {}
impl InnerFunctionManager {
  #[verifier::external_body] pub fn new() -> Self { unimplemented!() }
  #[verifier::external_body] pub fn get(&self, op: &str) -> Result<FnN> { unimplemented!() }
}
#[verifier::external_derive]
#[derive(Clone, PartialEq, Eq, Debug)]
pub enum Literal<'a> {
    Number(Decimal),
    Bool(bool),
    String(&'a str),
}
#[verifier::external_derive]
#[derive(Clone, PartialEq, Eq, Debug)]
pub enum ExprAST<'a> {
    Literal(Literal<'a>),
    Unary(&'a str, Box<ExprAST<'a>>),
    Binary(&'a str, Box<ExprAST<'a>>, Box<ExprAST<'a>>),
    Postfix(Box<ExprAST<'a>>, String),
    Ternary(Box<ExprAST<'a>>, Box<ExprAST<'a>>, Box<ExprAST<'a>>),
    Reference(&'a str),
    Function(&'a str, Vec<ExprAST<'a>>),
    List(Vec<ExprAST<'a>>),
    Map(Vec<(ExprAST<'a>, ExprAST<'a>)>),
    Stmt(Vec<ExprAST<'a>>),
    None,
}
impl<'a> ExprAST<'a> {
    pub fn exec(&self, ctx: &mut Context) -> Result<Value> {
        use ExprAST::*;
        match self {
            Literal(literal) => self.exec_literal(literal.clone()),
            Reference(name) => self.exec_reference(name, ctx),
            Function(name, exprs) => self.exec_function(name, exprs.clone(), ctx),
            Unary(op, rhs) => self.exec_unary(op, rhs, ctx),
            Binary(op, lhs, rhs) => self.exec_binary(op, lhs, rhs, ctx),
            Postfix(lhs, op) => self.exec_postfix(lhs, op.clone(), ctx),
            Ternary(condition, lhs, rhs) => self.exec_ternary(condition, lhs, rhs, ctx),
            List(params) => self.exec_list(params.clone(), ctx),
            Stmt(exprs) => self.exec_chain(exprs.clone(), ctx),
            Map(m) => self.exec_map(m.clone(), ctx),
            None => Ok(Value::None),
        }
    }

    fn exec_literal(&self, literal: Literal<'a>) -> Result<Value> {
        match literal {
            Literal::Bool(value) => Ok(Value::from(value)),
            Literal::Number(value) => Ok(Value::from(value)),
            Literal::String(value) => Ok(Value::from(value)),
        }
    }

    fn exec_reference(&self, name: &'a str, ctx: &Context) -> Result<Value> {
        ctx.value(name)
    }

    fn exec_function(
        &self,
        name: &'a str,
        exprs: Vec<ExprAST<'a>>,
        ctx: &mut Context,
    ) -> Result<Value> {
        let mut params: Vec<Value> = Vec::new();
        for expr in exprs.into_iter() {
            params.push(expr.exec(ctx)?)
        }
        match ctx.get_func(name) {
            Some(func) => vx_call_fn(func, params),
            None => self.redirect_inner_function(name, params),
        }
    }

    fn redirect_inner_function(&self, name: &str, params: Vec<Value>) -> Result<Value> {
        vx_call_fn(InnerFunctionManager::new().get(name)?, params)
    }

    fn exec_unary(&self, op: &'a str, rhs: &ExprAST, ctx: &mut Context) -> Result<Value> {
        vx_call1(PrefixOpManager::new().get(&op)?, rhs.exec(ctx)?)
    }

    fn exec_binary(
        &self,
        op: &'a str,
        lhs: &ExprAST<'a>,
        rhs: &ExprAST<'a>,
        ctx: &mut Context,
    ) -> Result<Value> {
        match InfixOpManager::new().get_op_type(&op)? {
            InfixOpType::CALC => {
                vx_call2(InfixOpManager::new().get_handler(&op)?, lhs.exec(ctx)?, rhs.exec(ctx)?)
            }
            InfixOpType::SETTER => {
                let (a, b) = (lhs.exec(ctx)?, rhs.exec(ctx)?);
                ctx.set_variable(
                    lhs.get_reference_name()?,
                    vx_call2(InfixOpManager::new().get_handler(&op)?, a, b)?,
                );
                Ok(Value::None)
            }
        }
    }

    fn exec_postfix(&self, lhs: &ExprAST, op: String, ctx: &mut Context) -> Result<Value> {
        vx_call1(PostfixOpManager::new().get(&op)?, lhs.exec(ctx)?)
    }

    fn exec_ternary(
        &self,
        condition: &ExprAST,
        lhs: &ExprAST,
        rhs: &ExprAST,
        ctx: &mut Context,
    ) -> Result<Value> {
        match condition.exec(ctx)? {
            Value::Bool(val) => {
                if val {
                    return lhs.exec(ctx);
                }
                rhs.exec(ctx)
            }
            _ => Err(Error::ShouldBeBool()),
        }
    }

    fn exec_list(&self, params: Vec<ExprAST>, ctx: &mut Context) -> Result<Value> {
        let mut ans = Vec::new();
        for expr in params {
            ans.push(expr.exec(ctx)?);
        }
        Ok(Value::List(ans))
    }

    fn exec_chain(&self, params: Vec<ExprAST>, ctx: &mut Context) -> Result<Value> {
        let mut ans = Value::None;
        for expr in params {
            ans = expr.exec(ctx)?;
        }
        Ok(ans)
    }

    fn exec_map(&self, m: Vec<(ExprAST, ExprAST)>, ctx: &mut Context) -> Result<Value> {
        let mut ans = Vec::new();
        for (k, v) in m {
            ans.push((k.exec(ctx)?, v.exec(ctx)?));
        }
        Ok(Value::Map(ans))
    }

    fn get_precidence(&self) -> (bool, (i32, i32)) {
        match self {
            ExprAST::Binary(op, _, _) => (true, InfixOpManager::new().get_precidence(op)),
            _ => (false, (-1, -1)),
        }
    }

    fn get_reference_name(&self) -> Result<&'a str> {
        match self {
            ExprAST::Reference(name) => Ok(name),
            _ => Err(Error::NotReferenceExpr),
        }
    }
}


} } // verus!
fn main(){}
