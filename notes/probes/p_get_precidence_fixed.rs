use vstd::prelude::*;
use vstd::string::*;
verus! {
#[derive(Debug)]
pub enum Error { InfixOpNotRegistered(String) }
pub type Result<T> = core::result::Result<T, Error>;
#[verifier::external_body] pub struct Fn2 { x: u8 }          // rule 7: Arc<InfixOpFunc>
#[derive(Clone)]
pub enum InfixOpType { CALC, SETTER }
#[verifier::external_derive]
#[derive(Clone, PartialEq)]
pub enum InfixOpAssociativity { LEFT, RIGHT }
pub assume_specification[<InfixOpAssociativity as PartialEq>::eq](a: &InfixOpAssociativity, b: &InfixOpAssociativity) -> (r: bool) ensures r == (*a == *b);
pub struct InfixOpConfig(pub i32, pub InfixOpType, pub InfixOpAssociativity, pub Fn2);
pub struct InfixOpManager { }
// registry view (frozen during a parse, A4); entries obey the documented domain 0 < precedence <= 10^9
pub uninterp spec fn reg_cfg(op: Seq<char>) -> Option<InfixOpConfig>;
pub broadcast axiom fn axiom_domain(op: Seq<char>) ensures #[trigger] reg_cfg(op) matches Some(c) ==> 0 < c.0 <= 1_000_000_000;
pub open spec fn tighter(pa: int, a_left: bool, pb: int) -> bool { pb > pa || (pb == pa && !a_left) }
impl InfixOpManager {
    #[verifier::external_body]
    pub fn get(&self, op: &str) -> (r: Result<InfixOpConfig>)
        ensures match reg_cfg(op@) { Some(c) => r == Ok::<InfixOpConfig, Error>(c), None => r is Err }
    { unimplemented!() }
    pub fn get_handler(&self, op: &str) -> Result<Fn2> {
        Ok(self.get(op)?.3)
    }

    pub fn get_precidence(&self, op: &str) -> (r: (i32, i32))
        ensures match reg_cfg(op@) {
            None => r == (-1i32, -1i32),
            Some(c) => r.0 == 2 * c.0 && r.1 == (if c.2 == InfixOpAssociativity::LEFT { 2 * c.0 + 1 } else { 2 * c.0 - 1 }) }
    {
        proof { broadcast use axiom_domain; }
        let ans = self.get(op);
        if ans.is_err() {
            return (-1, -1);
        }
        let config = ans.unwrap();
        // even left powers, odd right powers: operators at adjacent precedences never tie
        let l_bp = config.0 * 2;
        let mut r_bp = 0;
        if config.2 == InfixOpAssociativity::LEFT {
            r_bp = l_bp + 1;
        } else if config.2 == InfixOpAssociativity::RIGHT {
            r_bp = l_bp - 1;
        }
        (l_bp, r_bp)
    }

    pub fn get_op_type(&self, op: &str) -> Result<InfixOpType> {
        Ok(self.get(op)?.1)
    }


}
// C08/C02: the recursion gate and the loop test agree with the registered order for every pair of operators
pub proof fn lemma_bp_gate(pa: int, a_left: bool, pb: int, b_left: bool)
    requires 0 < pa <= 1_000_000_000, 0 < pb <= 1_000_000_000,
    ensures ({
        let ra = if a_left { 2 * pa + 1 } else { 2 * pa - 1 };
        let lb = 2 * pb;
        &&& (ra < lb) == tighter(pa, a_left, pb)
        &&& (lb >= ra) == tighter(pa, a_left, pb)
        &&& lb % 2 == 0 && lb >= 2 && ra % 2 == 1 && ra >= 1
    }),
{ }
}
fn main(){}
