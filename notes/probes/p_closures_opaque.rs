use vstd::prelude::*;
verus! {
pub enum E { Bad }
pub assume_specification<T, U, F: FnOnce(T) -> U>[Option::<T>::map_or](o: Option<T>, d: U, f: F) -> (r: U)
    ensures o.is_none() ==> r == d, o.is_some() ==> f.ensures((o.unwrap(),), r);

fn f(o: Option<(usize, char)>, d: usize) -> (r: usize)
    ensures o.is_some() ==> r == o.unwrap().0, o.is_none() ==> r == d
{
    o.map(|i| i.0).unwrap_or_else(|| d)
}
fn g(o: Option<i64>) -> (r: Result<i64, E>)
    ensures o.is_some() ==> r == Ok::<i64,E>(o.unwrap()), o.is_none() ==> r is Err
{
    o.map_or(Err(E::Bad), |num| Ok(num))
}
}
fn main(){}
