use vstd::prelude::*;
use rust_decimal::prelude::*;
use rust_decimal::Decimal;
verus! {

#[verifier::external_type_specification]
#[verifier::external_body]
pub struct ExDecimal(rust_decimal::Decimal);

#[verifier::external_type_specification]
#[verifier::external_body]
pub struct ExDecErr(rust_decimal::Error);

pub uninterp spec fn dec_parse(s: Seq<char>) -> Option<Decimal>;

pub assume_specification[<Decimal as core::str::FromStr>::from_str](s: &str) -> (r: core::result::Result<Decimal, <Decimal as core::str::FromStr>::Err>)
    ensures r.is_ok() == dec_parse(s@).is_some(), r.is_ok() ==> r.unwrap() == dec_parse(s@).unwrap();

fn lit(s: &str) -> (r: Option<Decimal>)
    ensures r == dec_parse(s@)
{
    match Decimal::from_str(s) {
        Ok(v) => Some(v),
        Err(_) => None,
    }
}
}
fn main(){}
