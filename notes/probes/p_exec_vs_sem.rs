use vstd::prelude::*;
use vstd::string::*;
verus! {
#[derive(Debug)]
pub enum Error { ShouldBeBool(), Other }
pub type Result<T> = core::result::Result<T, Error>;

#[verifier::external_derive]
#[derive(Clone, PartialEq, Debug)]
pub enum Value { Bool(bool), Num(i64), List(Vec<Value>), None }

#[verifier::external_derive]
#[derive(Clone, PartialEq, Debug)]
pub enum Ast<'a> {
    Lit(i64),
    Ref(&'a str),
    Ternary(Box<Ast<'a>>, Box<Ast<'a>>, Box<Ast<'a>>),
    List(Vec<Ast<'a>>),
    Stmt(Vec<Ast<'a>>),
    Assign(&'a str, Box<Ast<'a>>),
}
pub assume_specification<'a>[<Ast<'a> as Clone>::clone](v: &Ast<'a>) -> (r: Ast<'a>) ensures r == *v;

pub type St = Map<Seq<char>, Value>;
#[verifier::external_body] pub struct Context { x: u64 }
impl View for Context { type V = St; uninterp spec fn view(&self) -> St; }
impl Context {
  #[verifier::external_body] pub fn value(&self, name: &str) -> (r: Result<Value>)
      ensures r == Ok::<Value, Error>(if self@.dom().contains(name@) { self@[name@] } else { Value::None }) { unimplemented!() }
  #[verifier::external_body] pub fn set_variable(&mut self, name: &str, value: Value)
      ensures final(self)@ == old(self)@.insert(name@, value) { unimplemented!() }
}

// spec-level big-step semantics: (Some(value) | None = error, final state)
pub open spec fn sem(a: Ast, s: St) -> (Option<Value>, St)
    decreases a
{
    match a {
        Ast::Lit(n) => (Some(Value::Num(n)), s),
        Ast::Ref(x) => (Some(if s.dom().contains(x@) { s[x@] } else { Value::None }), s),
        Ast::Ternary(c, t, e) => {
            let (vc, s1) = sem(*c, s);
            match vc {
                Some(Value::Bool(b)) => if b { sem(*t, s1) } else { sem(*e, s1) },
                _ => (None, s1),
            }
        },
        Ast::List(items) => {
            let (vs, s1) = sem_seq(items@, s);
            match vs { Some(l) => (Some(Value::List(spec_vec(l))), s1), None => (None, s1) }
        },
        Ast::Stmt(items) => {
            let (vs, s1) = sem_seq(items@, s);
            match vs { Some(l) => (Some(if l.len() == 0 { Value::None } else { l.last() }), s1), None => (None, s1) }
        },
        Ast::Assign(x, e) => {
            let (v, s1) = sem(*e, s);
            match v { Some(v) => (Some(Value::None), s1.insert(x@, v)), None => (None, s1) }
        },
    }
}
pub uninterp spec fn spec_vec(s: Seq<Value>) -> Vec<Value>;
pub broadcast axiom fn spec_vec_view(s: Seq<Value>) ensures #[trigger] spec_vec(s)@ == s;

pub open spec fn sem_seq(items: Seq<Ast>, s: St) -> (Option<Seq<Value>>, St)
    decreases items
{
    if items.len() == 0 { (Some(Seq::empty()), s) } else {
        let (v0, s1) = sem(items[0], s);
        match v0 {
            None => (None, s1),
            Some(v) => { let (rest, s2) = sem_seq(items.subrange(1, items.len() as int), s1);
                         match rest { Some(r) => (Some(seq![v] + r), s2), None => (None, s2) } }
        }
    }
}

pub open spec fn agrees(r: Result<Value>, fin: St, spec: (Option<Value>, St)) -> bool {
    &&& fin == spec.1
    &&& r.is_ok() == spec.0.is_some()
    &&& (r.is_ok() ==> r.unwrap() == spec.0.unwrap())
}
// sem_seq over a prefix extended by one more element
pub proof fn lemma_sem_seq_snoc(items: Seq<Ast>, k: int, s: St)
    requires 0 <= k < items.len(), sem_seq(items.take(k), s).0.is_some(),
    ensures ({
        let (pv, ps) = sem_seq(items.take(k), s);
        let (v, s1) = sem(items[k], ps);
        sem_seq(items.take(k + 1), s) == (match v { Some(v) => Some(pv.unwrap().push(v)), None => None::<Seq<Value>> }, s1)
    }),
    decreases k
{
    let tail = items.subrange(1, items.len() as int);
    let pk = items.take(k); let pk1 = items.take(k + 1);
    assert(pk1.len() == k + 1);
    assert(pk1[0] == items[0]);
    let (v0, s1) = sem(items[0], s);
    if k == 0 {
        assert(pk =~= Seq::<Ast>::empty());
        assert(sem_seq(pk, s) == (Some(Seq::<Value>::empty()), s));
        assert(pk1.subrange(1, pk1.len() as int) =~= Seq::<Ast>::empty());
        assert(sem_seq(pk1.subrange(1, pk1.len() as int), s1) == (Some(Seq::<Value>::empty()), s1));
        if v0.is_some() {
            assert(seq![v0.unwrap()] + Seq::<Value>::empty() =~= Seq::<Value>::empty().push(v0.unwrap()));
        }
    } else {
        assert(pk.len() == k);
        assert(pk[0] == items[0]);
        assert(pk.subrange(1, pk.len() as int) =~= tail.take(k - 1));
        assert(pk1.subrange(1, pk1.len() as int) =~= tail.take(k));
        assert(tail[k - 1] == items[k]);
        assert(v0.is_some());
        let (pv2, ps2) = sem_seq(tail.take(k - 1), s1);
        assert(pv2.is_some());
        assert(sem_seq(pk, s) == (Some(seq![v0.unwrap()] + pv2.unwrap()), ps2));
        lemma_sem_seq_snoc(tail, k - 1, s1);
        let (v, s3) = sem(items[k], ps2);
        if v.is_some() {
            assert(seq![v0.unwrap()] + pv2.unwrap().push(v.unwrap()) =~= (seq![v0.unwrap()] + pv2.unwrap()).push(v.unwrap()));
        }
    }
}
// an error at position k is the result of the whole sequence
pub proof fn lemma_sem_seq_err_prefix(items: Seq<Ast>, k: int, s: St)
    requires 0 <= k <= items.len(), sem_seq(items.take(k), s).0.is_none(),
    ensures sem_seq(items, s) == sem_seq(items.take(k), s),
    decreases k
{
    if k == 0 { assert(items.take(0) =~= Seq::<Ast>::empty()); }
    else {
        let tail = items.subrange(1, items.len() as int);
        assert(items.take(k)[0] == items[0]);
        assert(items.take(k).subrange(1, k) =~= tail.take(k - 1));
        let (v0, s1) = sem(items[0], s);
        if v0.is_some() { lemma_sem_seq_err_prefix(tail, k - 1, s1); }
    }
}

pub open spec fn vec_cloned<'a>(a: Vec<Ast<'a>>, b: Vec<Ast<'a>>) -> bool {
    a.len() == b.len() && forall|i: int| 0 <= i < a.len() ==> cloned(#[trigger] a[i], b[i])
}
pub proof fn lemma_vec_cloned_eq<'a>(a: Vec<Ast<'a>>, b: Vec<Ast<'a>>)
    requires vec_cloned(a, b) ensures a@ =~= b@
{
    assert forall|i: int| 0 <= i < a.len() implies a@[i] == b@[i] by { assert(cloned(a[i], b[i])); }
}
impl<'a> Ast<'a> {
    pub fn exec(&self, ctx: &mut Context) -> (r: Result<Value>)
        ensures agrees(r, final(ctx)@, sem(*self, old(ctx)@)),
        decreases self, 1int
    {
        match self {
            Ast::Lit(n) => Ok(Value::Num(*n)),
            Ast::Ref(name) => ctx.value(name),
            Ast::Ternary(c, t, e) => self.exec_ternary(c, t, e, ctx),
            Ast::List(params) => self.exec_list(params.clone(), ctx),
            Ast::Stmt(_) => { assume(false); Ok(Value::None) },
            Ast::Assign(_, _) => { assume(false); Ok(Value::None) },
        }
    }
    fn exec_ternary(&self, condition: &Ast, lhs: &Ast, rhs: &Ast, ctx: &mut Context) -> (r: Result<Value>)
        requires *self == Ast::Ternary(Box::new(*condition), Box::new(*lhs), Box::new(*rhs)),
        ensures agrees(r, final(ctx)@, sem(*self, old(ctx)@)),
        decreases self, 0int
    {
        match condition.exec(ctx)? {
            Value::Bool(val) => {
                if val {
                    return lhs.exec(ctx);
                }
                rhs.exec(ctx)
            }
            _ => Err(Error::ShouldBeBool()),
        }
    }
    fn exec_list(&self, params: Vec<Ast>, ctx: &mut Context) -> (r: Result<Value>)
        requires self matches Ast::List(items) && vec_cloned(*items, params),
        ensures agrees(r, final(ctx)@, sem(*self, old(ctx)@)),
        decreases self, 0int
    {
        let ghost items = match self { Ast::List(items) => *items, _ => arbitrary() };
        proof { lemma_vec_cloned_eq(items, params); }
        let mut ans = Vec::new();
        for expr in it: params
            invariant
                sem_seq(params@.take(it.index@ as int), old(ctx)@) == (Some(ans@), ctx@),
                *self == Ast::List(items), items@ == params@,
        {
            let ghost k = it.index@ as int;
            proof { lemma_sem_seq_snoc(params@, k, old(ctx)@); vstd::std_specs::vec::axiom_vec_index_decreases(items, k); assert(expr == items@[k]); assert(decreases_to!(items => items[k])); match self { Ast::List(it2) => { assert(*it2 == items); assert(decreases_to!(self => it2)); assert(decreases_to!(*self => *it2)); }, _ => {} } assert(decreases_to!(*self => expr)); }
            let res = expr.exec(ctx);
            match res { Ok(v) => ans.push(v), Err(e) => { proof { lemma_sem_seq_err_prefix(params@, k + 1, old(ctx)@); } return Err(e); } }
        }
        proof { assert(params@.take(params@.len() as int) =~= params@); broadcast use spec_vec_view; }
        Ok(Value::List(ans))
    }
}
}
fn main(){}
