use vstd::prelude::*;
use vstd::string::*;
use rust_decimal::prelude::*;
use rust_decimal::Decimal;
verus! {
#[verifier::external_type_specification]
#[verifier::external_body]
pub struct ExDecimal(rust_decimal::Decimal);
#[verifier::external_type_specification]
#[verifier::external_body]
pub struct ExPIE(core::num::ParseIntError);

#[verifier::external_trait_specification]
pub trait ExFromStr: Sized {
    type ExternalTraitSpecificationFor: core::str::FromStr;
    type Err;
    fn from_str(s: &str) -> core::result::Result<Self, Self::Err>;
}
pub enum Error { InvalidInteger }
pub type Result<T> = core::result::Result<T, Error>;

// dependency model
pub uninterp spec fn dec_mant(d: Decimal) -> int;      // signed mantissa
pub uninterp spec fn dec_scale(d: Decimal) -> nat;     // number of fractional digits
pub uninterp spec fn dec_text(d: Decimal) -> Seq<char>;  // Display rendering
pub uninterp spec fn parse_i64(s: Seq<char>) -> Option<i64>;
pub open spec fn pow10(n: nat) -> int decreases n { if n == 0 { 1 } else { 10 * pow10((n - 1) as nat) } }
// the number is the integer n
pub open spec fn is_int(d: Decimal, n: int) -> bool { dec_mant(d) == n * pow10(dec_scale(d)) }

pub broadcast axiom fn axiom_decimal_to_string(d: Decimal, r: String)
    ensures #[trigger] to_string_from_display_ensures(&d, r) ==> r@ == dec_text(d);
pub assume_specification<F: core::str::FromStr>[str::parse::<F>](s: &str) -> (r: core::result::Result<F, <F as core::str::FromStr>::Err>)
    ensures call_ensures(<F as core::str::FromStr>::from_str, (s,), r);
pub assume_specification[<i64 as core::str::FromStr>::from_str](s: &str) -> (r: core::result::Result<i64, core::num::ParseIntError>)
    ensures r.is_ok() == parse_i64(s@).is_some(), r matches Ok(v) ==> v == parse_i64(s@).unwrap();
pub assume_specification<T, U, F: FnOnce(T) -> U>[Option::<T>::map_or](o: Option<T>, d: U, f: F) -> (r: U)
    ensures o.is_none() ==> r == d, o.is_some() ==> f.ensures((o.unwrap(),), r);
pub assume_specification<T, E, U, F: FnOnce(T) -> U>[core::result::Result::<T, E>::map_or](o: core::result::Result<T, E>, d: U, f: F) -> (r: U)
    ensures o.is_err() ==> r == d, o matches Ok(v) ==> f.ensures((v,), r);
// A3 (rust_decimal Display + std parse): a scale-0 number prints as its integer; a number with fractional digits prints a '.', which parse::<i64> rejects
pub broadcast axiom fn axiom_text_parse(d: Decimal)
    ensures
        dec_scale(d) == 0 && i64::MIN <= dec_mant(d) <= i64::MAX ==> #[trigger] parse_i64(dec_text(d)) == Some(dec_mant(d) as i64),
        dec_scale(d) == 0 && !(i64::MIN <= dec_mant(d) <= i64::MAX) ==> parse_i64(dec_text(d)) is None,
        dec_scale(d) > 0 ==> parse_i64(dec_text(d)) is None;

pub enum Value { Number(Decimal), Bool(bool) }
impl Value {
    // property C17: Ok(n) for every number whose value is the integer n within i64, whatever its scale; Err otherwise
    pub fn integer(self) -> (r: Result<i64>)
        ensures
            self matches Value::Number(d) ==> (forall|n: int| i64::MIN <= n <= i64::MAX && is_int(d, n) ==> r == Ok::<i64, Error>(n as i64)),
            !(self is Number) ==> r is Err,
    {
        proof { broadcast use axiom_text_parse, axiom_decimal_to_string; }
        match self {
            Self::Number(val) => val
                .to_string()
                .parse()
                .map_or(Err(Error::InvalidInteger), |num: i64| -> (r: Result<i64>) ensures r == Ok::<i64, Error>(num) { Ok(num) }),
            _ => Err(Error::InvalidInteger),
        }
    }
}
}
fn main(){}
