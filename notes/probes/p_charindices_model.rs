use vstd::prelude::*;
use vstd::string::*;
use vstd::utf8::*;
use std::str;
verus! {

#[verifier::external_type_specification]
#[verifier::external_body]
pub struct ExCharIndices<'a>(core::str::CharIndices<'a>);

pub uninterp spec fn ci_bytes(c: &core::str::CharIndices) -> Seq<u8>;
pub uninterp spec fn ci_off(c: &core::str::CharIndices) -> int;

pub open spec fn ci_wf(c: &core::str::CharIndices) -> bool {
    &&& valid_utf8(ci_bytes(c))
    &&& 0 <= ci_off(c) <= ci_bytes(c).len()
    &&& is_char_boundary(ci_bytes(c), ci_off(c))
}

pub assume_specification<'a>[str::char_indices](s: &'a str) -> (r: std::str::CharIndices<'a>)
    ensures ci_bytes(&r) == s.spec_bytes(), ci_off(&r) == 0, ci_wf(&r);

pub assume_specification<'a>[<core::str::CharIndices<'a> as Iterator>::next](c: &mut std::str::CharIndices<'a>) -> (r: Option<(usize, char)>)
    ensures ci_bytes(final(c)) == ci_bytes(old(c)), ci_wf(old(c)) ==> ci_wf(final(c)),
        ci_off(old(c)) == ci_bytes(old(c)).len() ==> r.is_none() && ci_off(final(c)) == ci_off(old(c)),
        ci_off(old(c)) < ci_bytes(old(c)).len() ==> r.is_some() && r.unwrap().0 == ci_off(old(c))
            && ci_off(final(c)) == ci_off(old(c)) + r.unwrap().1.len_utf8();

pub assume_specification<'a>[<core::str::CharIndices<'a> as Clone>::clone](c: &std::str::CharIndices<'a>) -> (r: std::str::CharIndices<'a>)
    ensures ci_bytes(&r) == ci_bytes(c), ci_off(&r) == ci_off(c), ci_wf(c) ==> ci_wf(&r);

pub struct Tk<'a> { input: &'a str, chars: str::CharIndices<'a>, cur_char: char }

impl<'a> Tk<'a> {
    pub closed spec fn wf(&self) -> bool {
        &&& ci_bytes(&self.chars) == self.input.spec_bytes()
        &&& ci_wf(&self.chars)
    }
    pub closed spec fn off(&self) -> int { ci_off(&self.chars) }

    fn next_one(&mut self) -> (r: Option<(usize, char)>)
        requires old(self).wf(),
        ensures final(self).wf(), final(self).input == old(self).input,
            r.is_none() ==> final(self).off() == old(self).off() && old(self).off() == old(self).input.spec_bytes().len(),
            r.is_some() ==> r.unwrap().0 == old(self).off() && final(self).off() > old(self).off() && final(self).cur_char == r.unwrap().1,
    {
        let (cur, cur_char) = self.chars.next()?;
        self.cur_char = cur_char;
        Some((cur, cur_char))
    }

    fn peek_one(&mut self) -> (r: Option<(usize, char)>)
        requires old(self).wf(),
        ensures *final(self) == *old(self),
            r.is_none() <==> old(self).off() == old(self).input.spec_bytes().len(),
            r.is_some() ==> r.unwrap().0 == old(self).off(),
    {
        self.chars.clone().next()
    }

    fn current(&self) -> (r: usize)
        requires self.wf(),
        ensures r == self.off(),
    {
        self.chars
            .clone()
            .next()
            .map(|i| i.0)
            .unwrap_or_else(|| self.input.len())
    }

    fn delim_slice(&mut self, start: usize) -> (r: &'a str)
        requires old(self).wf(), 
            start < old(self).input.spec_bytes().len(),
            is_char_boundary(old(self).input.spec_bytes(), start as int),
            old(self).input.spec_bytes()[start as int] < 128,
    {
        &self.input[start..start + 1]
    }
}
}
fn main(){}
