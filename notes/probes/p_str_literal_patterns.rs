use vstd::prelude::*;
use vstd::string::*;
verus! {
fn f(op: &str) -> (r: bool) ensures r == (op == "||") { match op { "||" => true, _ => false } }
fn h(op: &str) -> (r: u8) requires op == "+" || op == "-" ensures r == (if op == "+" { 1u8 } else { 2u8 }) { match op { "+" => 1, "-" => 2, _ => 0 } }
proof fn lits() ensures "||"@ != "&&"@ { reveal_strlit("||"); reveal_strlit("&&"); assert("||"@[0] == '|'); assert("&&"@[0] == '&'); }
proof fn lits2() ensures "+" != "-" { reveal_strlit("+"); reveal_strlit("-"); assert("+"@[0] == '+'); assert("-"@[0] == '-'); }
}
fn main(){}
