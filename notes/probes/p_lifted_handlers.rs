use vstd::prelude::*;
use std::ops::*;
verus! {

#[verifier::external_body]
#[derive(Clone, Copy, PartialEq, Eq, Debug, PartialOrd)]
pub struct Decimal { x: i64 }
impl AddAssign for Decimal { #[verifier::external_body] fn add_assign(&mut self, o: Decimal) { self.x += o.x } }
impl SubAssign for Decimal { #[verifier::external_body] fn sub_assign(&mut self, o: Decimal) { self.x -= o.x } }
impl DivAssign for Decimal { #[verifier::external_body] fn div_assign(&mut self, o: Decimal) { self.x /= o.x } }

pub enum Error { ShouldBeNumber(), InvalidInteger }
pub type Result<T> = core::result::Result<T, Error>;
pub enum Value { String(String), Number(Decimal), Bool(bool), List(Vec<Value>), Map(Vec<(Value, Value)>), None }

impl Value {
    pub fn decimal(self) -> Result<Decimal> {
        match self {
            Self::Number(val) => Ok(val),
            _ => Err(Error::ShouldBeNumber()),
        }
    }
}
impl From<bool> for Value { fn from(value: bool) -> Self { Value::Bool(value) } }

// lifted closure from InfixOpManager::init, first arithmetic loop
fn handler(op: &str, left: Value, right: Value) -> Result<Value> {
                    let (mut a, b) = (left.decimal()?, right.decimal()?);
                    match op {
                        "+=" => a += b,
                        "-=" => a -= b,
                        "/=" => a /= b,
                        _ => (),
                    }
                    Ok(Value::Number(a))
}
fn handler2(op: &str, left: Value, right: Value) -> Result<Value> {
                    let (a, b) = (left.decimal()?, right.decimal()?);
                    let mut value = false;
                    match op {
                        "<" => value = a < b,
                        "<=" => value = a <= b,
                        _ => (),
                    }
                    Ok(Value::from(value))
}
}
fn main(){}
