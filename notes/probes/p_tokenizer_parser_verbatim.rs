use vstd::prelude::*;
use vstd::string::*;
use std::str;
use std::fmt;
verus! {
#[verifier::exec_allows_no_decreases_clause]
mod m { use super::*; use vstd::prelude::*; use vstd::string::*; 

#[verifier::external_type_specification]
#[verifier::external_body]
pub struct ExCharIndices<'a>(core::str::CharIndices<'a>);

#[verifier::external_body]
#[derive(Clone, Copy, PartialEq, Eq, Debug)]
pub struct Decimal { x: u64 }
impl Decimal {
  #[verifier::external_body]
  pub fn from_str(s: &str) -> core::result::Result<Decimal, ()> { unimplemented!() }
}
impl fmt::Display for Decimal { #[verifier::external_body] fn fmt(&self, f: &mut fmt::Formatter<'_>) -> fmt::Result { unimplemented!() } }


pub uninterp spec fn ci_bytes(c: &core::str::CharIndices) -> Seq<u8>;
pub uninterp spec fn ci_off(c: &core::str::CharIndices) -> int;

pub assume_specification<'a>[str::char_indices](s: &'a str) -> (r: std::str::CharIndices<'a>)
    ensures ci_bytes(&r) == s.spec_bytes(), ci_off(&r) == 0;

pub assume_specification<'a>[<core::str::CharIndices<'a> as Iterator>::next](c: &mut std::str::CharIndices<'a>) -> (r: Option<(usize, char)>)
    ensures ci_bytes(final(c)) == ci_bytes(old(c)),
        ci_off(old(c)) == ci_bytes(old(c)).len() ==> r.is_none() && ci_off(final(c)) == ci_off(old(c)),
        ci_off(old(c)) < ci_bytes(old(c)).len() ==> r.is_some() && r.unwrap().0 == ci_off(old(c)) && ci_off(final(c)) > ci_off(old(c)) && ci_off(final(c)) <= ci_bytes(old(c)).len();

pub assume_specification<'a>[<core::str::CharIndices<'a> as Clone>::clone](c: &std::str::CharIndices<'a>) -> (r: std::str::CharIndices<'a>)
    ensures ci_bytes(&r) == ci_bytes(c), ci_off(&r) == ci_off(c);

pub enum Error { InvalidNumber(String), UnterminatedString(usize), ExpectedOpNotExist(String), ShouldBeBool(), NotReferenceExpr, UnexpectedEOF(usize), UnexpectedToken(), ExpectBinOpToken, NoOpenDelim, NoCloseDelim }
pub type Result<T> = core::result::Result<T, Error>;

mod keyword { use vstd::prelude::*; verus!{ 
#[verifier::external_body] pub fn is_op(op: &str) -> bool { unimplemented!() } 
#[verifier::external_body] pub fn is_postfix_op(op: &str) -> bool { unimplemented!() } 
#[verifier::external_body] pub fn is_infix_op(op: &str) -> bool { unimplemented!() } 
#[verifier::external_body] pub fn is_not(op: &str) -> bool { unimplemented!() } 
} }

#[derive(Clone, PartialEq, Debug, Copy)]
pub enum DelimTokenType {
    // "("
    OpenParen,
    // ")"
    CloseParen,
    // "["
    OpenBracket,
    // "]"
    CloseBracket,
    // "{"
    OpenBrace,
    // "}"
    CloseBrace,

    Unknown,
}

impl From<char> for DelimTokenType {
    fn from(value: char) -> Self {
        use DelimTokenType::*;
        match value {
            '(' => OpenParen,
            ')' => CloseParen,
            '[' => OpenBracket,
            ']' => CloseBracket,
            '{' => OpenBrace,
            '}' => CloseBrace,
            _ => Unknown,
        }
    }
}

impl From<&str> for DelimTokenType {
    fn from(value: &str) -> Self {
        use DelimTokenType::*;
        match value {
            "(" => OpenParen,
            ")" => CloseParen,
            "[" => OpenBracket,
            "]" => CloseBracket,
            "{" => OpenBrace,
            "}" => CloseBrace,
            _ => Unknown,
        }
    }
}

impl DelimTokenType {
    pub fn string(&self) -> String {
        use DelimTokenType::*;
        match self {
            OpenParen => "(".to_string(),
            CloseParen => ")".to_string(),
            OpenBracket => "[".to_string(),
            CloseBracket => "]".to_string(),
            OpenBrace => "{".to_string(),
            CloseBrace => "}".to_string(),
            Unknown => "??".to_string(),
        }
    }
}

#[derive(Clone, PartialEq, Debug, Copy)]
pub struct Span(pub usize, pub usize);

#[derive(Clone, PartialEq, Debug, Copy)]
pub enum Token<'input> {
    Operator(&'input str, Span),
    Delim(DelimTokenType, Span),
    Number(Decimal, Span),
    Comma(&'input str, Span),
    Bool(bool, Span),
    String(&'input str, Span),
    Reference(&'input str, Span),
    Function(&'input str, Span),
    Semicolon(&'input str, Span),
    EOF,
}

pub fn check_op(token: Token, expected: &str) -> bool {
    match token {
        Token::Delim(op, _) => {
            if op.string() == expected {
                return true;
            }
        }
        Token::Operator(op, _) => {
            if op == expected {
                return true;
            }
        }
        _ => return false,
    }
    return false;
}

impl<'input> Token<'input> {
    pub fn is_open_paren(self) -> bool {
        check_op(self, "(")
    }

    pub fn is_close_paren(self) -> bool {
        check_op(self, ")")
    }

    pub fn is_open_bracket(self) -> bool {
        check_op(self, "[")
    }

    pub fn is_close_bracket(self) -> bool {
        check_op(self, "]")
    }

    pub fn is_open_brace(self) -> bool {
        check_op(self, "{")
    }

    pub fn is_close_brace(self) -> bool {
        check_op(self, "}")
    }

    pub fn is_question_mark(self) -> bool {
        check_op(self, "?")
    }

    pub fn is_colon(self) -> bool {
        check_op(self, ":")
    }

    pub fn is_eof(self) -> bool {
        match self {
            Self::EOF => true,
            _ => false,
        }
    }

    pub fn is_op_token(&self) -> bool {
        match self {
            Self::Operator(_, _) => true,
            _ => false,
        }
    }

    pub fn is_postfix_op_token(&self) -> bool {
        match self {
            Self::Operator(op, _) => keyword::is_postfix_op(op),
            _ => false,
        }
    }

    pub fn is_binop_token(&self) -> bool {
        match self {
            Self::Operator(op, _) => keyword::is_infix_op(op),
            _ => false,
        }
    }

    pub fn is_not_token(&self) -> bool {
        match self {
            Self::Operator(op, _) => keyword::is_not(op),
            _ => false,
        }
    }

    pub fn is_semicolon(&self) -> bool {
        match self {
            Self::Semicolon(..) => true,
            _ => false,
        }
    }

    #[cfg(not(tarpaulin_include))]
    pub fn string(self) -> String {
        use Token::*;
        match self {
            Operator(op, _) => op.to_string(),
            Number(val, _) => val.to_string(),
            Comma(val, _) => val.to_string(),
            Bool(val, _) => val.to_string(),
            String(val, _) => val.to_string(),
            Reference(val, _) => val.to_string(),
            Function(val, _) => val.to_string(),
            Semicolon(val, _) => val.to_string(),
            Delim(ty, _) => ty.string(),
            EOF => "EOF".to_string(),
        }
    }
}




#[derive(Clone)]
pub struct Tokenizer<'a> {
    input: &'a str,
    chars: str::CharIndices<'a>,
    cur_char: char,
    pub cur_token: Token<'a>,
    pub prev_token: Token<'a>,
}

impl<'a> Tokenizer<'a> {
    pub fn new(input: &str) -> Tokenizer {
        Tokenizer {
            input: input,
            chars: input.char_indices(),
            cur_char: ' ',
            cur_token: Token::EOF,
            prev_token: Token::EOF,
        }
    }

    fn next_one(&mut self) -> Option<(usize, char)> {
        let (cur, cur_char) = self.chars.next()?;
        self.cur_char = cur_char;
        Some((cur, cur_char))
    }

    fn peek_one(&mut self) -> Option<(usize, char)> {
        self.chars.clone().next()
    }

    pub fn next(&mut self) -> Result<Token<'a>> {
        self.eat_whitespace();
        self.prev_token = self.cur_token;
        self.cur_token = match self.next_one() {
            Some((
                start,
                '+' | '-' | '*' | '/' | '^' | '%' | '&' | '!' | '=' | '?' | ':' | '>' | '<' | '|',
            )) => self.special_op_token(start),
            Some((start, '(' | ')' | '[' | ']' | '{' | '}')) => self.delim_token(start),
            Some((start, _ch @ '0'..='9')) => self.number_token(start),
            Some((start, '"' | '\'')) => self.string_token(start),
            Some((start, ';')) => self.semicolon_token(start),
            Some((start, ',')) => self.comma_token(start),
            None => Ok(Token::EOF),
            Some((start, ch)) => self.other_token(ch, start),
        }?;
        Ok(self.cur_token)
    }

    fn special_op_token(&mut self, start: usize) -> Result<Token<'a>> {
        loop {
            match self.peek_one() {
                Some((_, _ch)) => {
                    if keyword::is_op(&(self.input[start..self.current() + 1].to_string())) {
                        self.next_one();
                    } else {
                        break;
                    }
                }
                None => break,
            }
        }
        Ok(Token::Operator(
            &self.input[start..self.current()],
            Span(start, self.current()),
        ))
    }

    fn other_token(&mut self, _c: char, start: usize) -> Result<Token<'a>> {
        if self.try_parse_op(start) {
            return self.operator_token(start);
        }
        let (atom, start) = self.parse_var(start);
        if atom == "True" || atom == "true" {
            return self.bool_token(start, true);
        } else if atom == "False" || atom == "false" {
            return self.bool_token(start, false);
        }
        return self.function_or_reference_token(atom, start);
    }

    fn try_parse_op(&self, start: usize) -> bool {
        let mut tmp = self.clone();
        loop {
            match tmp.peek_one() {
                Some((_, ch)) => {
                    if is_whitespace_char(ch) || is_delim_char(ch) {
                        break;
                    }
                    tmp.next_one();
                }
                None => break,
            }
        }
        keyword::is_op(&tmp.input[start..tmp.current()])
    }

    fn operator_token(&mut self, start: usize) -> Result<Token<'a>> {
        loop {
            match self.peek_one() {
                Some((_, ch)) => {
                    if is_whitespace_char(ch) || is_delim_char(ch) {
                        break;
                    }
                    self.next_one();
                }
                None => break,
            }
        }
        return Ok(Token::Operator(
            self.input[start..self.current()].into(),
            Span(start, self.current()),
        ));
    }

    fn parse_var(&mut self, start: usize) -> (&'a str, usize) {
        loop {
            match self.peek_one() {
                Some((_, ch)) => {
                    if is_param_char(ch) {
                        self.next_one();
                        continue;
                    }
                    break;
                }
                None => break,
            }
        }
        (self.input[start..self.current()].into(), start)
    }

    pub fn peek(&self) -> Result<Token> {
        self.clone().next()
    }

    pub fn expect(&mut self, op: &str) -> Result<()> {
        let token = self.cur_token.clone();
        self.next()?;
        match token {
            Token::Delim(bracket, _) => {
                if bracket.string() == op {
                    return Ok(());
                }
            }
            Token::Operator(operator, _) => {
                if operator == op {
                    return Ok(());
                }
            }
            Token::Comma(c, _) => {
                if c == op {
                    return Ok(());
                }
            }
            _ => {
                return Err(Error::ExpectedOpNotExist(op.to_string()));
            }
        }
        Ok(())
    }

    fn delim_token(&mut self, start: usize) -> Result<Token<'a>> {
        Ok(Token::Delim(
            self.input[start..start + 1].into(),
            Span(start, start + 1),
        ))
    }

    fn comma_token(&mut self, start: usize) -> Result<Token<'a>> {
        Ok(Token::Comma(
            &self.input[start..start + 1],
            Span(start, start + 1),
        ))
    }

    fn semicolon_token(&mut self, start: usize) -> Result<Token<'a>> {
        Ok(Token::Semicolon(
            &self.input[start..start + 1],
            Span(start, start + 1),
        ))
    }

    fn number_token(&mut self, start: usize) -> Result<Token<'a>> {
        loop {
            match self.peek_one() {
                Some((_, ch)) => {
                    if (ch == '+' || ch == '-') && (self.cur_char != 'e' && self.cur_char != 'E') {
                        break;
                    }
                    if is_digit_char(ch) {
                        self.next_one();
                    } else {
                        break;
                    }
                }
                None => break,
            }
        }
        match Decimal::from_str(&self.input[start..self.current()]) {
            Ok(val) => Ok(Token::Number(val, Span(start, self.current()))),
            Err(_) => Err(Error::InvalidNumber(
                self.input[start..self.current()].to_string(),
            )),
        }
    }

    fn function_or_reference_token(&self, atom: &'a str, start: usize) -> Result<Token<'a>> {
        let peek = self.peek()?;
        if peek.is_open_paren() {
            return Ok(Token::Function(atom, Span(start, self.current())));
        }
        Ok(Token::Reference(atom, Span(start, self.current())))
    }

    fn string_token(&mut self, start: usize) -> Result<Token<'a>> {
        let identifier = self.cur_char;
        let mut string_termmited = false;
        loop {
            match self.next_one() {
                Some((_, ch)) => {
                    if ch == identifier {
                        string_termmited = true;
                        break;
                    }
                }
                None => break,
            }
        }
        if !string_termmited {
            return Err(Error::UnterminatedString(self.current()));
        }
        Ok(Token::String(
            &self.input[start + 1..self.current() - 1],
            Span(start, self.current()),
        ))
    }

    fn bool_token(&mut self, start: usize, val: bool) -> Result<Token<'a>> {
        Ok(Token::Bool(val, Span(start, self.current())))
    }

    fn eat_whitespace(&mut self) -> Option<()> {
        loop {
            let (_, ch) = self.peek_one()?;
            if is_whitespace_char(ch) {
                self.next_one();
            } else {
                break;
            }
        }
        Some(())
    }

    fn current(&self) -> usize {
        self.chars
            .clone()
            .next()
            .map(|i| i.0)
            .unwrap_or_else(|| self.input.len())
    }
}

fn is_digit_char(ch: char) -> bool {
    return '0' <= ch && ch <= '9' || ch == '.' || ch == '-' || ch == 'e' || ch == 'E' || ch == '+';
}

fn is_whitespace_char(ch: char) -> bool {
    return ch == ' ' || ch == '\t' || ch == '\r' || ch == '\n';
}

fn is_delim_char(ch: char) -> bool {
    return ch == '(' || ch == ')' || ch == '[' || ch == ']' || ch == '{' || ch == '}';
}

fn is_param_char(ch: char) -> bool {
    return ('0' <= ch && ch <= '9')
        || ('a' <= ch && ch <= 'z')
        || ('A' <= ch && ch <= 'Z')
        || ch == '.'
        || ch == '_';
}


#[verifier::external_body]
pub struct Context { x: u64 }
impl Context {
  #[verifier::external_body] pub fn value(&self, name: &str) -> Result<Value> { unimplemented!() }
  #[verifier::external_body] pub fn set_variable(&mut self, name: &str, value: Value) { unimplemented!() }
}
pub enum InfixOpType { CALC, SETTER }
pub struct InfixOpManager {}
impl InfixOpManager {
  #[verifier::external_body] pub fn new() -> Self { unimplemented!() }
  #[verifier::external_body] pub fn get_precidence(&self, op: &str) -> (i32, i32) { unimplemented!() }
  #[verifier::external_body] pub fn get_op_type(&self, op: &str) -> Result<InfixOpType> { unimplemented!() }
}
pub struct PrefixOpManager {}
impl PrefixOpManager {
  #[verifier::external_body] pub fn new() -> Self { unimplemented!() }
}
pub struct PostfixOpManager {}
impl PostfixOpManager {
  #[verifier::external_body] pub fn new() -> Self { unimplemented!() }
}
pub struct InnerFunctionManager {}
impl InnerFunctionManager {
  #[verifier::external_body] pub fn new() -> Self { unimplemented!() }
}
pub enum Value { String(String), Number(Decimal), Bool(bool), List(Vec<Value>), Map(Vec<(Value, Value)>), None }
impl From<bool> for Value { fn from(value: bool) -> Self { Value::Bool(value) } }
impl From<&str> for Value { #[verifier::external_body] fn from(value: &str) -> Self { Value::String(value.to_string()) } }
impl From<Decimal> for Value { fn from(value: Decimal) -> Self { Value::Number(value) } }

#[verifier::external_derive]
#[derive(Clone, PartialEq, Eq, Debug)]
pub enum Literal<'a> {
    Number(Decimal),
    Bool(bool),
    String(&'a str),
}


#[verifier::external_derive]
#[derive(Clone, PartialEq, Eq, Debug)]
pub enum ExprAST<'a> {
    Literal(Literal<'a>),
    Unary(&'a str, Box<ExprAST<'a>>),
    Binary(&'a str, Box<ExprAST<'a>>, Box<ExprAST<'a>>),
    Postfix(Box<ExprAST<'a>>, String),
    Ternary(Box<ExprAST<'a>>, Box<ExprAST<'a>>, Box<ExprAST<'a>>),
    Reference(&'a str),
    Function(&'a str, Vec<ExprAST<'a>>),
    List(Vec<ExprAST<'a>>),
    Map(Vec<(ExprAST<'a>, ExprAST<'a>)>),
    Stmt(Vec<ExprAST<'a>>),
    None,
}


impl<'a> ExprAST<'a> { }
pub struct Parser<'a> {
    tokenizer: Tokenizer<'a>,
}

impl<'a> Parser<'a> {
    fn cur_tok(&self) -> Token {
        self.tokenizer.cur_token.clone()
    }

    pub fn new(input: &'a str) -> Result<Self> {
        let mut tokenizer = Tokenizer::new(input);
        tokenizer.next()?;
        Ok(Self {
            tokenizer: tokenizer,
        })
    }

    fn is_eof(&self) -> bool {
        self.cur_tok().is_eof()
    }

    pub fn next(&mut self) -> Result<Token> {
        self.tokenizer.next()
    }

    fn expect(&mut self, expected: &str) -> Result<()> {
        self.tokenizer.expect(expected)
    }

    fn parse_token(&mut self) -> Result<ExprAST<'a>> {
        let token = self.tokenizer.cur_token;
        match token {
            Token::Number(val, _) => {
                self.next()?;
                Ok(ExprAST::Literal(Literal::Number(val)))
            }
            Token::Bool(val, _) => {
                self.next()?;
                Ok(ExprAST::Literal(Literal::Bool(val)))
            }
            Token::String(val, _) => {
                self.next()?;
                Ok(ExprAST::Literal(Literal::String(val)))
            }
            Token::Reference(val, _) => {
                self.next()?;
                Ok(ExprAST::Reference(val))
            }
            Token::Function(name, _) => self.parse_function(name),
            Token::Operator(op, _) => self.parse_unary(op),
            Token::Delim(ty, _) => self.parse_delim(ty),
            Token::EOF => Err(Error::UnexpectedEOF(0)),
            _ => Err(Error::UnexpectedToken()),
        }
    }

    pub fn parse_stmt(&mut self) -> Result<ExprAST<'a>> {
        let mut ans = Vec::new();
        loop {
            if self.is_eof() {
                break;
            }
            ans.push(self.parse_expression()?);
            if self.cur_tok().is_semicolon() {
                self.next()?;
            }
        }
        if ans.len() == 1 {
            return Ok(ans[0].clone());
        }
        Ok(ExprAST::Stmt(ans))
    }

    pub fn parse_expression(&mut self) -> Result<ExprAST<'a>> {
        let lhs = self.parse_primary()?;
        self.parse_op(0, lhs)
    }

    fn parse_primary(&mut self) -> Result<ExprAST<'a>> {
        let lhs = self.parse_token()?;
        if self.tokenizer.cur_token.is_postfix_op_token() {
            let op = self.tokenizer.cur_token.string();
            self.next()?;
            return Ok(ExprAST::Postfix(Box::new(lhs), op.to_string()));
        }
        Ok(lhs)
    }

    fn parse_op(&mut self, exec_prec: i32, mut lhs: ExprAST<'a>) -> Result<ExprAST<'a>> {
        let mut is_not = false;
        loop {
            if !self.tokenizer.cur_token.is_op_token() {
                return Ok(lhs);
            }
            if self.tokenizer.cur_token.is_not_token() {
                is_not = true;
                self.next()?;
                if !self.cur_tok().is_binop_token() {
                    return Err(Error::ExpectBinOpToken);
                }
                continue;
            }
            if self.tokenizer.cur_token.is_question_mark() {
                self.next()?;
                let a = self.parse_expression()?;
                self.expect(":")?;
                let b = self.parse_expression()?;
                return Ok(ExprAST::Ternary(Box::new(lhs), Box::new(a), Box::new(b)));
            }
            let (l_bp, r_bp) = self.get_token_precidence();
            if l_bp < exec_prec {
                return Ok(lhs);
            }
            let op: &str = match self.tokenizer.cur_token {
                Token::Operator(op, _) => op,
                _ => "",
            };
            self.next()?;
            let mut rhs = self.parse_primary()?;

            let (cur_l_bp, _) = self.get_token_precidence();
            if self.tokenizer.cur_token.is_binop_token() && r_bp < cur_l_bp {
                rhs = self.parse_op(r_bp, rhs)?;
            }
            lhs = ExprAST::Binary(op, Box::new(lhs), Box::new(rhs));
            if is_not {
                lhs = ExprAST::Unary("not", Box::new(lhs));
                is_not = false;
            }
        }
    }

    fn get_token_precidence(&self) -> (i32, i32) {
        match &self.cur_tok() {
            Token::Operator(op, _) => InfixOpManager::new().get_precidence(op),
            _ => (-1, -1),
        }
    }

    fn parse_delim(&mut self, ty: DelimTokenType) -> Result<ExprAST<'a>> {
        use DelimTokenType::*;
        match ty {
            OpenParen => self.parse_open_paren(),
            OpenBracket => self.parse_open_bracket(),
            OpenBrace => self.parse_open_brace(),
            _ => Err(Error::NoOpenDelim),
        }
    }

    fn parse_open_paren(&mut self) -> Result<ExprAST<'a>> {
        self.next()?;
        let expr = self.parse_expression()?;
        if !self.tokenizer.cur_token.is_close_paren() {
            return Err(Error::NoCloseDelim);
        }
        self.next()?;
        Ok(expr)
    }

    fn parse_open_bracket(&mut self) -> Result<ExprAST<'a>> {
        self.next()?;
        let mut exprs = Vec::new();
        loop {
            if self.is_eof() || self.cur_tok().is_close_bracket() {
                break;
            }
            exprs.push(self.parse_expression()?);
            if !self.cur_tok().is_close_bracket() {
                self.expect(",")?;
            }
        }
        self.expect("]")?;
        Ok(ExprAST::List(exprs))
    }

    fn parse_open_brace(&mut self) -> Result<ExprAST<'a>> {
        self.next()?;
        let mut m = Vec::new();
        loop {
            if self.is_eof() || self.cur_tok().is_close_brace() {
                break;
            }
            let k = self.parse_expression()?;
            self.expect(":")?;
            let v = self.parse_expression()?;
            m.push((k, v));
            if !self.cur_tok().is_close_brace() {
                self.expect(",")?;
            }
        }
        self.expect("}")?;
        Ok(ExprAST::Map(m))
    }

    fn parse_unary(&mut self, op: &'a str) -> Result<ExprAST<'a>> {
        self.next()?;
        Ok(ExprAST::Unary(op, Box::new(self.parse_primary()?)))
    }

    fn parse_function(&mut self, name: &'a str) -> Result<ExprAST<'a>> {
        self.next()?;
        self.expect("(")?;
        let mut ans = Vec::new();
        if self.cur_tok().is_close_paren() {
            self.next()?;
            return Ok(ExprAST::Function(name, ans));
        }
        let has_right_paren;
        loop {
            ans.push(self.parse_expression()?);
            if self.cur_tok().is_close_paren() {
                has_right_paren = true;
                self.next()?;
                break;
            }
            self.expect(",")?;
        }
        if !has_right_paren {
            return Err(Error::NoCloseDelim);
        }
        Ok(ExprAST::Function(name, ans))
    }
}


} } // verus!
fn main(){}
