use vstd::prelude::*;
use vstd::string::*;
verus! {

#[verifier::external_body]
fn vx_add(a: String, b: &str) -> (r: String) ensures r@ == a@ + b@ { a + b }

fn unary_expr(op: &str, rhs: &String) -> (r: String)
    ensures r@ == op@ + " "@ + rhs@
{
    vx_add(vx_add(op.to_string(), " "), &rhs)
}

fn list_expr(params: Vec<String>) -> String {
    let mut s = String::from("[");
    for i in 0..params.len() {
        s.push_str(params[i].as_str());
        if i < params.len() - 1 {
            s.push_str(",");
        }
    }
    s.push_str("]");
    s
}
}
fn main(){}
