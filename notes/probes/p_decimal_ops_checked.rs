use vstd::prelude::*;
use rust_decimal::prelude::*;
use rust_decimal::Decimal;
verus! {
#[verifier::external_type_specification]
#[verifier::external_body]
pub struct ExDecimal(rust_decimal::Decimal);

// mathematical meaning of a Decimal and representability of a result (dependency model, uninterpreted)
pub uninterp spec fn dec_add(a: Decimal, b: Decimal) -> Option<Decimal>;   // None = overflow
pub uninterp spec fn dec_div(a: Decimal, b: Decimal) -> Option<Decimal>;   // None = overflow or zero divisor

// panicking operators: precondition = the checked form is Some  (rust_decimal docs: "Panics on overflow / division by zero")
pub assume_specification[<Decimal as core::ops::AddAssign<Decimal>>::add_assign](a: &mut Decimal, b: Decimal)
    ensures Some(*final(a)) == dec_add(*old(a), b);
pub assume_specification[Decimal::checked_add](a: Decimal, b: Decimal) -> (r: Option<Decimal>)
    ensures r == dec_add(a, b);

pub enum Error { ShouldBeNumber(), Overflow }
pub type Result<T> = core::result::Result<T, Error>;
fn h_current(a0: Decimal, b: Decimal) -> (r: Result<Decimal>)
    ensures match dec_add(a0, b) { Some(v) => r == Ok::<Decimal, Error>(v), None => r is Err }
{
    let mut a = a0;
    a += b;
    Ok(a)
}
fn h_fixed(a0: Decimal, b: Decimal) -> (r: Result<Decimal>)
    ensures match dec_add(a0, b) { Some(v) => r == Ok::<Decimal, Error>(v), None => r is Err }
{
    match a0.checked_add(b) { Some(v) => Ok(v), None => Err(Error::Overflow) }
}
fn sh(a0: i64, b: i64) -> (r: i64) {
    let mut a = a0;
    a <<= b;
    a
}
}
fn main(){}
