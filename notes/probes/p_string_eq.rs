use vstd::prelude::*;
use vstd::string::*;
verus! {
pub assume_specification<'a, 'b>[<String as PartialEq<&'a str>>::eq](x: &String, y: &&'a str) -> (r: bool) ensures r == (x@ == (*y)@);
fn a(x: &str, y: &str) -> (r: bool) ensures r == (x@ == y@) { x == y }
fn b(x: String, y: &str) -> (r: bool) ensures r == (x@ == y@) { x == y }
fn c() -> (r: String) ensures r@ == "("@ { "(".to_string() }
}
fn main(){}
