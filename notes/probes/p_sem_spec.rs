use vstd::prelude::*;
use vstd::string::*;
verus! {
pub enum Error { ShouldBeBool(), Other }
pub type Result<T> = core::result::Result<T, Error>;

#[verifier::external_derive]
#[derive(Clone, PartialEq, Debug)]
pub enum Value { Bool(bool), Num(i64), List(Vec<Value>), None }

#[verifier::external_derive]
#[derive(Clone, PartialEq, Debug)]
pub enum Ast<'a> {
    Lit(i64),
    Ref(&'a str),
    Ternary(Box<Ast<'a>>, Box<Ast<'a>>, Box<Ast<'a>>),
    List(Vec<Ast<'a>>),
    Stmt(Vec<Ast<'a>>),
    Assign(&'a str, Box<Ast<'a>>),
}
pub assume_specification<'a>[<Ast<'a> as Clone>::clone](v: &Ast<'a>) -> (r: Ast<'a>) ensures r == *v;

pub type St = Map<Seq<char>, Value>;
#[verifier::external_body] pub struct Context { x: u64 }
impl View for Context { type V = St; uninterp spec fn view(&self) -> St; }
impl Context {
  #[verifier::external_body] pub fn value(&self, name: &str) -> (r: Result<Value>)
      ensures r == Ok::<Value, Error>(if self@.dom().contains(name@) { self@[name@] } else { Value::None }) { unimplemented!() }
  #[verifier::external_body] pub fn set_variable(&mut self, name: &str, value: Value)
      ensures final(self)@ == old(self)@.insert(name@, value) { unimplemented!() }
}

// spec-level big-step semantics: (Some(value) | None = error, final state)
pub open spec fn sem(a: Ast, s: St) -> (Option<Value>, St)
    decreases a
{
    match a {
        Ast::Lit(n) => (Some(Value::Num(n)), s),
        Ast::Ref(x) => (Some(if s.dom().contains(x@) { s[x@] } else { Value::None }), s),
        Ast::Ternary(c, t, e) => {
            let (vc, s1) = sem(*c, s);
            match vc {
                Some(Value::Bool(b)) => if b { sem(*t, s1) } else { sem(*e, s1) },
                _ => (None, s1),
            }
        },
        Ast::List(items) => {
            let (vs, s1) = sem_seq(items@, s);
            match vs { Some(l) => (Some(Value::List(spec_vec(l))), s1), None => (None, s1) }
        },
        Ast::Stmt(items) => {
            let (vs, s1) = sem_seq(items@, s);
            match vs { Some(l) => (Some(if l.len() == 0 { Value::None } else { l.last() }), s1), None => (None, s1) }
        },
        Ast::Assign(x, e) => {
            let (v, s1) = sem(*e, s);
            match v { Some(v) => (Some(Value::None), s1.insert(x@, v)), None => (None, s1) }
        },
    }
}
pub uninterp spec fn spec_vec(s: Seq<Value>) -> Vec<Value>;
pub broadcast axiom fn spec_vec_view(s: Seq<Value>) ensures #[trigger] spec_vec(s)@ == s;

pub open spec fn sem_seq(items: Seq<Ast>, s: St) -> (Option<Seq<Value>>, St)
    decreases items
{
    if items.len() == 0 { (Some(Seq::empty()), s) } else {
        let (v0, s1) = sem(items[0], s);
        match v0 {
            None => (None, s1),
            Some(v) => { let (rest, s2) = sem_seq(items.subrange(1, items.len() as int), s1);
                         match rest { Some(r) => (Some(seq![v] + r), s2), None => (None, s2) } }
        }
    }
}
}
fn main(){}
