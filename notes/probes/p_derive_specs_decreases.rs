use vstd::prelude::*;
verus! {

#[verifier::external_derive]
#[derive(Clone, PartialEq, Debug)]
pub enum V { B(bool), L(Vec<V>), N }

pub assume_specification[<V as Clone>::clone](v: &V) -> (r: V) ensures r == *v;
pub assume_specification[<V as PartialEq>::eq](a: &V, b: &V) -> (r: bool) ensures r == (*a == *b);

fn contains(list: Vec<V>, left: V) -> (r: bool)
    ensures r == list@.contains(left)
{
    for item in it: list
        invariant forall|j: int| 0 <= j < it.index@ ==> list@[j] != left
    {
        if item == left { return true; }
    }
    false
}

pub struct P { pos: usize, len: usize }
impl P {
    pub closed spec fn m(&self) -> nat { (self.len - self.pos) as nat }
    fn adv(&mut self) ensures final(self).len == old(self).len, old(self).pos < old(self).len ==> final(self).pos == old(self).pos + 1, old(self).pos >= old(self).len ==> *final(self) == *old(self)
    { if self.pos < self.len { self.pos += 1; } }
    fn a(&mut self) -> (r: u32)
        ensures final(self).m() <= old(self).m()
        decreases old(self).m(), 1nat
    {
        if self.pos >= self.len { return 0; }
        self.adv();
        self.b()
    }
    fn b(&mut self) -> (r: u32)
        ensures final(self).m() <= old(self).m()
        decreases old(self).m(), 0nat
    {
        if self.pos >= self.len { return 1; }
        self.adv();
        let x = self.a();
        x
    }
}
}
fn main(){}
