use vstd::prelude::*;
use vstd::string::*;
verus! {
#[derive(PartialEq, Eq, Clone, Copy)]
pub enum D { OpenParen, CloseParen, Unknown }
// A8 (trusted): a &str is determined by its characters
pub axiom fn axiom_str_ext(a: &str, b: &str) ensures a@ == b@ ==> a == b;

pub open spec fn d_of(s: Seq<char>) -> D { if s == "("@ { D::OpenParen } else if s == ")"@ { D::CloseParen } else { D::Unknown } }
fn from(value: &str) -> (r: D) ensures r == d_of(value@)
{
    proof { axiom_str_ext(value, "("); axiom_str_ext(value, ")"); }
    match value { "(" => D::OpenParen, ")" => D::CloseParen, _ => D::Unknown }
}
}
fn main(){}
