exec(open('ov2.py').read())
PRELUDE = PRELUDE.replace("pub enum Error { InvalidNumber(String), UnexpectedEOF(usize), UnterminatedString(usize), ExpectedOpNotExist(String) }",
 "pub enum Error { InvalidNumber(String), UnexpectedEOF(usize), UnterminatedString(usize), ExpectedOpNotExist(String), UnexpectedToken(), ExpectBinOpToken, NoOpenDelim, NoCloseDelim }")
# (termination checking on)

GHOST += r'''
pub open spec fn tok_start(t: Token, len: int) -> int {
    match t {
        Token::EOF => len,
        Token::Operator(_, Span(a, _)) => a as int, Token::Delim(_, Span(a, _)) => a as int, Token::Number(_, Span(a, _)) => a as int,
        Token::Comma(_, Span(a, _)) => a as int, Token::Bool(_, Span(a, _)) => a as int, Token::String(_, Span(a, _)) => a as int,
        Token::Reference(_, Span(a, _)) => a as int, Token::Function(_, Span(a, _)) => a as int, Token::Semicolon(_, Span(a, _)) => a as int,
    }
}
pub open spec fn tok_end(t: Token, len: int) -> int {
    match t {
        Token::EOF => len,
        Token::Operator(_, Span(_, b)) => b as int, Token::Delim(_, Span(_, b)) => b as int, Token::Number(_, Span(_, b)) => b as int,
        Token::Comma(_, Span(_, b)) => b as int, Token::Bool(_, Span(_, b)) => b as int, Token::String(_, Span(_, b)) => b as int,
        Token::Reference(_, Span(_, b)) => b as int, Token::Function(_, Span(_, b)) => b as int, Token::Semicolon(_, Span(_, b)) => b as int,
    }
}
'''
GHOST2 = r'''
pub struct InfixOpManager {}
pub uninterp spec fn spec_bp(op: Seq<char>) -> (i32, i32);
impl InfixOpManager {
  #[verifier::external_body] pub fn new() -> Self { unimplemented!() }
  #[verifier::external_body] pub fn get_precidence(&self, op: &str) -> (r: (i32, i32)) ensures r == spec_bp(op@) { unimplemented!() }
}
impl<'a> Tokenizer<'a> {
    // the current-token register is consistent with the cursor
    pub closed spec fn synced(&self) -> bool {
        &&& self.wf()
        &&& tok_end(self.cur_token, self.len()) == self.off()
        &&& tok_start(self.cur_token, self.len()) <= self.off()
        &&& (!(self.cur_token is EOF) ==> 0 <= tok_start(self.cur_token, self.len()) < self.off())
    }
    // termination measure: bytes from the start of the current token to the end of input
    pub closed spec fn m(&self) -> int { self.len() - tok_start(self.cur_token, self.len()) }
}
impl<'a> Parser<'a> {
    pub closed spec fn wf(&self) -> bool { self.tokenizer.synced() }
    pub closed spec fn m(&self) -> int { self.tokenizer.m() }
    pub closed spec fn cur(&self) -> Token<'a> { self.tokenizer.cur_token }
}
'''
# Tokenizer::next additionally establishes `synced` and the measure facts
TOKENIZER['next']['spec'] = TOKENIZER['next']['spec'].replace("    decreases", """        r is Ok ==> final(self).synced(),
        r is Ok && old(self).synced() ==> final(self).m() <= old(self).m(),
        r is Ok && old(self).synced() && !(old(self).cur() is EOF) ==> final(self).m() < old(self).m(),
    decreases""")
TOKENIZER['expect']['spec'] = '''    requires old(self).synced(),
    ensures r is Ok ==> final(self).synced() && final(self).m() <= old(self).m(),
        r is Ok && !(old(self).cur() is EOF) ==> final(self).m() < old(self).m(),'''
TOKEN = {
 'is_eof': dict(spec="    ensures r == (self is EOF),"),
 'is_op_token': dict(spec="    ensures r == (*self is Operator),"),
 'is_semicolon': dict(spec="    ensures r == (*self is Semicolon),"),
}
PW='old(self).wf()'
def P(rank, pre='', post_strict=True):
    s="    requires "+PW+(", "+pre if pre else "")+",\n    ensures r is Ok ==> final(self).wf() && final(self).m() "+("<" if post_strict else "<=")+" old(self).m(),\n    decreases old(self).m(), %dint,"%rank
    return dict(spec=s)
PARSER = {
 'cur_tok': dict(spec="    ensures r == self.cur(),"),
 'new': dict(spec="    ensures r matches Ok(p) ==> p.wf(),"),
 'is_eof': dict(spec="    ensures r == (self.cur() is EOF),"),
 'next': dict(spec='''    requires old(self).wf(),
    ensures r is Ok ==> final(self).wf() && final(self).m() <= old(self).m(),
        r is Ok && !(old(self).cur() is EOF) ==> final(self).m() < old(self).m(),'''),
 'expect': dict(spec='''    requires old(self).wf(),
    ensures r is Ok ==> final(self).wf() && final(self).m() <= old(self).m(),
        r is Ok && !(old(self).cur() is EOF) ==> final(self).m() < old(self).m(),'''),
 'get_token_precidence': dict(spec=""),
 'parse_token': P(3),
 'parse_stmt': dict(spec="    requires old(self).wf(),", loops={0:'''        invariant self.wf(),
        decreases self.m(),'''}),
 'parse_expression': P(6),
 'parse_primary': P(4),
 'parse_op': dict(spec="    requires old(self).wf(),\n    ensures r is Ok ==> final(self).wf() && final(self).m() <= old(self).m(),\n    decreases old(self).m(), 5int,",
       loops={0:'''        invariant self.wf(), self.m() <= old(self).m(),
        decreases self.m(),'''}),
 'parse_delim': P(2, "old(self).cur() is Delim"),
 'parse_open_paren': P(1, "old(self).cur() is Delim"),
 'parse_open_bracket': dict(spec=P(1, "old(self).cur() is Delim")['spec'], loops={0:'''        invariant self.wf(), self.m() < old(self).m(),
        decreases self.m(),'''}),
 'parse_open_brace': dict(spec=P(1, "old(self).cur() is Delim")['spec'], loops={0:'''        invariant self.wf(), self.m() < old(self).m(),
        decreases self.m(),'''}),
 'parse_unary': P(1, "old(self).cur() is Operator"),
 'parse_function': dict(spec=P(1, "old(self).cur() is Function")['spec'], loops={0:'''        invariant self.wf(), self.m() < old(self).m(),
        decreases self.m(),'''}),
}
