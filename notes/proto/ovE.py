PRELUDE = r'''
#![allow(unused_imports, dead_code, unused_variables, unused_mut)]
use vstd::prelude::*;
use vstd::string::*;
use std::fmt;
use rust_decimal::prelude::*;
use rust_decimal::Decimal;
verus! {
mod m {
use super::*; use vstd::prelude::*; use vstd::string::*; use rust_decimal::Decimal;

#[verifier::external_type_specification]
#[verifier::external_body]
pub struct ExDecimal(rust_decimal::Decimal);

#[derive(Debug)]
pub enum Error { ShouldBeNumber(), ShouldBeBool(), ShouldBeList(), ShouldBeString(), InvalidInteger, InvalidFloat, NotReferenceExpr, NotRegistered }
pub type Result<T> = core::result::Result<T, Error>;
#[derive(Clone)]
pub enum InfixOpType { CALC, SETTER }

// ---------- opaque handlers (rule 7) ----------
#[verifier::external_body] pub struct Fn1 { x: u8 }
#[verifier::external_body] pub struct Fn2 { x: u8 }
#[verifier::external_body] pub struct FnN { x: u8 }
pub uninterp spec fn apply1(h: Fn1, a: SV) -> Option<SV>;
pub uninterp spec fn apply2(h: Fn2, a: SV, b: SV) -> Option<SV>;
pub uninterp spec fn applyn(h: FnN, a: Seq<SV>) -> Option<SV>;
pub open spec fn agree_v(r: Result<Value>, o: Option<SV>) -> bool {
    (r is Ok) == o.is_some() && (r matches Ok(v) ==> vv(v) == o.unwrap())
}
#[verifier::external_body] pub fn vx_call1(f: Fn1, a: Value) -> (r: Result<Value>) ensures agree_v(r, apply1(f, vv(a))) { unimplemented!() }
#[verifier::external_body] pub fn vx_call2(f: Fn2, a: Value, b: Value) -> (r: Result<Value>) ensures agree_v(r, apply2(f, vv(a), vv(b))) { unimplemented!() }
#[verifier::external_body] pub fn vx_call_fn(f: FnN, a: Vec<Value>) -> (r: Result<Value>) ensures agree_v(r, applyn(f, vv_seq(a@))) { unimplemented!() }

// ---------- trusted registry reads ----------
pub uninterp spec fn infix_ty(op: Seq<char>) -> Option<InfixOpType>;
pub uninterp spec fn infix_h(op: Seq<char>) -> Option<Fn2>;
pub uninterp spec fn prefix_h(op: Seq<char>) -> Option<Fn1>;
pub uninterp spec fn postfix_h(op: Seq<char>) -> Option<Fn1>;
pub uninterp spec fn func_h(name: Seq<char>) -> Option<FnN>;
pub broadcast axiom fn axiom_same_entry(op: Seq<char>) ensures #[trigger] infix_ty(op) is Some <==> #[trigger] infix_h(op) is Some;
pub struct InfixOpManager {}
impl InfixOpManager {
  #[verifier::external_body] pub fn new() -> Self { unimplemented!() }
  #[verifier::external_body] pub fn get_precidence(&self, op: &str) -> (i32, i32) { unimplemented!() }
  #[verifier::external_body] pub fn get_op_type(&self, op: &str) -> (r: Result<InfixOpType>)
      ensures (r is Ok) == infix_ty(op@).is_some(), r matches Ok(t) ==> t == infix_ty(op@).unwrap() { unimplemented!() }
  #[verifier::external_body] pub fn get_handler(&self, op: &str) -> (r: Result<Fn2>)
      ensures (r is Ok) == infix_h(op@).is_some(), r matches Ok(t) ==> t == infix_h(op@).unwrap() { unimplemented!() }
}
pub struct PrefixOpManager {}
impl PrefixOpManager {
  #[verifier::external_body] pub fn new() -> Self { unimplemented!() }
  #[verifier::external_body] pub fn get(&self, op: &str) -> (r: Result<Fn1>)
      ensures (r is Ok) == prefix_h(op@).is_some(), r matches Ok(t) ==> t == prefix_h(op@).unwrap() { unimplemented!() }
}
pub struct PostfixOpManager {}
impl PostfixOpManager {
  #[verifier::external_body] pub fn new() -> Self { unimplemented!() }
  #[verifier::external_body] pub fn get(&self, op: &str) -> (r: Result<Fn1>)
      ensures (r is Ok) == postfix_h(op@).is_some(), r matches Ok(t) ==> t == postfix_h(op@).unwrap() { unimplemented!() }
}
pub struct InnerFunctionManager {}
impl InnerFunctionManager {
  #[verifier::external_body] pub fn new() -> Self { unimplemented!() }
  #[verifier::external_body] pub fn get(&self, op: &str) -> (r: Result<FnN>)
      ensures (r is Ok) == func_h(op@).is_some(), r matches Ok(t) ==> t == func_h(op@).unwrap() { unimplemented!() }
}
// ---------- trusted context primitives over the view ----------
pub enum CV { Var(SV), Func(FnN) }
pub type St = Map<Seq<char>, CV>;
pub open spec fn spec_value(s: St, name: Seq<char>) -> Option<SV> {
    if !s.dom().contains(name) { Some(SV::None) } else { match s[name] { CV::Var(v) => Some(v), CV::Func(f) => applyn(f, Seq::empty()) } }
}
pub open spec fn spec_get_func(s: St, name: Seq<char>) -> Option<FnN> {
    if !s.dom().contains(name) { None } else { match s[name] { CV::Var(_) => None, CV::Func(f) => Some(f) } }
}
#[verifier::external_body] pub struct Context { x: u8 }
impl View for Context { type V = St; uninterp spec fn view(&self) -> St; }
impl Context {
  #[verifier::external_body] pub fn value(&self, name: &str) -> (r: Result<Value>) ensures agree_v(r, spec_value(self@, name@)) { unimplemented!() }
  #[verifier::external_body] pub fn get_func(&self, name: &str) -> (r: Option<FnN>) ensures r == spec_get_func(self@, name@) { unimplemented!() }
  #[verifier::external_body] pub fn set_variable(&mut self, name: &str, value: Value) ensures final(self)@ == old(self)@.insert(name@, CV::Var(vv(value))) { unimplemented!() }
}
// ---------- derived Clone of the AST types (rule 6) ----------
pub assume_specification<'a>[<ExprAST<'a> as Clone>::clone](v: &ExprAST<'a>) -> (r: ExprAST<'a>) ensures r == *v;
pub assume_specification<'a>[<Literal<'a> as Clone>::clone](v: &Literal<'a>) -> (r: Literal<'a>) ensures r == *v;

// ---------- deep value view ----------
pub enum SV { Str(Seq<char>), Num(Decimal), Bool(bool), List(Seq<SV>), Map(Seq<(SV, SV)>), None }
pub open spec fn vv(v: Value) -> SV decreases v {
    match v {
        Value::String(s) => SV::Str(s@), Value::Number(d) => SV::Num(d), Value::Bool(b) => SV::Bool(b),
        Value::List(l) => SV::List(vv_seq(l@)), Value::Map(m) => SV::Map(vv_pairs(m@)), Value::None => SV::None,
    }
}
pub open spec fn vv_seq(s: Seq<Value>) -> Seq<SV> decreases s {
    if s.len() == 0 { Seq::empty() } else { vv_seq(s.drop_last()).push(vv(s.last())) }
}
pub open spec fn vv_pairs(s: Seq<(Value, Value)>) -> Seq<(SV, SV)> decreases s {
    if s.len() == 0 { Seq::empty() } else { vv_pairs(s.drop_last()).push((vv(s.last().0), vv(s.last().1))) }
}
impl vstd::std_specs::convert::FromSpecImpl<&str> for Value { open spec fn obeys_from_spec() -> bool { false } open spec fn from_spec(v: &str) -> Self { Value::None } }
impl vstd::std_specs::convert::FromSpecImpl<String> for Value { open spec fn obeys_from_spec() -> bool { false } open spec fn from_spec(v: String) -> Self { Value::None } }
impl vstd::std_specs::convert::FromSpecImpl<bool> for Value { open spec fn obeys_from_spec() -> bool { true } open spec fn from_spec(v: bool) -> Self { Value::Bool(v) } }
impl vstd::std_specs::convert::FromSpecImpl<Vec<Value>> for Value { open spec fn obeys_from_spec() -> bool { true } open spec fn from_spec(v: Vec<Value>) -> Self { Value::List(v) } }
impl vstd::std_specs::convert::FromSpecImpl<Decimal> for Value { open spec fn obeys_from_spec() -> bool { true } open spec fn from_spec(v: Decimal) -> Self { Value::Number(v) } }
'''
VALUE = {
 'from': dict(spec="    ensures vv(r) == SV::Str(value@),", after="impl From<&str> for Value"),
}
GHOST = r'''
// ======================= big-step semantics, written from properties C03/C06/C07 =======================
pub open spec fn lit_sv(l: Literal) -> SV { match l { Literal::Number(d) => SV::Num(d), Literal::Bool(b) => SV::Bool(b), Literal::String(s) => SV::Str(s@) } }
pub open spec fn sem(a: ExprAST, s: St) -> (Option<SV>, St) decreases a {
    match a {
        ExprAST::Literal(l) => (Some(lit_sv(l)), s),
        ExprAST::Reference(x) => (spec_value(s, x@), s),
        ExprAST::Function(name, args) => {
            let (vs, s1) = sem_seq(args@, s);
            match vs { None => (None, s1), Some(l) => (match spec_get_func(s1, name@) { Some(f) => applyn(f, l),
                                                         None => match func_h(name@) { Some(f) => applyn(f, l), None => None } }, s1) }
        },
        ExprAST::Unary(op, rhs) => match prefix_h(op@) { None => (None, s), Some(h) => { let (v, s1) = sem(*rhs, s); match v { None => (None, s1), Some(v) => (apply1(h, v), s1) } } },
        ExprAST::Postfix(lhs, op) => match postfix_h(op@) { None => (None, s), Some(h) => { let (v, s1) = sem(*lhs, s); match v { None => (None, s1), Some(v) => (apply1(h, v), s1) } } },
        ExprAST::Binary(op, lhs, rhs) => match infix_ty(op@) {
            None => (None, s),
            Some(ty) => {
                let (a, s1) = sem(*lhs, s);
                match a { None => (None, s1), Some(a) => {
                    let (b, s2) = sem(*rhs, s1);
                    match b { None => (None, s2), Some(b) => match ty {
                        InfixOpType::CALC => (apply2(infix_h(op@).unwrap(), a, b), s2),
                        InfixOpType::SETTER => match *lhs {
                            ExprAST::Reference(x) => match apply2(infix_h(op@).unwrap(), a, b) { Some(v) => (Some(SV::None), s2.insert(x@, CV::Var(v))), None => (None, s2) },
                            _ => (None, s2) },
                    } } } }
            } },
        ExprAST::Ternary(c, t, e) => { let (vc, s1) = sem(*c, s); match vc { Some(SV::Bool(b)) => if b { sem(*t, s1) } else { sem(*e, s1) }, _ => (None, s1) } },
        ExprAST::List(items) => { let (vs, s1) = sem_seq(items@, s); match vs { Some(l) => (Some(SV::List(l)), s1), None => (None, s1) } },
        ExprAST::Stmt(items) => { let (vs, s1) = sem_seq(items@, s); match vs { Some(l) => (Some(if l.len() == 0 { SV::None } else { l.last() }), s1), None => (None, s1) } },
        ExprAST::Map(m) => { let (vs, s1) = sem_pairs(m@, s); match vs { Some(l) => (Some(SV::Map(l)), s1), None => (None, s1) } },
        ExprAST::None => (Some(SV::None), s),
    }
}
pub open spec fn sem_seq(items: Seq<ExprAST>, s: St) -> (Option<Seq<SV>>, St) decreases items {
    if items.len() == 0 { (Some(Seq::empty()), s) } else {
        let (pv, s1) = sem_seq(items.drop_last(), s);
        match pv { None => (None, s1), Some(p) => { let (v, s2) = sem(items.last(), s1); match v { None => (None, s2), Some(v) => (Some(p.push(v)), s2) } } }
    }
}
pub open spec fn sem_pairs(items: Seq<(ExprAST, ExprAST)>, s: St) -> (Option<Seq<(SV, SV)>>, St) decreases items {
    if items.len() == 0 { (Some(Seq::empty()), s) } else {
        let (pv, s1) = sem_pairs(items.drop_last(), s);
        match pv { None => (None, s1), Some(p) => {
            let (k, s2) = sem(items.last().0, s1);
            match k { None => (None, s2), Some(k) => { let (v, s3) = sem(items.last().1, s2); match v { None => (None, s3), Some(v) => (Some(p.push((k, v))), s3) } } } } }
    }
}
pub open spec fn agrees(r: Result<Value>, fin: St, spec: (Option<SV>, St)) -> bool { fin == spec.1 && agree_v(r, spec.0) }

pub open spec fn vec_cloned<'a>(a: Vec<ExprAST<'a>>, b: Vec<ExprAST<'a>>) -> bool {
    a.len() == b.len() && forall|i: int| 0 <= i < a.len() ==> cloned(#[trigger] a[i], b[i])
}
pub proof fn lemma_vec_cloned_eq<'a>(a: Vec<ExprAST<'a>>, b: Vec<ExprAST<'a>>) requires vec_cloned(a, b) ensures a@ =~= b@
{ assert forall|i: int| 0 <= i < a.len() implies a@[i] == b@[i] by { assert(cloned(a[i], b[i])); } }
// one more element: prefix k -> prefix k+1 (both outcomes), and an error in a prefix is the outcome of the whole sequence
pub proof fn lemma_seq_step(items: Seq<ExprAST>, k: int, s: St)
    requires 0 <= k < items.len(),
    ensures ({
        let (pv, ps) = sem_seq(items.take(k), s);
        let (v, s1) = sem(items[k], ps);
        &&& (pv is Some ==> sem_seq(items.take(k + 1), s) == (match v { Some(v) => Some(pv.unwrap().push(v)), None => None::<Seq<SV>> }, s1))
        &&& (pv is Some && v is None ==> sem_seq(items, s) == (None::<Seq<SV>>, s1))
    }),
{
    assert(items.take(k + 1).drop_last() =~= items.take(k));
    assert(items.take(k + 1).last() == items[k]);
    if sem_seq(items.take(k), s).0 is Some && sem(items[k], sem_seq(items.take(k), s).1).0 is None { lemma_err_prefix(items, k + 1, s); }
}
pub proof fn lemma_err_prefix(items: Seq<ExprAST>, k: int, s: St)
    requires 0 <= k <= items.len(), sem_seq(items.take(k), s).0 is None,
    ensures sem_seq(items, s) == sem_seq(items.take(k), s),
    decreases items.len() - k
{
    if k < items.len() {
        assert(items.take(k + 1).drop_last() =~= items.take(k));
        lemma_err_prefix(items, k + 1, s);
    } else { assert(items.take(k) =~= items); }
}
pub proof fn lemma_vv_seq_push(s: Seq<Value>, v: Value) ensures vv_seq(s.push(v)) == vv_seq(s).push(vv(v))
{ assert(s.push(v).drop_last() =~= s); }
'''
AG = "        ensures agrees(r, final(ctx)@, sem(*self, old(ctx)@)),"
EXEC = {
 'exec': dict(spec=AG+"\n        decreases self, 1int,"),
 'exec_literal': dict(spec="        requires *self == ExprAST::Literal(literal),\n        ensures r matches Ok(v) && vv(v) == lit_sv(literal),"),
 'exec_reference': dict(spec="        requires *self == ExprAST::Reference(name),\n        ensures agrees(r, ctx@, sem(*self, ctx@)),"),
 'exec_ternary': dict(spec="        requires *self == ExprAST::Ternary(Box::new(*condition), Box::new(*lhs), Box::new(*rhs)),\n"+AG+"\n        decreases self, 0int,"),
 'exec_list': dict(spec="        requires self matches ExprAST::List(items) && vec_cloned(*items, params),\n"+AG+"\n        decreases self, 0int,",
    rewrite=[("        for expr in params {\n            ans.push(expr.exec(ctx)?);","""        let ghost items = match self { ExprAST::List(items) => *items, _ => arbitrary() };
        proof { lemma_vec_cloned_eq(items, params); }
        for expr in it: params
            invariant *self == ExprAST::List(items), items@ == params@,
                sem_seq(params@.take(it.index@ as int), old(ctx)@) == (Some(vv_seq(ans@)), ctx@),
        {
            proof {
                let k = it.index@ as int;
                lemma_seq_step(params@, k, old(ctx)@);
                assert forall|v: Value| vv_seq(ans@.push(v)) == vv_seq(ans@).push(vv(v)) by { lemma_vv_seq_push(ans@, v); }
                match self { ExprAST::List(it2) => { vstd::std_specs::vec::axiom_vec_index_decreases(*it2, k); assert(expr == it2@[k]); }, _ => {} }
            }
            ans.push(expr.exec(ctx)?);"""),
      ("        Ok(Value::List(ans))","        proof { assert(params@.take(params@.len() as int) =~= params@); }\n        Ok(Value::List(ans))")]),
}
# staging for the probe: functions not yet under contract get `assume(false)` bodies via external_body-like stubs
for fn_ in ['exec_function','redirect_inner_function','exec_unary','exec_binary','exec_postfix','exec_chain','exec_map']:
    EXEC[fn_] = dict(spec="        requires false,\n"+AG+"\n        decreases self, 0int,")
EXEC['get_precidence']=dict(spec="")
EXEC['get_reference_name']=dict(spec="        ensures self matches ExprAST::Reference(n) ==> r == Ok::<&str, Error>(n), !(self is Reference) ==> r is Err,")
EXEC['redirect_inner_function'] = dict(spec="        ensures agree_v(r, match func_h(name@) { Some(f) => applyn(f, vv_seq(params@)), None => None }),")

LOOPPROOF = """            proof {
                let k = it.index@ as int;
                lemma_seq_step(%(v)s@, k, old(ctx)@);
                %(extra)s
                match self { %(pat)s => { vstd::std_specs::vec::axiom_vec_index_decreases(*it2, k); assert(expr == it2@[k]); }, _ => {} }
            }"""
EXEC['exec_unary'] = dict(spec="        requires *self == ExprAST::Unary(op, Box::new(*rhs)),\n"+AG+"\n        decreases self, 0int,")
EXEC['exec_postfix'] = dict(spec="        requires self matches ExprAST::Postfix(l, o) && **l == *lhs && o@ == op@,\n"+AG+"\n        decreases self, 0int,")
EXEC['exec_binary'] = dict(spec="        requires *self == ExprAST::Binary(op, Box::new(*lhs), Box::new(*rhs)),\n"+AG+"\n        decreases self, 0int,",
    proof=[("match InfixOpManager::new().get_op_type(&op)? {", "        proof { broadcast use axiom_same_entry; }", 'before')])
EXEC['exec_chain'] = dict(spec="        requires self matches ExprAST::Stmt(items) && vec_cloned(*items, params),\n"+AG+"\n        decreases self, 0int,",
    rewrite=[("        for expr in params {\n            ans = expr.exec(ctx)?;\n        }","""        let ghost items = match self { ExprAST::Stmt(items) => *items, _ => arbitrary() };
        let ghost mut vs = Seq::<SV>::empty();
        proof { lemma_vec_cloned_eq(items, params); }
        for expr in it: params
            invariant *self == ExprAST::Stmt(items), items@ == params@,
                sem_seq(params@.take(it.index@ as int), old(ctx)@) == (Some(vs), ctx@),
                vv(ans) == (if vs.len() == 0 { SV::None } else { vs.last() }),
        {
"""+(LOOPPROOF % dict(v="params", extra="", pat="ExprAST::Stmt(it2)"))+"""
            ans = expr.exec(ctx)?;
            proof { vs = vs.push(vv(ans)); }
        }
        proof { assert(params@.take(params@.len() as int) =~= params@); }""")])
EXEC['exec_function'] = dict(spec="        requires self matches ExprAST::Function(n, args) && n == name && vec_cloned(*args, exprs),\n"+AG+"\n        decreases self, 0int,",
    rewrite=[("        for expr in exprs.into_iter() {\n            params.push(expr.exec(ctx)?)\n        }","""        let ghost items = match self { ExprAST::Function(_, args) => *args, _ => arbitrary() };
        proof { lemma_vec_cloned_eq(items, exprs); }
        for expr in it: exprs
            invariant self matches ExprAST::Function(n2, a2) && n2 == name && *a2 == items, items@ == exprs@,
                sem_seq(exprs@.take(it.index@ as int), old(ctx)@) == (Some(vv_seq(params@)), ctx@),
        {
"""+(LOOPPROOF % dict(v="exprs", extra="assert forall|v: Value| vv_seq(params@.push(v)) == vv_seq(params@).push(vv(v)) by { lemma_vv_seq_push(params@, v); }", pat="ExprAST::Function(_, it2)"))+"""
            params.push(expr.exec(ctx)?)
        }
        proof { assert(exprs@.take(exprs@.len() as int) =~= exprs@); }""")])
EXEC['exec_unary']['proof']=[("vx_call1(", "        proof { match self { ExprAST::Unary(_, b) => { assert(**b == *rhs); assert(decreases_to!(self => b)); }, _ => {} } }", 'before')]
EXEC['exec_binary']['proof']=[("match InfixOpManager::new().get_op_type(&op)? {", "        proof { broadcast use axiom_same_entry; match self { ExprAST::Binary(_, b1, b2) => { assert(**b1 == *lhs && **b2 == *rhs); assert(decreases_to!(self => b1)); assert(decreases_to!(self => b2)); }, _ => {} } }", 'before')]

# ---- exec_map: pairs, key before value
GHOST += r'''
pub open spec fn pairs_cloned<'a>(a: Vec<(ExprAST<'a>, ExprAST<'a>)>, b: Vec<(ExprAST<'a>, ExprAST<'a>)>) -> bool {
    a.len() == b.len() && forall|i: int| 0 <= i < a.len() ==> cloned(#[trigger] a[i], b[i])
}
// trusted (rule 6): the built-in Clone of a pair of ASTs is structural
pub broadcast axiom fn axiom_pair_clone<'a>(a: (ExprAST<'a>, ExprAST<'a>), b: (ExprAST<'a>, ExprAST<'a>)) ensures #[trigger] cloned(a, b) ==> a == b;
pub proof fn lemma_pairs_step(items: Seq<(ExprAST, ExprAST)>, k: int, s: St)
    requires 0 <= k < items.len(),
    ensures ({
        let (pv, ps) = sem_pairs(items.take(k), s);
        let (kv, s1) = sem(items[k].0, ps);
        let (vl, s2) = sem(items[k].1, s1);
        &&& (pv is Some && kv is Some ==> sem_pairs(items.take(k + 1), s) == (match vl { Some(v) => Some(pv.unwrap().push((kv.unwrap(), v))), None => None::<Seq<(SV, SV)>> }, s2))
        &&& (pv is Some && kv is None ==> sem_pairs(items, s) == (None::<Seq<(SV, SV)>>, s1))
        &&& (pv is Some && kv is Some && vl is None ==> sem_pairs(items, s) == (None::<Seq<(SV, SV)>>, s2))
    }),
{
    assert(items.take(k + 1).drop_last() =~= items.take(k));
    assert(items.take(k + 1).last() == items[k]);
    let (pv, ps) = sem_pairs(items.take(k), s);
    if pv is Some {
        let (kv, s1) = sem(items[k].0, ps);
        if kv is None || sem(items[k].1, s1).0 is None { lemma_pairs_err_prefix(items, k + 1, s); }
    }
}
pub proof fn lemma_pairs_err_prefix(items: Seq<(ExprAST, ExprAST)>, k: int, s: St)
    requires 0 <= k <= items.len(), sem_pairs(items.take(k), s).0 is None,
    ensures sem_pairs(items, s) == sem_pairs(items.take(k), s),
    decreases items.len() - k
{
    if k < items.len() { assert(items.take(k + 1).drop_last() =~= items.take(k)); lemma_pairs_err_prefix(items, k + 1, s); }
    else { assert(items.take(k) =~= items); }
}
pub proof fn lemma_vv_pairs_push(s: Seq<(Value, Value)>, v: (Value, Value)) ensures vv_pairs(s.push(v)) == vv_pairs(s).push((vv(v.0), vv(v.1)))
{ assert(s.push(v).drop_last() =~= s); }
'''
EXEC['exec_map'] = dict(spec="        requires self matches ExprAST::Map(items) && pairs_cloned(*items, m),\n"+AG+"\n        decreases self, 0int,",
    rewrite=[("        for (k, v) in m {\n            ans.push((k.exec(ctx)?, v.exec(ctx)?));\n        }","""        let ghost items = match self { ExprAST::Map(items) => *items, _ => arbitrary() };
        proof { assert forall|i: int| 0 <= i < items.len() implies items@[i] == m@[i] by { broadcast use axiom_pair_clone; assert(cloned(items[i], m[i])); } assert(items@ =~= m@); }
        for kv in it: m
            invariant *self == ExprAST::Map(items), items@ == m@,
                sem_pairs(m@.take(it.index@ as int), old(ctx)@) == (Some(vv_pairs(ans@)), ctx@),
        {
            proof {
                let i = it.index@ as int;
                lemma_pairs_step(m@, i, old(ctx)@);
                assert forall|p: (Value, Value)| vv_pairs(ans@.push(p)) == vv_pairs(ans@).push((vv(p.0), vv(p.1))) by { lemma_vv_pairs_push(ans@, p); }
                match self { ExprAST::Map(it2) => { vstd::std_specs::vec::axiom_vec_index_decreases(*it2, i); assert(kv == it2@[i]); }, _ => {} }
            }
            let (k, v) = kv;
            ans.push((k.exec(ctx)?, v.exec(ctx)?));
        }
        proof { assert(m@.take(m@.len() as int) =~= m@); }""")])
