PRELUDE = r'''
#![allow(unused_imports, dead_code, unused_variables, unused_mut)]
use vstd::prelude::*;
use vstd::string::*;
use std::fmt;
use rust_decimal::prelude::*;
use rust_decimal::Decimal;
verus! {
mod m {
use super::*; use vstd::prelude::*; use vstd::string::*; use rust_decimal::Decimal;
#[verifier::external_type_specification]
#[verifier::external_body]
pub struct ExDecimal(rust_decimal::Decimal);
pub uninterp spec fn dec_text(d: Decimal) -> Seq<char>;
pub broadcast axiom fn axiom_decimal_to_string(d: Decimal, r: String) ensures #[trigger] to_string_from_display_ensures(&d, r) ==> r@ == dec_text(d);
#[verifier::external_body] pub fn vx_add(a: String, b: &str) -> (r: String) ensures r@ == a@ + b@ { a + b }
pub uninterp spec fn has_char(s: Seq<char>, c: char) -> bool;
#[verifier::external_body] pub fn vx_contains_char(s: &str, c: char) -> (r: bool) ensures r == has_char(s@, c) { s.contains(c) }
pub uninterp spec fn lbp(op: Seq<char>) -> int;
pub uninterp spec fn rbp(op: Seq<char>) -> int;
pub struct InfixOpManager {}
impl InfixOpManager {
  #[verifier::external_body] pub fn new() -> Self { unimplemented!() }
  #[verifier::external_body] pub fn get_precidence(&self, op: &str) -> (r: (i32, i32)) ensures r.0 == lbp(op@), r.1 == rbp(op@) { unimplemented!() }
}
pub assume_specification<'a>[<ExprAST<'a> as Clone>::clone](v: &ExprAST<'a>) -> (r: ExprAST<'a>) ensures r == *v;
pub assume_specification<'a>[<Literal<'a> as Clone>::clone](v: &Literal<'a>) -> (r: Literal<'a>) ensures r == *v;
'''
GHOST = r'''
// ======================= what the printer must produce (property C12, written from the grammar) =======================
pub open spec fn paren(s: Seq<char>) -> Seq<char> { "("@ + s + ")"@ }
pub open spec fn is_bin(t: ExprAST) -> bool { t is Binary }
pub open spec fn bin_l(t: ExprAST) -> int { match t { ExprAST::Binary(op, _, _) => lbp(op@), _ => -1 } }
pub open spec fn bin_r(t: ExprAST) -> int { match t { ExprAST::Binary(op, _, _) => rbp(op@), _ => -1 } }
// kinds not modelled in this probe render to an uninterpreted text
pub uninterp spec fn other_text(t: ExprAST) -> Seq<char>;
pub open spec fn render(t: ExprAST) -> Seq<char> decreases t, 0int {
    match t {
        ExprAST::Reference(n) => n@,
        ExprAST::Unary(op, rhs) => if *rhs is Binary || *rhs is Ternary { op@ + " ("@ + render(*rhs) + ")"@ } else { op@ + " "@ + render(*rhs) },
        ExprAST::Postfix(lhs, op) => render_operand(*lhs) + " "@ + op@,
        ExprAST::Binary(op, lhs, rhs) => {
            let l = if (*lhs is Binary && bin_r(*lhs) < lbp(op@)) || *lhs is Ternary { paren(render(*lhs)) } else { render(*lhs) };
            let r = if (*rhs is Binary && !(rbp(op@) < bin_l(*rhs))) || *rhs is Ternary { paren(render(*rhs)) } else { render(*rhs) };
            l + " "@ + op@ + " "@ + r
        },
        ExprAST::Ternary(c, a, b) => (if *c is Ternary { paren(render(*c)) } else { render(*c) }) + " ? "@ + render(*a) + " : "@ + render(*b),
        ExprAST::None => ""@,
        _ => other_text(t),     // literals, calls, lists, maps, statements: separate clauses (not in this probe)
    }
}
pub open spec fn render_operand(t: ExprAST) -> Seq<char> decreases t, 1int {
    if t is Binary || t is Ternary || t is Unary || t is Postfix { paren(render(t)) } else { render(t) }
}
'''
P = "        ensures r@ == "
PRINTER = {
 'get_precidence': dict(spec="        ensures r.0 == (*self is Binary), *self is Binary ==> r.1.0 == bin_l(*self) && r.1.1 == bin_r(*self),"),
 'is_ternary': dict(spec="        ensures r == (*self is Ternary),"),
 'is_prefix_operand': dict(spec="        ensures r == !(*self is Binary || *self is Ternary),"),
 'expr': dict(spec="        ensures r@ == render(*self),\n        decreases self, 2int,"),
 'reference_expr': dict(spec=P+"val@,"),
 'unary_expr': dict(spec="        requires *self == ExprAST::Unary(op, Box::new(*rhs)),\n"+P+"render(*self),\n        decreases self, 1int,"),
 'operand_expr': dict(spec=P+"render_operand(*self),\n        decreases self, 3int,"),
 'binary_expr': dict(spec="        requires *self == ExprAST::Binary(op, Box::new(*lhs), Box::new(*rhs)),\n"+P+"render(*self),\n        decreases self, 1int,"),
 'postfix_expr': dict(spec="        requires self matches ExprAST::Postfix(l, o) && **l == *lhs && o@ == op@,\n"+P+"render(*self),\n        decreases self, 1int,"),
 'ternary_expr': dict(spec="        requires *self == ExprAST::Ternary(Box::new(*condition), Box::new(*lhs), Box::new(*rhs)),\n"+P+"render(*self),\n        decreases self, 1int,"),
}
STUB = "        ensures r@ == other_text(*self),\n        decreases self, 0int,"
for fn_ in ['function_expr','list_expr','chain_expr']:
    PRINTER[fn_]=dict(spec=STUB, attr="    #[verifier::external_body]")
PRINTER['map_expr'] = dict(spec=STUB, attr="    #[verifier::external_body]", rewrite=[("let (key, value) = m[i].clone();","let key = m[i].0.clone(); let value = m[i].1.clone();")])
PRINTER['literal_expr'] = dict(spec=STUB, attr="    #[verifier::external_body]", rewrite=[("value.contains('\"')","vx_contains_char(value, '\"')")])
H = "        proof { match self { %s => { %s }, _ => {} } }"
PRINTER['unary_expr']['proof']=[("if rhs.is_prefix_operand() {", H % ("ExprAST::Unary(_, b)", "assert(**b == *rhs); assert(decreases_to!(self => b));"), 'before')]
PRINTER['binary_expr']['proof']=[("let (l_bp, r_bp) =", H % ("ExprAST::Binary(_, b1, b2)", "assert(**b1 == *lhs && **b2 == *rhs); assert(decreases_to!(self => b1)); assert(decreases_to!(self => b2));"), 'before')]
PRINTER['postfix_expr']['proof']=[("vx_add(", H % ("ExprAST::Postfix(b, _)", "assert(**b == *lhs); assert(decreases_to!(self => b));"), 'before')]
PRINTER['ternary_expr']['proof']=[("let cond =", H % ("ExprAST::Ternary(b1, b2, b3)", "assert(**b1 == *condition && **b2 == *lhs && **b3 == *rhs); assert(decreases_to!(self => b1)); assert(decreases_to!(self => b2)); assert(decreases_to!(self => b3));"), 'before')]
