#!/usr/bin/env python3
"""Scratch prototype of normalisation rule 8: lift the closures registered in *Manager::init into named functions + a table."""
import re,sys,os
exec(open('/tmp/vx/proto/gen.py').read().replace("\nmain()\n","\n"))
def split_args(s):
    out=[];d=0;cur='';i=0
    while i<len(s):
        c=s[i]
        if c=='"':
            j=i+1
            while s[j]!='"':
                if s[j]=='\\': j+=1
                j+=1
            cur+=s[i:j+1]; i=j+1; continue
        if c in '([{': d+=1
        if c in ')]}': d-=1
        if c==',' and d==0: out.append(cur.strip()); cur=''
        else: cur+=c
        i+=1
    if cur.strip(): out.append(cur.strip())
    return out
def lift(src, mgr, impl_hdr, kinds):
    """kinds: dict with param types for closure and arity"""
    s0,pc,bo,bc=fn_span(src,'init',impl_hdr)
    body=src[bo+1:bc]
    fns=[];table=[];n=0
    # iterate over register calls in order
    for m in re.finditer(r'self\.register\(',body):
        a=m.end()-1; b=find_matching(body,a,'(',')')
        args=split_args(body[a+1:b])
        clo=args[-1]; assert clo.startswith('Arc::new('),clo[:30]
        inner=clo[len('Arc::new('):-1].strip()
        mv=inner.startswith('move'); 
        if mv: inner=inner[4:].strip()
        assert inner[0]=='|'
        pe=inner.index('|',1); params=[p.strip() for p in inner[1:pe].split(',')]
        cbody=inner[pe+1:].strip()
        if not cbody.startswith('{'): cbody='{\n        '+cbody+'\n    }'
        # enclosing for loop?
        pre=body[:m.start()]
        loop=None
        fm=list(re.finditer(r'for (\([^)]*\)|\w+) in vec!\[',pre))
        if fm:
            f=fm[-1]; lb=pre.index('{',f.end()+0 if False else find_matching(pre+' ]',f.end()-1,'[',']'))
            # is the register call inside this loop's braces?
            try:
                le=find_matching(body,lb)
                if lb<m.start()<le:
                    items=body[f.end():find_matching(body,f.end()-1,'[',']')]
                    loop=(f.group(1),split_args(items))
            except Exception: pass
        ptypes=kinds['ptypes']
        names=[p if p!='_' else '_unused%d'%i for i,p in enumerate(params)]
        sig=', '.join('%s: %s'%(nm,t) for nm,t in zip(names,ptypes))
        fname='%s_handler_%d'%(mgr,n)
        fns.append('pub fn %s(op: &str, %s) -> Result<Value> %s\n'%(fname,sig,cbody))
        table.append(dict(handler=fname,args=args[:-1],loop=loop))
        n+=1
    return fns,table
if __name__=='__main__':
    REPO=os.environ.get('VX_SRC','/repo/src/')
    op=strip_tests_uses(open(REPO+'operator.rs').read())
    fn=strip_tests_uses(open(REPO+'function.rs').read())
    out=[];tabs={}
    for mgr,hdr,k,src in [('infix','impl InfixOpManager',dict(ptypes=['Value','Value']),op),('prefix','impl PrefixOpManager',dict(ptypes=['Value']),op),
                      ('postfix','impl PostfixOpManager',dict(ptypes=['Value']),op),('func','impl InnerFunctionManager',dict(ptypes=['Vec<Value>']),fn)]:
        f,t=lift(src,mgr,hdr,k); out+=f; tabs[mgr]=t
    open(sys.argv[1],'w').write('\n'.join(out))
    import json; json.dump(tabs,open(sys.argv[1]+'.table.json','w'),indent=1)
    for mgr,t in tabs.items():
        for e in t: print(mgr,e['handler'],e['args'][:4],e['loop'])
