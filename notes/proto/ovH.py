PRELUDE = r'''
#![allow(unused_imports, dead_code, unused_variables, unused_mut)]
use vstd::prelude::*;
use vstd::string::*;
use std::fmt;
use rust_decimal::prelude::*;
use rust_decimal::Decimal;
verus! {
mod m {
use super::*; use vstd::prelude::*; use vstd::string::*; use rust_decimal::Decimal;
#[verifier::external_type_specification]
#[verifier::external_body]
pub struct ExDecimal(rust_decimal::Decimal);
#[derive(Debug)]
pub enum Error { ShouldBeNumber(), ShouldBeBool(), ShouldBeList(), ShouldBeString(), InvalidInteger, InvalidFloat, ParamInvalid() }
pub type Result<T> = core::result::Result<T, Error>;

// ---------- dependency model (A3): checked arithmetic, ordering, equality of rust_decimal ----------
pub uninterp spec fn dec_add(a: Decimal, b: Decimal) -> Option<Decimal>;
pub uninterp spec fn dec_sub(a: Decimal, b: Decimal) -> Option<Decimal>;
pub uninterp spec fn dec_mul(a: Decimal, b: Decimal) -> Option<Decimal>;
pub uninterp spec fn dec_div(a: Decimal, b: Decimal) -> Option<Decimal>;
pub uninterp spec fn dec_rem(a: Decimal, b: Decimal) -> Option<Decimal>;
pub uninterp spec fn dec_cmp(a: Decimal, b: Decimal) -> Option<core::cmp::Ordering>;
pub open spec fn dec_lt(a: Decimal, b: Decimal) -> bool { dec_cmp(a, b) == Some(core::cmp::Ordering::Less) }
pub open spec fn dec_le(a: Decimal, b: Decimal) -> bool { dec_cmp(a, b) == Some(core::cmp::Ordering::Less) || dec_cmp(a, b) == Some(core::cmp::Ordering::Equal) }
pub open spec fn dec_gt(a: Decimal, b: Decimal) -> bool { dec_cmp(a, b) == Some(core::cmp::Ordering::Greater) }
pub open spec fn dec_ge(a: Decimal, b: Decimal) -> bool { dec_cmp(a, b) == Some(core::cmp::Ordering::Greater) || dec_cmp(a, b) == Some(core::cmp::Ordering::Equal) }
pub assume_specification[<Decimal as PartialOrd>::partial_cmp](a: &Decimal, b: &Decimal) -> (r: Option<core::cmp::Ordering>) ensures r == dec_cmp(*a, *b);
pub uninterp spec fn dec_eq(a: Decimal, b: Decimal) -> bool;
pub assume_specification[Decimal::checked_add](a: Decimal, b: Decimal) -> (r: Option<Decimal>) ensures r == dec_add(a, b);
pub assume_specification[Decimal::checked_sub](a: Decimal, b: Decimal) -> (r: Option<Decimal>) ensures r == dec_sub(a, b);
pub assume_specification[Decimal::checked_mul](a: Decimal, b: Decimal) -> (r: Option<Decimal>) ensures r == dec_mul(a, b);
pub assume_specification[Decimal::checked_div](a: Decimal, b: Decimal) -> (r: Option<Decimal>) ensures r == dec_div(a, b);
pub assume_specification[Decimal::checked_rem](a: Decimal, b: Decimal) -> (r: Option<Decimal>) ensures r == dec_rem(a, b);

// ---------- deep value view ----------
pub enum SV { Str(Seq<char>), Num(Decimal), Bool(bool), List(Seq<SV>), Map(Seq<(SV, SV)>), None }
pub open spec fn vv(v: Value) -> SV decreases v {
    match v {
        Value::String(s) => SV::Str(s@), Value::Number(d) => SV::Num(d), Value::Bool(b) => SV::Bool(b),
        Value::List(l) => SV::List(vv_seq(l@)), Value::Map(m) => SV::Map(vv_pairs(m@)), Value::None => SV::None,
    }
}
pub open spec fn vv_seq(s: Seq<Value>) -> Seq<SV> decreases s { if s.len() == 0 { Seq::empty() } else { vv_seq(s.drop_last()).push(vv(s.last())) } }
pub open spec fn vv_pairs(s: Seq<(Value, Value)>) -> Seq<(SV, SV)> decreases s { if s.len() == 0 { Seq::empty() } else { vv_pairs(s.drop_last()).push((vv(s.last().0), vv(s.last().1))) } }
pub open spec fn agree_v(r: Result<Value>, o: Option<SV>) -> bool { (r is Ok) == o.is_some() && (r matches Ok(v) ==> vv(v) == o.unwrap()) }
impl vstd::std_specs::convert::FromSpecImpl<&str> for Value { open spec fn obeys_from_spec() -> bool { false } open spec fn from_spec(v: &str) -> Self { Value::None } }
impl vstd::std_specs::convert::FromSpecImpl<String> for Value { open spec fn obeys_from_spec() -> bool { false } open spec fn from_spec(v: String) -> Self { Value::None } }
impl vstd::std_specs::convert::FromSpecImpl<bool> for Value { open spec fn obeys_from_spec() -> bool { true } open spec fn from_spec(v: bool) -> Self { Value::Bool(v) } }
impl vstd::std_specs::convert::FromSpecImpl<Vec<Value>> for Value { open spec fn obeys_from_spec() -> bool { true } open spec fn from_spec(v: Vec<Value>) -> Self { Value::List(v) } }
impl vstd::std_specs::convert::FromSpecImpl<Decimal> for Value { open spec fn obeys_from_spec() -> bool { true } open spec fn from_spec(v: Decimal) -> Self { Value::Number(v) } }
'''
VALUE = {
 'decimal': dict(spec="        ensures self matches Value::Number(d) ==> r == Ok::<Decimal, Error>(d), !(self is Number) ==> r is Err,"),
 'bool': dict(spec="        ensures self matches Value::Bool(b) ==> r == Ok::<bool, Error>(b), !(self is Bool) ==> r is Err,"),
}
GHOST = r'''
// ======================= documented meaning of the built-in operators (README / property C03) =======================
// (string-literal `match` arms are value equality on &str in Verus, so the specs are keyed by the &str value)
pub open spec fn spec_arith(op: &str, a: Decimal, b: Decimal) -> Option<Decimal> {
    if op == "+" || op == "+=" { dec_add(a, b) } else if op == "-" || op == "-=" { dec_sub(a, b) }
    else if op == "*" || op == "*=" { dec_mul(a, b) } else if op == "/" || op == "/=" { dec_div(a, b) }
    else if op == "%" || op == "%=" { dec_rem(a, b) } else { None }
}
pub open spec fn spec_cmp(op: &str, a: Decimal, b: Decimal) -> bool {
    if op == "<" { dec_lt(a, b) } else if op == "<=" { dec_le(a, b) } else if op == ">" { dec_gt(a, b) } else { dec_ge(a, b) }
}
pub open spec fn is_arith(op: &str) -> bool { op == "+" || op == "-" || op == "*" || op == "/" || op == "%" }
pub open spec fn is_cmp(op: &str) -> bool { op == "<" || op == "<=" || op == ">" || op == ">=" }
'''
HANDLERS = {
 # + - * / %   (infix_handler_7): numbers only; exact checked result or Err; never a panic
 'infix_handler_7': dict(spec='''    requires is_arith(op),
    ensures match (vv(left), vv(right)) {
        (SV::Num(a), SV::Num(b)) => agree_v(r, match spec_arith(op, a, b) { Some(d) => Some(SV::Num(d)), None => None }),
        _ => r is Err },'''),
 # < <= > >=   (infix_handler_4)
 'infix_handler_4': dict(spec='''    requires is_cmp(op),
    ensures match (vv(left), vv(right)) {
        (SV::Num(a), SV::Num(b)) => agree_v(r, Some(SV::Bool(spec_cmp(op, a, b)))),
        _ => r is Err },'''),
 # || &&  (infix_handler_3)
 'infix_handler_3': dict(spec='''    requires op == "||" || op == "&&",
    ensures match (vv(left), vv(right)) {
        (SV::Bool(a), SV::Bool(b)) => agree_v(r, Some(SV::Bool(if op == "||" { a || b } else { a && b }))),
        _ => r is Err },'''),
 # =  (infix_handler_0)
 'infix_handler_0': dict(spec='''    ensures agree_v(r, Some(vv(right))),'''),
 # min (func_handler_0): Err on empty list or non-number
 'func_handler_0': dict(spec='''    ensures params@.len() == 0 ==> r is Err,'''),
}
KEEP = list(HANDLERS.keys())
