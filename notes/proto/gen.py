#!/usr/bin/env python3
"""Scratch prototype generator: extract real source, normalise, splice contracts. (probe, not framework)"""
import re, sys, json
import os
REPO=os.environ.get('VX_SRC','/repo/src/')
def strip_tests_uses(src):
    src=src.split('#[cfg(test)]\nmod')[0]
    return '\n'.join(l for l in src.split('\n') if not re.match(r'^use ',l))
def drop_display(src):
    return re.sub(r"#\[cfg\(not\(tarpaulin_include\)\)\]\nimpl(<'\w+>)? fmt::Display for [^{]+\{.*?\n\}\n",'',src,flags=re.S)
def find_matching(s,i,open_='{',close='}'):
    """s[i]==open_; return index of matching close, skipping strings/chars/comments."""
    depth=0;n=len(s);k=i
    while k<n:
        c=s[k]
        if c=='"':
            k+=1
            while s[k]!='"':
                if s[k]=='\\': k+=1
                k+=1
        elif c=="'":
            # char literal or lifetime
            m=re.match(r"'(\\.|[^\\'])'",s[k:])
            if m: k+=m.end()-1
        elif s.startswith('//',k):
            k=s.index('\n',k)
        elif c==open_: depth+=1
        elif c==close:
            depth-=1
            if depth==0: return k
        k+=1
    raise Exception('unbalanced')
def fn_span(src,name,impl_hint=None):
    """return (sig_start, body_open, body_close) of `fn name` (first occurrence after impl_hint)."""
    base=0
    if impl_hint: base=src.index(impl_hint)
    m=re.compile(r'\bfn '+re.escape(name)+r'\b').search(src,base)
    if not m: raise Exception('fn not found '+name)
    # find body open: first '{' after params close paren at depth 0
    p=src.index('(',m.end()); pc=find_matching(src,p,'(',')')
    bo=src.index('{',pc)
    bc=find_matching(src,bo)
    return m.start(),pc,bo,bc
def splice(src,contracts):
    for key,c in contracts.items():
        hint=None;name=c.get('name',key)
        s0,pc,bo,bc=fn_span(src,name,c.get('after'))
        body=src[bo:bc+1]
        # loops
        loops=c.get('loops',{})
        if loops:
            idx=[m.start() for m in re.finditer(r'\bloop \{',body)]
            for ordn in sorted(loops,reverse=True):
                i=idx[int(ordn)]
                body=body[:i]+'loop\n'+loops[ordn]+'\n{'+body[i+len('loop {'):]
        for ent in c.get('proof',[]):
            anchor,text,where=ent[0],ent[1],ent[2]; occ=ent[3] if len(ent)>3 else 0
            i=-1
            for _ in range(occ+1): i=body.index(anchor,i+1)
            if where=='before': body=body[:i]+text+'\n'+body[i:]
            else: body=body[:i+len(anchor)]+'\n'+text+body[i+len(anchor):]
        for old,new in c.get('rewrite',[]):
            assert body.count(old)==1,(key,old,body.count(old))
            body=body.replace(old,new)
        for old,new in c.get('sig',[]):
            seg=src[s0:pc+1]; assert seg.count(old)==1,(key,old); src=src[:s0]+seg.replace(old,new)+src[pc+1:]; d=len(new)-len(old); pc+=d; bo+=d; bc+=d
        ret=src[pc+1:bo]
        m=re.match(r'\s*->\s*(.*?)\s*$',ret,flags=re.S)
        if m: newret=' -> (r: '+m.group(1)+')\n'
        else: newret='\n'
        src=src[:pc+1]+newret+c.get('spec','')+'\n'+body+src[bc+1:]
        if c.get('attr'):
            ls=src.rfind('\n',0,s0)+1; src=src[:ls]+c['attr']+'\n'+src[ls:]
    return src
def main():
    tok=drop_display(strip_tests_uses(open(REPO+'token.rs').read()))
    tkz=strip_tests_uses(open(REPO+'tokenizer.rs').read())
    tkz=tkz.replace('fn other_token(&mut self, _: char,','fn other_token(&mut self, _unused0: char,')
    tkz=tkz.replace("#[derive(Clone)]\npub struct Tokenizer","#[verifier::external_derive]\n#[derive(Clone)]\npub struct Tokenizer")
    ns={}; exec(open(sys.argv[1]).read(),ns)
    tkz=splice(tkz,ns['TOKENIZER'])
    tok=splice(tok,ns.get('TOKEN',{}))
    pars=''
    if 'PARSER' in ns:
        p=drop_display(strip_tests_uses(open(REPO+'parser.rs').read()))
        i=p.index("impl<'a> ExprAST<'a> {\n    pub fn exec"); j=p.index("pub struct Parser<'a>")
        p=p[:i]+p[j:]
        p=p.replace("#[derive(Clone, PartialEq, Eq, Debug)]\npub enum","#[verifier::external_derive]\n#[derive(Clone, PartialEq, Eq, Debug)]\npub enum")
        pars=splice(p,ns['PARSER'])
    out=ns['PRELUDE']+tok+ns.get('GHOST','')+tkz+ns.get('GHOST2','')+pars+'\n} } // verus!\nfn main(){}\n'
    open(sys.argv[2],'w').write(out)
main()
