#!/usr/bin/env python3
"""Scratch prototype: evaluator unit = AST types + exec impl (parser.rs) + Value (value.rs), handler call sites rewritten."""
import re, sys, os
sys.argv=[sys.argv[0]]+sys.argv[1:]
import importlib.util
spec=importlib.util.spec_from_file_location('gen','/tmp/vx/proto/gen.py')
src_gen=open('/tmp/vx/proto/gen.py').read().replace("\nmain()\n","\n")
ns={}; exec(src_gen,ns)
REPO=os.environ.get('VX_SRC','/repo/src/')
strip=ns['strip_tests_uses']; drop=ns['drop_display']; splice=ns['splice']
p=drop(strip(open(REPO+'parser.rs').read()))
i=p.index("impl<'a> ExprAST<'a> {\n    pub fn exec"); j=p.index("impl<'a> ExprAST<'a> {\n    pub fn expr")
types=p[:i]; ex=p[i:j]
types=types.replace("#[derive(Clone, PartialEq, Eq, Debug)]\npub enum","#[verifier::external_derive]\n#[derive(Clone, PartialEq, Eq, Debug)]\npub enum")
# rule 7: handler applications -> vx_call
R=[("InnerFunctionManager::new().get(name)?(params)","vx_call_fn(InnerFunctionManager::new().get(name)?, params)"),
   ("Some(func) => func(params),","Some(func) => vx_call_fn(func, params),"),
   ("PrefixOpManager::new().get(&op)?(rhs.exec(ctx)?)","vx_call1(PrefixOpManager::new().get(&op)?, rhs.exec(ctx)?)"),
   ("PostfixOpManager::new().get(&op)?(lhs.exec(ctx)?)","vx_call1(PostfixOpManager::new().get(&op)?, lhs.exec(ctx)?)"),
   ("InfixOpManager::new().get_handler(&op)?(lhs.exec(ctx)?, rhs.exec(ctx)?)","vx_call2(InfixOpManager::new().get_handler(&op)?, lhs.exec(ctx)?, rhs.exec(ctx)?)"),
   ("InfixOpManager::new().get_handler(&op)?(a, b)?","vx_call2(InfixOpManager::new().get_handler(&op)?, a, b)?")]
for a,b in R:
    assert ex.count(a)==1,(a,ex.count(a)); ex=ex.replace(a,b)
v=drop(strip(open(REPO+'value.rs').read()))
v=v[:v.index("macro_rules! impl_value_from_for_number")]
import re as _re
v=_re.sub(r"    pub fn integer\(self\).*?\n    }\n\n    pub fn float\(self\).*?\n    }\n\n","",v,flags=_re.S)
v=v.replace("#[derive(Clone, PartialEq, Debug)]\npub enum Value","#[verifier::external_derive]\n#[derive(Clone, PartialEq, Debug)]\npub enum Value")
o={}; exec(open(sys.argv[1]).read(),o)
ex=splice(ex,o['EXEC']); v=splice(v,o.get('VALUE',{}))
ex=ex  # placeholder
open(sys.argv[2],'w').write(o['PRELUDE']+v+types+o['GHOST']+ex+'\n} } // verus!\nfn main(){}\n')
