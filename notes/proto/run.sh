#!/bin/bash
# usage: run.sh overlay.py out.rs [extra verus args]
D=/tmp/vx/depsrc/target/debug/deps
python3 gen.py $1 $2 || exit 3
shift; f=$1; shift
verus $f --extern rust_decimal=$(ls $D/librust_decimal-*.rlib) -L dependency=$D --multiple-errors 5 "$@" 2>&1 | grep -v "^\[rust_verify\|^$" 
