#!/usr/bin/env python3
"""Scratch prototype: printer unit = AST types + expr() impl (parser.rs), String `+` chains folded into vx_add (rule 9)."""
import re,sys,os
exec(open('/tmp/vx/proto/gen.py').read().replace("\nmain()\n","\n"))
REPO=os.environ.get('VX_SRC','/repo/src/')
p=drop_display(strip_tests_uses(open(REPO+'parser.rs').read()))
i=p.index("impl<'a> ExprAST<'a> {\n    pub fn exec"); j=p.index("impl<'a> ExprAST<'a> {\n    pub fn expr"); k=p.index("impl<'a> ExprAST<'a> {\n    pub fn describe")
types=p[:i]; pr=p[j:k]
# keep get_precidence (AST method) from the exec impl block
gp=p[p.index("    fn get_precidence(&self) -> (bool, (i32, i32)) {"):p.index("    fn get_reference_name")]
pr=pr.replace("impl<'a> ExprAST<'a> {\n    pub fn expr","impl<'a> ExprAST<'a> {\n"+gp+"    pub fn expr",1)
types=types.replace("#[derive(Clone, PartialEq, Eq, Debug)]\npub enum","#[verifier::external_derive]\n#[derive(Clone, PartialEq, Eq, Debug)]\npub enum")
# rule 9: fold top-level `+` chains (String + &str ...) into vx_add
def fold(expr):
    parts=[];d=0;cur='';q=False;i=0
    while i<len(expr):
        c=expr[i]
        if c=='"':
            j=i+1
            while expr[j]!='"':
                if expr[j]=='\\': j+=1
                j+=1
            cur+=expr[i:j+1]; i=j+1; continue
        if c in '([{': d+=1
        if c in ')]}': d-=1
        if d==0 and expr.startswith(' + ',i): parts.append(cur.strip()); cur=''; i+=3; continue
        cur+=c; i+=1
    parts.append(cur.strip())
    if len(parts)==1: return expr
    acc=parts[0]
    for x in parts[1:]: acc='vx_add(%s, %s)'%(acc,x)
    return acc
CH=["quote.to_string() + &value + quote","op.to_string() + \" \" + &rhs.expr()","op.to_string() + \" (\" + &rhs.expr() + \")\"","\"(\".to_string() + &self.expr() + \")\"",
    "\"(\".to_string() + &lhs.expr() + &\")\".to_string()","\"(\".to_string() + &rhs.expr() + &\")\".to_string()","left + \" \" + op + \" \" + &right","lhs.operand_expr() + \" \" + op",
    "\"(\".to_string() + &condition.expr() + \")\"","cond + \" ? \" + &lhs.expr() + \" : \" + &rhs.expr()"]
n=0
for c in CH:
    assert pr.count(c)==1,(c,pr.count(c)); pr=pr.replace(c,fold(c)); n+=1
print('rule 9 applications:',n)
o={}; exec(open(sys.argv[1]).read(),o)
pr=splice(pr,o['PRINTER'])
open(sys.argv[2],'w').write(o['PRELUDE']+types+o['GHOST']+pr+'\n} } // verus!\nfn main(){}\n')
