pub fn infix_handler_0(op: &str, _unused0: Value, right: Value) -> Result<Value> {
        Ok(right)
    }

pub fn infix_handler_1(op: &str, left: Value, right: Value) -> Result<Value> {
                    let (a, b) = (left.decimal()?, right.decimal()?);
                    let ans = match op {
                        "+=" => a.checked_add(b),
                        "-=" => a.checked_sub(b),
                        "*=" => a.checked_mul(b),
                        "/=" => a.checked_div(b),
                        "%=" => a.checked_rem(b),
                        _ => None,
                    };
                    match ans {
                        Some(v) => Ok(Value::Number(v)),
                        None => Err(Error::ParamInvalid()),
                    }
                }

pub fn infix_handler_2(op: &str, left: Value, right: Value) -> Result<Value> {
                    let (mut a, b) = (left.integer()?, right.integer()?);
                    match op {
                        "<<=" | ">>=" => {
                            if b < 0 || b > 63 {
                                return Err(Error::ParamInvalid());
                            }
                            if op == "<<=" {
                                a <<= b
                            } else {
                                a >>= b
                            }
                        }
                        "&=" => a &= b,
                        "^=" => a ^= b,
                        "|=" => a |= b,
                        _ => (),
                    }
                    Ok(Value::from(a))
                }

pub fn infix_handler_3(op: &str, left: Value, right: Value) -> Result<Value> {
                    let (mut a, b) = (left.bool()?, right.bool()?);
                    match op {
                        "||" => a = a || b,
                        "&&" => a = a && b,
                        _ => (),
                    }
                    Ok(Value::from(a))
                }

pub fn infix_handler_4(op: &str, left: Value, right: Value) -> Result<Value> {
                    let (a, b) = (left.decimal()?, right.decimal()?);
                    let mut value = false;
                    match op {
                        "<" => value = a < b,
                        "<=" => value = a <= b,
                        ">" => value = a > b,
                        ">=" => value = a >= b,
                        _ => (),
                    }
                    Ok(Value::from(value))
                }

pub fn infix_handler_5(op: &str, left: Value, right: Value) -> Result<Value> {
                    let mut value = false;
                    match op {
                        "==" => value = left == right,
                        "!=" => value = left != right,
                        _ => (),
                    }
                    Ok(Value::from(value))
                }

pub fn infix_handler_6(op: &str, left: Value, right: Value) -> Result<Value> {
                    let (mut a, b) = (left.integer()?, right.integer()?);
                    match op {
                        "|" => a |= b,
                        "^" => a ^= b,
                        "&" => a &= b,
                        "<<" | ">>" => {
                            if b < 0 || b > 63 {
                                return Err(Error::ParamInvalid());
                            }
                            if op == "<<" {
                                a <<= b
                            } else {
                                a >>= b
                            }
                        }
                        _ => (),
                    }
                    Ok(Value::from(a))
                }

pub fn infix_handler_7(op: &str, left: Value, right: Value) -> Result<Value> {
                    let (a, b) = (left.decimal()?, right.decimal()?);
                    let ans = match op {
                        "+" => a.checked_add(b),
                        "-" => a.checked_sub(b),
                        "*" => a.checked_mul(b),
                        "/" => a.checked_div(b),
                        "%" => a.checked_rem(b),
                        _ => None,
                    };
                    match ans {
                        Some(v) => Ok(Value::from(v)),
                        None => Err(Error::ParamInvalid()),
                    }
                }

pub fn infix_handler_8(op: &str, left: Value, right: Value) -> Result<Value> {
                let (a, b) = (left.string()?, right.string()?);
                Ok(Value::from(a.starts_with(&b)))
            }

pub fn infix_handler_9(op: &str, left: Value, right: Value) -> Result<Value> {
                let (a, b) = (left.string()?, right.string()?);
                Ok(Value::from(a.ends_with(&b)))
            }

pub fn infix_handler_10(op: &str, left: Value, right: Value) -> Result<Value> {
                let list = right.list()?;
                for item in list {
                    if item == left {
                        return Ok(true.into());
                    }
                }
                Ok(false.into())
            }

pub fn prefix_handler_0(op: &str, param: Value) -> Result<Value> {
                let a = match param {
                    Value::Number(a) => a,
                    _ => return Err(Error::ShouldBeNumber()),
                };
                Ok(Value::Number(-a))
            }

pub fn prefix_handler_1(op: &str, param: Value) -> Result<Value> {
                let a = match param {
                    Value::Number(a) => a,
                    _ => return Err(Error::ShouldBeNumber()),
                };
                Ok(Value::Number(a))
            }

pub fn prefix_handler_2(op: &str, param: Value) -> Result<Value> {
                let a = match param {
                    Value::Bool(value) => !value,
                    _ => return Err(Error::ShouldBeBool()),
                };
                Ok(Value::Bool(a))
            }

pub fn prefix_handler_3(op: &str, param: Value) -> Result<Value> {
                let a = match param {
                    Value::Bool(value) => !value,
                    _ => return Err(Error::ShouldBeBool()),
                };
                Ok(Value::Bool(a))
            }

pub fn prefix_handler_4(op: &str, value: Value) -> Result<Value> {
                let list = value.list()?;
                for value in list {
                    if !value.bool()? {
                        return Ok(false.into());
                    }
                }
                Ok(true.into())
            }

pub fn prefix_handler_5(op: &str, value: Value) -> Result<Value> {
                let list = value.list()?;
                for value in list {
                    if value.bool()? {
                        return Ok(true.into());
                    }
                }
                Ok(false.into())
            }

pub fn postfix_handler_0(op: &str, param: Value) -> Result<Value> {
                let a = match param {
                    Value::Number(a) => match a.checked_add(Decimal::ONE) {
                        Some(v) => v,
                        None => return Err(Error::ParamInvalid()),
                    },
                    _ => return Err(Error::ShouldBeNumber()),
                };
                Ok(Value::Number(a))
            }

pub fn postfix_handler_1(op: &str, param: Value) -> Result<Value> {
                let a = match param {
                    Value::Number(a) => match a.checked_sub(Decimal::ONE) {
                        Some(v) => v,
                        None => return Err(Error::ParamInvalid()),
                    },
                    _ => return Err(Error::ShouldBeNumber()),
                };
                Ok(Value::Number(a))
            }

pub fn func_handler_0(op: &str, params: Vec<Value>) -> Result<Value> {
                let mut min = None;
                for param in params.into_iter() {
                    let num = param.decimal()?;
                    if min.is_none() || num < min.unwrap() {
                        min = Some(num);
                    }
                }
                match min {
                    Some(v) => Ok(Value::Number(v)),
                    None => Err(Error::ParamInvalid()),
                }
            }

pub fn func_handler_1(op: &str, params: Vec<Value>) -> Result<Value> {
                let mut max = None;
                for param in params.into_iter() {
                    let num = param.decimal()?;
                    if max.is_none() || num > max.unwrap() {
                        max = Some(num);
                    }
                }
                match max {
                    Some(v) => Ok(Value::Number(v)),
                    None => Err(Error::ParamInvalid()),
                }
            }

pub fn func_handler_2(op: &str, params: Vec<Value>) -> Result<Value> {
                let mut ans = Decimal::ZERO;
                for param in params.into_iter() {
                    ans = match ans.checked_add(param.decimal()?) {
                        Some(v) => v,
                        None => return Err(Error::ParamInvalid()),
                    };
                }
                Ok(Value::Number(ans))
            }

pub fn func_handler_3(op: &str, params: Vec<Value>) -> Result<Value> {
                let mut ans = Decimal::ONE;
                for param in params.into_iter() {
                    ans = match ans.checked_mul(param.decimal()?) {
                        Some(v) => v,
                        None => return Err(Error::ParamInvalid()),
                    };
                }
                Ok(Value::Number(ans))
            }
