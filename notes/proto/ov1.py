PRELUDE = r'''
#![allow(unused_imports, dead_code, unused_variables, unused_mut)]
use vstd::prelude::*;
use vstd::string::*;
use vstd::utf8::*;
use std::str;
use std::fmt;
use rust_decimal::prelude::*;
use rust_decimal::Decimal;
verus! {
mod m {
use super::*; use vstd::prelude::*; use vstd::string::*; use vstd::utf8::*; use vstd::slice::*; use rust_decimal::Decimal;

// ---------- trusted: std CharIndices ----------
#[verifier::external_type_specification]
#[verifier::external_body]
pub struct ExCharIndices<'a>(core::str::CharIndices<'a>);

pub uninterp spec fn ci_bytes(c: &core::str::CharIndices) -> Seq<u8>;
pub uninterp spec fn ci_off(c: &core::str::CharIndices) -> int;
// the scalar value encoded at byte offset `off` of `bytes` (meaningful at char boundaries < len)
pub uninterp spec fn char_at(bytes: Seq<u8>, off: int) -> char;

pub open spec fn ci_wf(c: &core::str::CharIndices) -> bool {
    &&& valid_utf8(ci_bytes(c))
    &&& ci_bytes(c).len() <= usize::MAX
    &&& 0 <= ci_off(c) <= ci_bytes(c).len()
    &&& is_char_boundary(ci_bytes(c), ci_off(c))
}

pub assume_specification<'a>[str::char_indices](s: &'a str) -> (r: std::str::CharIndices<'a>)
    ensures ci_bytes(&r) == s.spec_bytes(), ci_off(&r) == 0, ci_wf(&r);

pub assume_specification<'a>[<core::str::CharIndices<'a> as Iterator>::next](c: &mut std::str::CharIndices<'a>) -> (r: Option<(usize, char)>)
    ensures
        ci_bytes(final(c)) == ci_bytes(old(c)),
        ci_wf(old(c)) ==> ci_wf(final(c)),
        ci_wf(old(c)) && ci_off(old(c)) == ci_bytes(old(c)).len() ==> r.is_none() && ci_off(final(c)) == ci_off(old(c)),
        ci_wf(old(c)) && ci_off(old(c)) < ci_bytes(old(c)).len() ==> {
            &&& r.is_some()
            &&& r.unwrap().0 == ci_off(old(c))
            &&& r.unwrap().1 == char_at(ci_bytes(old(c)), ci_off(old(c)))
            &&& ci_off(final(c)) == ci_off(old(c)) + r.unwrap().1.len_utf8()
            &&& (r.unwrap().1.len_utf8() == 1 ==> ci_bytes(old(c))[ci_off(old(c))] == r.unwrap().1 as u8)
            &&& (r.unwrap().1.len_utf8() > 1 ==> forall|i: int| ci_off(old(c)) <= i < ci_off(final(c)) ==> #[trigger] ci_bytes(old(c))[i] >= 128)
        };

pub assume_specification<'a>[<core::str::CharIndices<'a> as Clone>::clone](c: &std::str::CharIndices<'a>) -> (r: std::str::CharIndices<'a>)
    ensures ci_bytes(&r) == ci_bytes(c), ci_off(&r) == ci_off(c);

// ---------- trusted: functional postcondition of `&s[range]` on str (vstd only gives the precondition) ----------
pub assume_specification<I: core::slice::SliceIndex<str>>[<str as core::ops::Index<I>>::index](s: &str, i: I) -> (r: &<I as core::slice::SliceIndex<str>>::Output)
    ensures i.index_postcondition(s, r);

// ---------- trusted: reflexive From (x.into() of the same type is the identity) ----------
pub assume_specification<T>[<T as core::convert::From<T>>::from](t: T) -> (r: T)
    ensures r == t;

// ---------- trusted: rust_decimal ----------
#[verifier::external_type_specification]
#[verifier::external_body]
pub struct ExDecimal(rust_decimal::Decimal);
#[verifier::external_type_specification]
#[verifier::external_body]
pub struct ExDecErr(rust_decimal::Error);
pub uninterp spec fn dec_parse(s: Seq<u8>) -> Option<Decimal>;
pub assume_specification[<Decimal as core::str::FromStr>::from_str](s: &str) -> (r: core::result::Result<Decimal, <Decimal as core::str::FromStr>::Err>)
    ensures r.is_ok() == dec_parse(s.spec_bytes()).is_some(), r.is_ok() ==> r.unwrap() == dec_parse(s.spec_bytes()).unwrap();

// ---------- repo: error.rs / define.rs (verbatim minus Display) ----------
pub enum Error { InvalidNumber(String), UnexpectedEOF(usize), UnterminatedString(usize), ExpectedOpNotExist(String) }
pub type Result<T> = core::result::Result<T, Error>;

// ---------- trusted: registry predicates behind keyword.rs ----------
mod keyword { use vstd::prelude::*; use vstd::string::*; verus!{
pub uninterp spec fn reg_op(s: Seq<u8>) -> bool;
pub uninterp spec fn reg_postfix(s: Seq<u8>) -> bool;
pub uninterp spec fn reg_infix(s: Seq<u8>) -> bool;
#[verifier::external_body] pub fn is_op(op: &str) -> (r: bool) ensures r == reg_op(op.spec_bytes()) { unimplemented!() }
#[verifier::external_body] pub fn is_postfix_op(op: &str) -> (r: bool) ensures r == reg_postfix(op.spec_bytes()) { unimplemented!() }
#[verifier::external_body] pub fn is_infix_op(op: &str) -> (r: bool) ensures r == reg_infix(op.spec_bytes()) { unimplemented!() }
#[verifier::external_body] pub fn is_not(op: &str) -> (r: bool) { unimplemented!() }
} }
'''

GHOST = r'''
// ---------- ghost vocabulary for tokenizer contracts ----------
pub open spec fn is_ws_byte(b: u8) -> bool { b == 32 || b == 9 || b == 13 || b == 10 }
pub open spec fn all_ws(bytes: Seq<u8>, lo: int, hi: int) -> bool {
    forall|i: int| lo <= i < hi ==> is_ws_byte(#[trigger] bytes[i])
}
pub open spec fn span_ok(bytes: Seq<u8>, p: int, a: int, b: int, q: int) -> bool {
    &&& 0 <= p <= a < b <= bytes.len()
    &&& b == q
    &&& all_ws(bytes, p, a)
    &&& is_char_boundary(bytes, a)
    &&& is_char_boundary(bytes, b)
}
pub open spec fn tok_post(bytes: Seq<u8>, p: int, t: Token, q: int) -> bool {
    match t {
        Token::EOF => q == bytes.len() && p <= q && all_ws(bytes, p, q),
        Token::Operator(s, Span(a, b)) => span_ok(bytes, p, a as int, b as int, q) && s.spec_bytes() == bytes.subrange(a as int, b as int),
        Token::Comma(s, Span(a, b)) => span_ok(bytes, p, a as int, b as int, q) && s.spec_bytes() == bytes.subrange(a as int, b as int),
        Token::Semicolon(s, Span(a, b)) => span_ok(bytes, p, a as int, b as int, q) && s.spec_bytes() == bytes.subrange(a as int, b as int),
        Token::Reference(s, Span(a, b)) => span_ok(bytes, p, a as int, b as int, q) && s.spec_bytes() == bytes.subrange(a as int, b as int),
        Token::Function(s, Span(a, b)) => span_ok(bytes, p, a as int, b as int, q) && s.spec_bytes() == bytes.subrange(a as int, b as int),
        Token::Delim(ty, Span(a, b)) => span_ok(bytes, p, a as int, b as int, q) && b == a + 1,
        Token::Number(d, Span(a, b)) => span_ok(bytes, p, a as int, b as int, q) && dec_parse(bytes.subrange(a as int, b as int)) == Some(d),
        Token::Bool(v, Span(a, b)) => span_ok(bytes, p, a as int, b as int, q),
        Token::String(s, Span(a, b)) => {
            &&& span_ok(bytes, p, a as int, b as int, q)
            &&& b >= a + 2
            &&& s.spec_bytes() == bytes.subrange(a as int + 1, b as int - 1)
            &&& (bytes[a as int] == 34 || bytes[a as int] == 39)
            &&& bytes[b as int - 1] == bytes[a as int]
            &&& forall|i: int| a < i < b - 1 ==> #[trigger] bytes[i] != bytes[a as int]
        },
    }
}
impl<'a> Tokenizer<'a> {
    pub closed spec fn bytes(&self) -> Seq<u8> { self.input.spec_bytes() }
    pub closed spec fn len(&self) -> int { self.input.spec_bytes().len() as int }
    pub closed spec fn off(&self) -> int { ci_off(&self.chars) }
    pub closed spec fn wf(&self) -> bool {
        &&& ci_bytes(&self.chars) == self.input.spec_bytes()
        &&& ci_wf(&self.chars)
    }
    // the tokenizer has just consumed the char that starts at `start`
    pub closed spec fn in_token(&self, start: int) -> bool {
        &&& self.wf()
        &&& 0 <= start < self.off()
        &&& is_char_boundary(self.bytes(), start)
    }
}
pub assume_specification<'a>[<Tokenizer<'a> as Clone>::clone](t: &Tokenizer<'a>) -> (r: Tokenizer<'a>)
    ensures r == *t;
'''

TOKENIZER = {
 'new': dict(spec='''    ensures r.wf(), r.off() == 0, r.bytes() == input.spec_bytes(),'''),
 'next_one': dict(spec='''    requires old(self).wf(),
    ensures final(self).wf(), final(self).inp() == old(self).inp(), final(self).cur() == old(self).cur(), final(self).prev() == old(self).prev(),
        r.is_none() ==> final(self).off() == old(self).off() && old(self).off() == old(self).len(),
        r.is_some() ==> {
            &&& r.unwrap().0 == old(self).off() && old(self).off() < old(self).len()
            &&& final(self).off() == old(self).off() + r.unwrap().1.len_utf8()
            &&& final(self).cur_char == r.unwrap().1
            &&& r.unwrap().1 == char_at(old(self).bytes(), old(self).off())
            &&& (r.unwrap().1.len_utf8() == 1 ==> old(self).bytes()[old(self).off()] == r.unwrap().1 as u8)
            &&& (r.unwrap().1.len_utf8() > 1 ==> forall|i: int| old(self).off() <= i < final(self).off() ==> #[trigger] old(self).bytes()[i] >= 128)
        },'''),
 'peek_one': dict(spec='''    requires old(self).wf(),
    ensures *final(self) == *old(self),
        r.is_none() <==> old(self).off() == old(self).len(),
        r.is_some() ==> r.unwrap().0 == old(self).off() && r.unwrap().1 == char_at(old(self).bytes(), old(self).off())
            && old(self).off() + r.unwrap().1.len_utf8() <= old(self).len()
            && is_char_boundary(old(self).bytes(), old(self).off() + r.unwrap().1.len_utf8()),'''),
 'current': dict(spec='''    requires self.wf(),
    ensures r == self.off(),''',
    rewrite=[('.map(|i| i.0)','.map(|i: (usize, char)| -> (r: usize) ensures r == i.0 { i.0 })'),
             ('.unwrap_or_else(|| self.input.len())','.unwrap_or_else(|| -> (r: usize) ensures r == self.input.spec_bytes().len() as usize { self.input.len() })')]),
}
