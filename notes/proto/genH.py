#!/usr/bin/env python3
"""Scratch prototype: handler unit = value.rs (real) + lifted handlers; contracts spliced by function name."""
import re,sys,os
exec(open('/tmp/vx/proto/gen.py').read().replace("\nmain()\n","\n"))
REPO=os.environ.get('VX_SRC','/repo/src/')
v=drop_display(strip_tests_uses(open(REPO+'value.rs').read()))
v=v[:v.index("macro_rules! impl_value_from_for_number")]
v=re.sub(r"    pub fn float\(self\).*?\n    }\n\n","",v,flags=re.S)
v=re.sub(r"    pub fn integer\(self\).*?\n    }\n\n","",v,flags=re.S)
v=v.replace("#[derive(Clone, PartialEq, Debug)]\npub enum Value","#[verifier::external_derive]\n#[derive(Clone, PartialEq, Debug)]\npub enum Value")
o={}; exec(open(sys.argv[1]).read(),o)
h=open(sys.argv[3]).read()
keep=o.get('KEEP')
if keep:
    parts=re.split(r'(?=^pub fn )',h,flags=re.M)
    h=''.join(p for p in parts if any(('fn '+k+'(') in p for k in keep))
v=splice(v,o.get('VALUE',{})); h=splice(h,o['HANDLERS'])
open(sys.argv[2],'w').write(o['PRELUDE']+v+o['GHOST']+h+'\n} } // verus!\nfn main(){}\n')
