exec(open('ov1.py').read())

GHOST += r'''
pub open spec fn delim_of_byte(b: u8) -> DelimTokenType {
    if b == 40 { DelimTokenType::OpenParen } else if b == 41 { DelimTokenType::CloseParen }
    else if b == 91 { DelimTokenType::OpenBracket } else if b == 93 { DelimTokenType::CloseBracket }
    else if b == 123 { DelimTokenType::OpenBrace } else if b == 125 { DelimTokenType::CloseBrace }
    else { DelimTokenType::Unknown }
}
impl vstd::std_specs::convert::FromSpecImpl<char> for DelimTokenType {
    open spec fn obeys_from_spec() -> bool { false }
    open spec fn from_spec(v: char) -> Self { DelimTokenType::Unknown }
}
impl<'b> vstd::std_specs::convert::FromSpecImpl<&'b str> for DelimTokenType {
    open spec fn obeys_from_spec() -> bool { false }
    open spec fn from_spec(v: &'b str) -> Self { DelimTokenType::Unknown }
}
impl<'a> Tokenizer<'a> {
    // frame shared by all scanners: same input, same token registers, cursor only moves forward, still inside the token
    pub closed spec fn scan_frame(&self, old: &Tokenizer<'a>, start: int) -> bool {
        &&& self.in_token(start)
        &&& self.inp() == old.inp()
        &&& self.cur_token == old.cur_token
        &&& self.prev_token == old.prev_token
        &&& old.off() <= self.off() <= self.len()
    }
    pub closed spec fn cur(&self) -> Token<'a> { self.cur_token }
    pub closed spec fn prev(&self) -> Token<'a> { self.prev_token }
    pub closed spec fn inp(&self) -> &'a str { self.input }
    pub closed spec fn text(&self, a: int, b: int) -> Seq<u8> { self.input.spec_bytes().subrange(a, b) }
}
'''

SCAN_INV = '''        invariant self.scan_frame(old(self), start as int),
        decreases self.len() - self.off(),'''

TOKENIZER.update({
 'is_digit_char': dict(spec='''    ensures r == (('0' <= ch && ch <= '9') || ch == '.' || ch == '-' || ch == 'e' || ch == 'E' || ch == '+'),'''),
 'is_whitespace_char': dict(spec='''    ensures r == (ch == ' ' || ch == '\\t' || ch == '\\r' || ch == '\\n'),'''),
 'is_delim_char': dict(spec='''    ensures r == (ch == '(' || ch == ')' || ch == '[' || ch == ']' || ch == '{' || ch == '}'),'''),
 'is_param_char': dict(spec='''    ensures r == (('0' <= ch && ch <= '9') || ('a' <= ch && ch <= 'z') || ('A' <= ch && ch <= 'Z') || ch == '.' || ch == '_'),'''),
 'eat_whitespace': dict(spec='''    requires old(self).wf(),
    ensures final(self).wf(), final(self).inp() == old(self).inp(),
        final(self).cur() == old(self).cur(), final(self).prev() == old(self).prev(),
        old(self).off() <= final(self).off() <= old(self).len(),
        all_ws(old(self).bytes(), old(self).off(), final(self).off()),''',
   loops={0:'''        invariant self.wf(), self.inp() == old(self).inp(),
            self.cur() == old(self).cur(), self.prev() == old(self).prev(),
            old(self).off() <= self.off() <= self.len(),
            all_ws(self.bytes(), old(self).off(), self.off()),
        decreases self.len() - self.off(),'''}),
 'special_op_token': dict(spec='''    requires old(self).in_token(start as int),
    ensures final(self).scan_frame(old(self), start as int),
        r matches Ok(Token::Operator(s, sp)) && sp == Span(start, final(self).off() as usize) && s.spec_bytes() == final(self).text(start as int, final(self).off()),''',
   loops={0:SCAN_INV}),
 'try_parse_op': dict(spec='''    requires self.in_token(start as int),''',
   loops={0:'''        invariant tmp.scan_frame(self, start as int),
        decreases tmp.len() - tmp.off(),'''}),
 'operator_token': dict(spec='''    requires old(self).in_token(start as int),
    ensures final(self).scan_frame(old(self), start as int),
        r matches Ok(Token::Operator(s, sp)) && sp == Span(start, final(self).off() as usize) && s.spec_bytes() == final(self).text(start as int, final(self).off()),''',
   loops={0:SCAN_INV}),
 'parse_var': dict(spec='''    requires old(self).in_token(start as int),
    ensures final(self).scan_frame(old(self), start as int),
        r.1 == start, r.0.spec_bytes() == final(self).text(start as int, final(self).off()),''',
   loops={0:SCAN_INV}),
 'peek': dict(spec='''    requires self.wf(),
    decreases self.len() - self.off(), 1int,'''),
 'expect': dict(spec='''    requires old(self).wf(),
    ensures final(self).wf(), final(self).inp() == old(self).inp(),'''),
 'delim_token': dict(spec='''    requires old(self).in_token(start as int), start + 1 == old(self).off(),
    ensures *final(self) == *old(self),
        r matches Ok(Token::Delim(ty, sp)) && sp == Span(start, (start + 1) as usize),'''),
 'comma_token': dict(spec='''    requires old(self).in_token(start as int), start + 1 == old(self).off(),
    ensures *final(self) == *old(self),
        r matches Ok(Token::Comma(s, sp)) && sp == Span(start, (start + 1) as usize) && s.spec_bytes() == old(self).text(start as int, start + 1),'''),
 'semicolon_token': dict(spec='''    requires old(self).in_token(start as int), start + 1 == old(self).off(),
    ensures *final(self) == *old(self),
        r matches Ok(Token::Semicolon(s, sp)) && sp == Span(start, (start + 1) as usize) && s.spec_bytes() == old(self).text(start as int, start + 1),'''),
 'number_token': dict(spec='''    requires old(self).in_token(start as int),
    ensures final(self).scan_frame(old(self), start as int),
        r matches Ok(t) ==> t matches Token::Number(d, sp) && sp == Span(start, final(self).off() as usize)
             && dec_parse(final(self).text(start as int, final(self).off())) == Some(d),''',
   loops={0:SCAN_INV}),
 'function_or_reference_token': dict(spec='''    requires self.in_token(start as int), atom.spec_bytes() == self.text(start as int, self.off()),
    ensures r matches Ok(t) ==> ((t matches Token::Function(s, sp) && sp == Span(start, self.off() as usize) && s == atom)
                              || (t matches Token::Reference(s, sp) && sp == Span(start, self.off() as usize) && s == atom)),
    decreases self.len() - self.off(), 2int,'''),
 'string_token': dict(spec='''    requires old(self).in_token(start as int), start + 1 == old(self).off(),
        old(self).bytes()[start as int] == old(self).cur_char as u8,
        old(self).cur_char == '"' || old(self).cur_char == '\\'',
    ensures final(self).scan_frame(old(self), start as int),
        r matches Ok(t) ==> t matches Token::String(s, sp) && sp == Span(start, final(self).off() as usize)
            && final(self).off() >= start + 2
            && s.spec_bytes() == final(self).text(start + 1, final(self).off() - 1)
            && final(self).bytes()[final(self).off() - 1] == final(self).bytes()[start as int]
            && (forall|i: int| start < i < final(self).off() - 1 ==> #[trigger] final(self).bytes()[i] != final(self).bytes()[start as int]),''',
   loops={0:'''        invariant_except_break !string_termmited,
        invariant self.scan_frame(old(self), start as int), start + 1 <= self.off(),
            identifier == old(self).cur_char, identifier == '"' || identifier == '\\'',
            self.bytes()[start as int] == identifier as u8,
            !string_termmited ==> (forall|i: int| start < i < self.off() ==> #[trigger] self.bytes()[i] != identifier as u8),
        ensures
            string_termmited ==> self.off() >= start + 2 && self.bytes()[self.off() - 1] == identifier as u8
                 && is_char_boundary(self.bytes(), self.off() - 1)
                 && (forall|i: int| start < i < self.off() - 1 ==> #[trigger] self.bytes()[i] != identifier as u8),
        decreases self.len() - self.off(),'''}),
 'bool_token': dict(spec='''    requires old(self).in_token(start as int),
    ensures *final(self) == *old(self),
        r matches Ok(Token::Bool(v, sp)) && v == val && sp == Span(start, old(self).off() as usize),'''),
 'other_token': dict(spec='''    requires old(self).in_token(start as int),
    ensures final(self).scan_frame(old(self), start as int),
        r matches Ok(t) ==> tok_post(final(self).bytes(), start as int, t, final(self).off()),
    decreases old(self).len() - old(self).off(), 3int,'''),
 'next': dict(spec='''    requires old(self).wf(),
    ensures final(self).wf(), final(self).inp() == old(self).inp(),
        r matches Ok(t) ==> tok_post(old(self).bytes(), old(self).off(), t, final(self).off())
             && final(self).cur() == t && final(self).prev() == old(self).cur(),
    decreases old(self).len() - old(self).off(), 0int,'''),
})
