exec(open('ov3.py').read())
PARSER['parse_op']['proof']=[("let mut rhs = self.parse_primary()?;","            proof { assert(false); }","after")]
PARSER['parse_open_brace']['proof']=[("m.push((k, v));","            proof { assert(false); }","after")]
TOKENIZER['function_or_reference_token']['proof']=[("let peek = self.peek()?;","        proof { assert(false); }","after")]
