exec(open('ov3.py').read())
# ---- keyword stubs on char views; binding powers
PRELUDE = PRELUDE.replace('''pub uninterp spec fn reg_op(s: Seq<u8>) -> bool;
pub uninterp spec fn reg_postfix(s: Seq<u8>) -> bool;
pub uninterp spec fn reg_infix(s: Seq<u8>) -> bool;
#[verifier::external_body] pub fn is_op(op: &str) -> (r: bool) ensures r == reg_op(op.spec_bytes()) { unimplemented!() }
#[verifier::external_body] pub fn is_postfix_op(op: &str) -> (r: bool) ensures r == reg_postfix(op.spec_bytes()) { unimplemented!() }
#[verifier::external_body] pub fn is_infix_op(op: &str) -> (r: bool) ensures r == reg_infix(op.spec_bytes()) { unimplemented!() }
#[verifier::external_body] pub fn is_not(op: &str) -> (r: bool) { unimplemented!() }''',
'''pub uninterp spec fn reg_op(s: Seq<char>) -> bool;
pub uninterp spec fn reg_postfix(s: Seq<char>) -> bool;
pub uninterp spec fn reg_prefix(s: Seq<char>) -> bool;
pub uninterp spec fn reg_infix(s: Seq<char>) -> bool;
#[verifier::external_body] pub fn is_op(op: &str) -> (r: bool) ensures r == reg_op(op@) { unimplemented!() }
#[verifier::external_body] pub fn is_postfix_op(op: &str) -> (r: bool) ensures r == reg_postfix(op@) { unimplemented!() }
#[verifier::external_body] pub fn is_prefix_op(op: &str) -> (r: bool) ensures r == reg_prefix(op@) { unimplemented!() }
#[verifier::external_body] pub fn is_infix_op(op: &str) -> (r: bool) ensures r == reg_infix(op@) { unimplemented!() }
#[verifier::external_body] pub fn is_not(op: &str) -> (r: bool) ensures r == (op@ == "not"@) { unimplemented!() }''')

GHOST2 = GHOST2.replace('''pub uninterp spec fn spec_bp(op: Seq<char>) -> (i32, i32);
impl InfixOpManager {
  #[verifier::external_body] pub fn new() -> Self { unimplemented!() }
  #[verifier::external_body] pub fn get_precidence(&self, op: &str) -> (r: (i32, i32)) ensures r == spec_bp(op@) { unimplemented!() }
}''','''pub uninterp spec fn lbp(op: Seq<char>) -> int;
pub uninterp spec fn rbp(op: Seq<char>) -> int;
// (to be discharged from the verified get_precidence + registry contract: l = 2p, r = 2p +- 1, p >= 1)
pub broadcast axiom fn axiom_bp(op: Seq<char>)
    requires keyword::reg_infix(op)
    ensures #[trigger] lbp(op) >= 2, lbp(op) % 2 == 0, #[trigger] rbp(op) >= 1, rbp(op) % 2 == 1;
impl InfixOpManager {
  #[verifier::external_body] pub fn new() -> Self { unimplemented!() }
  #[verifier::external_body] pub fn get_precidence(&self, op: &str) -> (r: (i32, i32))
     ensures keyword::reg_infix(op@) ==> r.0 == lbp(op@) && r.1 == rbp(op@), !keyword::reg_infix(op@) ==> r == (-1i32, -1i32) { unimplemented!() }
}''')

GHOST2 += r'''
#[verifier::external_body]
pub fn vx_string_eq_str(a: &String, b: &str) -> (r: bool) ensures r == (a@ == b@) { a == b }
// ======================= derivation witnesses =======================
pub enum G<'a> {
    Lit(Token<'a>),
    Ref(Token<'a>),
    Paren(Token<'a>, Box<G<'a>>, Token<'a>),
    Pre(Token<'a>, Box<G<'a>>),
    Bin(Box<G<'a>>, Option<Token<'a>>, Token<'a>, Box<G<'a>>),       // l, optional `not` token, operator token, r
    Cond(Box<G<'a>>, Token<'a>, Box<G<'a>>, Token<'a>, Box<G<'a>>),  // c ? a : e
    Post(Box<G<'a>>, Token<'a>, String),                              // operand, postfix operator token, the String stored in the AST
    List(Token<'a>, Seq<(G<'a>, Option<Token<'a>>)>, Token<'a>, Vec<ExprAST<'a>>),   // [ item (, item)* ,? ]  + the Vec stored in the AST
    Call(Token<'a>, Token<'a>, Seq<(G<'a>, Option<Token<'a>>)>, Token<'a>, Vec<ExprAST<'a>>),  // name ( arg (, arg)* )
    Entry(Box<G<'a>>, Token<'a>, Box<G<'a>>),                                          // key : value   (only inside Map)
    Map(Token<'a>, Seq<(G<'a>, Option<Token<'a>>)>, Token<'a>, Vec<(ExprAST<'a>, ExprAST<'a>)>),  // { entry (, entry)* ,? }
}
pub open spec fn op_text(t: Token) -> Seq<char> { match t { Token::Operator(s, _) => s@, _ => Seq::empty() } }
pub open spec fn first<'a>(g: G<'a>) -> Token<'a> decreases g {
    match g { G::Lit(t) => t, G::Ref(t) => t, G::Paren(t, _, _) => t, G::Pre(t, _) => t, G::Bin(l, _, _, _) => first(*l), G::Cond(c, _, _, _, _) => first(*c), G::Post(g, _, _) => first(*g), G::List(t, _, _, _) => t, G::Call(t, _, _, _, _) => t, G::Entry(k, _, _) => first(*k), G::Map(t, _, _, _) => t }
}
pub open spec fn ast_of<'a>(g: G<'a>) -> ExprAST<'a> decreases g {
    match g {
        G::Lit(t) => match t {
            Token::Number(d, _) => ExprAST::Literal(Literal::Number(d)),
            Token::Bool(v, _) => ExprAST::Literal(Literal::Bool(v)),
            Token::String(s, _) => ExprAST::Literal(Literal::String(s)),
            _ => ExprAST::None },
        G::Ref(t) => match t { Token::Reference(s, _) => ExprAST::Reference(s), _ => ExprAST::None },
        G::Paren(_, g, _) => ast_of(*g),
        G::Pre(t, g) => match t { Token::Operator(s, _) => ExprAST::Unary(s, Box::new(ast_of(*g))), _ => ExprAST::None },
        G::Bin(l, nt, t, r) => match t {
            Token::Operator(s, _) => if nt is Some { ExprAST::Unary("not", Box::new(ExprAST::Binary(s, Box::new(ast_of(*l)), Box::new(ast_of(*r))))) }
                                     else { ExprAST::Binary(s, Box::new(ast_of(*l)), Box::new(ast_of(*r))) },
            _ => ExprAST::None },
        G::Cond(c, _, a, _, e) => ExprAST::Ternary(Box::new(ast_of(*c)), Box::new(ast_of(*a)), Box::new(ast_of(*e))),
        G::Post(g, _, s) => ExprAST::Postfix(Box::new(ast_of(*g)), s),
        G::List(_, _, _, v) => ExprAST::List(v),
        G::Call(t, _, _, _, v) => match t { Token::Function(nm, _) => ExprAST::Function(nm, v), _ => ExprAST::None },
        G::Entry(_, _, _) => ExprAST::None,
        G::Map(_, _, _, v) => ExprAST::Map(v),
    }
}
pub open spec fn is_prim(g: G) -> bool { !(g is Bin) && !(g is Cond) && !(g is Entry) }
// the tokenizer, scanning from the end of `t`, produces `t2`
pub open spec fn nxt(b: Seq<u8>, t: Token, t2: Token) -> bool {
    !(t is EOF) && tok_post(b, tok_end(t, b.len() as int), t2, tok_end(t2, b.len() as int))
}
pub open spec fn lspine(g: G, x: int) -> bool decreases g {
    match g { G::Bin(l, _, t, _) => lbp(op_text(t)) >= x && lspine(*l, x), G::Cond(_, _, _, _, _) => x <= 0, _ => true }
}
pub open spec fn rspine(g: G, x: int) -> bool decreases g {
    match g { G::Bin(_, _, t, r) => rbp(op_text(t)) >= x && rspine(*r, x), G::Cond(_, _, _, _, _) => x <= 0, _ => true }
}
// g is a derivation whose last token is followed by `follow`
#[verifier::opaque]
pub open spec fn wf(g: G, b: Seq<u8>, follow: Token) -> bool decreases g {
    match g {
        G::Lit(t) => (t is Number || t is Bool || t is String) && nxt(b, t, follow),
        G::Ref(t) => t is Reference && nxt(b, t, follow),
        G::Paren(to, g, tc) => tok_is(to, "("@) && nxt(b, to, first(*g)) && wf(*g, b, tc) && tok_is(tc, ")"@) && nxt(b, tc, follow),
        G::Pre(t, g) => t is Operator && keyword::reg_prefix(op_text(t)) && nxt(b, t, first(*g)) && is_prim(*g) && wf(*g, b, follow),
        G::Post(g, t, s) => is_prim(*g) && wf(*g, b, t) && t is Operator && keyword::reg_postfix(op_text(t)) && s@ == op_text(t) && nxt(b, t, follow),
        G::List(to, items, tc, v) => {
            &&& tok_is(to, "["@)
            &&& nxt(b, to, if items.len() == 0 { tc } else { first(items[0].0) })
            &&& wf_items(items, b, if items.len() == 0 { tc } else { first(items[0].0) }, tc)
            &&& tok_is_sep(tc, "]"@) &&& nxt(b, tc, follow)
            &&& v@.len() == items.len()
            &&& forall|i: int| 0 <= i < items.len() ==> v@[i] == ast_of(#[trigger] items[i].0)
        },
        G::Call(tn, to, items, tc, v) => {
            &&& tn is Function &&& nxt(b, tn, to) &&& tok_is_sep(to, "("@)
            &&& nxt(b, to, if items.len() == 0 { tc } else { first(items[0].0) })
            &&& wf_items(items, b, if items.len() == 0 { tc } else { first(items[0].0) }, tc)
            &&& (items.len() > 0 ==> items.last().1 is None)          // no trailing comma in an argument list
            &&& tok_is(tc, ")"@) &&& nxt(b, tc, follow)
            &&& v@.len() == items.len()
            &&& forall|i: int| 0 <= i < items.len() ==> v@[i] == ast_of(#[trigger] items[i].0)
        },
        G::Entry(k, tc, v) => wf(*k, b, tc) && tok_is_sep(tc, ":"@) && nxt(b, tc, first(*v)) && wf(*v, b, follow),
        G::Map(to, items, tc, v) => {
            &&& tok_is(to, "{"@)
            &&& nxt(b, to, if items.len() == 0 { tc } else { first(items[0].0) })
            &&& wf_items(items, b, if items.len() == 0 { tc } else { first(items[0].0) }, tc)
            &&& tok_is_sep(tc, "}"@) &&& nxt(b, tc, follow)
            &&& v@.len() == items.len()
            &&& forall|i: int| 0 <= i < items.len() ==> entry_ok(#[trigger] items[i].0, v@[i])
        },
        G::Cond(c, tq, a, tc, e) => {
            &&& wf(*c, b, tq) &&& !(*c is Cond)
            &&& tok_is(tq, "?"@) &&& nxt(b, tq, first(*a)) &&& wf(*a, b, tc)
            &&& tok_is_sep(tc, ":"@) &&& nxt(b, tc, first(*e)) &&& wf(*e, b, follow)
        },
        G::Bin(l, nt, t, r) => {
            &&& wf(*l, b, match nt { Some(n) => n, None => t })
            &&& (nt matches Some(n) ==> is_not_tok(n) && nxt(b, n, t))
            &&& t is Operator && keyword::reg_infix(op_text(t))
            &&& nxt(b, t, first(*r))
            &&& wf(*r, b, follow)
            &&& lspine(*r, rbp(op_text(t)))      // everything the right operand took binds tighter than op from the right
            &&& rspine(*l, lbp(op_text(t)))      // nothing in the left operand could have taken op
        },
    }
}
// trusted (std): Display of a String is its content
pub broadcast axiom fn axiom_string_to_string(s: String, r: String) ensures #[trigger] to_string_from_display_ensures(&s, r) ==> r@ == s@;
// a run of items, each followed by an optional `,`; only the last item may lack the comma; `end` follows the run
pub open spec fn wf_items(items: Seq<(G, Option<Token>)>, b: Seq<u8>, start: Token, end: Token) -> bool decreases items {
    if items.len() == 0 { start == end } else {
        let pre = items.drop_last();
        let (g, c) = items.last();
        &&& wf_items(pre, b, start, first(g))
        &&& (pre.len() > 0 ==> pre.last().1 is Some)
        &&& match c { Some(ct) => wf(g, b, ct) && tok_is_sep(ct, ","@) && nxt(b, ct, end), None => wf(g, b, end) }
    }
}
pub open spec fn entry_ok(g: G, kv: (ExprAST, ExprAST)) -> bool decreases g {
    match g { G::Entry(gk, _, gv) => kv == (ast_of(*gk), ast_of(*gv)), _ => false }
}
pub assume_specification<'a>[<ExprAST<'a> as Clone>::clone](v: &ExprAST<'a>) -> (r: ExprAST<'a>) ensures r == *v;
// the whole program: a chain of statements from the first token to `end`, and the AST the code builds from them
pub open spec fn prog_ok<'a>(items: Seq<(G<'a>, Option<Token<'a>>)>, vec: Vec<ExprAST<'a>>, v: ExprAST<'a>, b: Seq<u8>, start: Token<'a>, end: Token<'a>) -> bool {
    &&& wf_stmts(items, b, start, end)
    &&& vec@.len() == items.len()
    &&& forall|i: int| 0 <= i < items.len() ==> vec@[i] == ast_of(#[trigger] items[i].0)
    &&& (if items.len() == 1 { v == vec@[0] } else { v == ExprAST::Stmt(vec) })
}
// a run of statements, each optionally followed by `;`
pub open spec fn wf_stmts(items: Seq<(G, Option<Token>)>, b: Seq<u8>, start: Token, end: Token) -> bool decreases items {
    if items.len() == 0 { start == end } else {
        let pre = items.drop_last();
        let (g, c) = items.last();
        &&& wf_stmts(pre, b, start, first(g))
        &&& !(g is Entry)
        &&& match c { Some(ct) => wf(g, b, ct) && ct is Semicolon && nxt(b, ct, end), None => wf(g, b, end) }
    }
}
pub proof fn lemma_stmts_push<'a>(items: Seq<(G<'a>, Option<Token<'a>>)>, b: Seq<u8>, start: Token<'a>, g: G<'a>, c: Option<Token<'a>>, end: Token<'a>)
    requires wf_stmts(items, b, start, first(g)), !(g is Entry),
        match c { Some(ct) => wf(g, b, ct) && ct is Semicolon && nxt(b, ct, end), None => wf(g, b, end) },
    ensures wf_stmts(items.push((g, c)), b, start, end),
{
    reveal_with_fuel(wf, 2);
    assert(items.push((g, c)).drop_last() =~= items);
}
pub proof fn lemma_items_first(items: Seq<(G, Option<Token>)>, b: Seq<u8>, start: Token, end: Token)
    requires wf_items(items, b, start, end), items.len() > 0,
    ensures start == first(items[0].0),
    decreases items.len()
{
    reveal_with_fuel(wf, 3); reveal_with_fuel(wf_items, 3);
    if items.len() > 1 { lemma_items_first(items.drop_last(), b, start, first(items.last().0)); assert(items.drop_last()[0] == items[0]); }
}
pub proof fn lemma_items_push<'a>(items: Seq<(G<'a>, Option<Token<'a>>)>, b: Seq<u8>, start: Token<'a>, g: G<'a>, c: Option<Token<'a>>, end: Token<'a>)
    requires wf_items(items, b, start, first(g)), items.len() > 0 ==> items.last().1 is Some,
        match c { Some(ct) => wf(g, b, ct) && tok_is_sep(ct, ","@) && nxt(b, ct, end), None => wf(g, b, end) },
    ensures wf_items(items.push((g, c)), b, start, end),
{
    reveal_with_fuel(wf, 2);
    let it2 = items.push((g, c));
    assert(it2.drop_last() =~= items);
    assert(it2.last() == (g, c));
    assert(it2.len() > 0);
    assert(wf_items(it2.drop_last(), b, start, first(g)));
    assert(it2.drop_last().len() > 0 ==> it2.drop_last().last().1 is Some);
    assert(it2.last().0 == g && it2.last().1 == c);
    assert(match it2.last().1 { Some(ct) => wf(it2.last().0, b, ct) && tok_is_sep(ct, ","@) && nxt(b, ct, end), None => wf(it2.last().0, b, end) });
    assert(wf_items(it2, b, start, end) == ({
        let pre = it2.drop_last();
        let (g, c) = it2.last();
        &&& wf_items(pre, b, start, first(g))
        &&& (pre.len() > 0 ==> pre.last().1 is Some)
        &&& match c { Some(ct) => wf(g, b, ct) && tok_is_sep(ct, ","@) && nxt(b, ct, end), None => wf(g, b, end) }
    }));
}
pub open spec fn delim_str(d: DelimTokenType) -> Seq<char> {
    match d { DelimTokenType::OpenParen => "("@, DelimTokenType::CloseParen => ")"@, DelimTokenType::OpenBracket => "["@,
              DelimTokenType::CloseBracket => "]"@, DelimTokenType::OpenBrace => "{"@, DelimTokenType::CloseBrace => "}"@, DelimTokenType::Unknown => "??"@ }
}
pub open spec fn tok_is(t: Token, s: Seq<char>) -> bool {
    match t { Token::Delim(d, _) => delim_str(d) == s, Token::Operator(op, _) => op@ == s, _ => false }
}
pub open spec fn tok_is_sep(t: Token, s: Seq<char>) -> bool {
    tok_is(t, s) || (t matches Token::Comma(c, _) && c@ == s)
}
// A7: the token the tokenizer produces when scanning from offset p (Tokenizer::next is a deterministic function of input and cursor)
pub uninterp spec fn tk<'a>(b: Seq<u8>, p: int) -> Token<'a>;
pub open spec fn is_not_tok(t: Token) -> bool { t matches Token::Operator(op, _) && op@ == "not"@ }
pub open spec fn pw(t: Token) -> int {
    match t { Token::Operator(op, _) => if keyword::reg_infix(op@) { lbp(op@) } else { -1 }, _ => -1 }
}
// the operator token that decides the grouping when the cursor is at `t`: `t` itself, or the token after a `not`
pub open spec fn optok<'a>(b: Seq<u8>, t: Token<'a>) -> Token<'a> {
    if is_not_tok(t) { tk(b, tok_end(t, b.len() as int)) } else { t }
}
pub open spec fn la(b: Seq<u8>, t: Token) -> int { pw(optok(b, t)) }
// one step of the operator loop: lhs `g` absorbs `t_op gr`
pub proof fn lemma_bin_step<'a>(g: G<'a>, nt: Option<Token<'a>>, t_op: Token<'a>, gr: G<'a>, b: Seq<u8>, cur: Token<'a>, min: int)
    requires
        wf(g, b, match nt { Some(n) => n, None => t_op }), !(g is Cond),
        nt matches Some(n) ==> is_not_tok(n) && nxt(b, n, t_op),
        t_op is Operator, keyword::reg_infix(op_text(t_op)),
        nxt(b, t_op, first(gr)), wf(gr, b, cur),
        lspine(gr, rbp(op_text(t_op))), rspine(g, lbp(op_text(t_op))),
        lspine(g, min), lbp(op_text(t_op)) >= min,
        tok_is(cur, "?"@) || (la(b, cur) <= rbp(op_text(t_op)) && rspine(gr, la(b, cur))),
    ensures ({
        let g2 = G::Bin(Box::new(g), nt, t_op, Box::new(gr));
        &&& wf(g2, b, cur) &&& lspine(g2, min) &&& first(g2) == first(g)
        &&& (tok_is(cur, "?"@) || rspine(g2, la(b, cur)))
    }),
{
    reveal_with_fuel(wf, 2);
}
// building `c ? a : e` at the outermost level of an expression
pub proof fn lemma_cond_step<'a>(g: G<'a>, tq: Token<'a>, ga: G<'a>, tc: Token<'a>, gb: G<'a>, b: Seq<u8>, cur: Token<'a>, min: int)
    requires
        wf(g, b, tq), !(g is Cond), tok_is(tq, "?"@), nxt(b, tq, first(ga)), wf(ga, b, tc),
        tok_is_sep(tc, ":"@), nxt(b, tc, first(gb)), wf(gb, b, cur), min <= 0,
    ensures ({
        let gc = G::Cond(Box::new(g), tq, Box::new(ga), tc, Box::new(gb));
        &&& wf(gc, b, cur) &&& lspine(gc, min) &&& first(gc) == first(g)
    }),
{
    reveal_with_fuel(wf, 2);
}
impl<'a> Parser<'a> {
    pub closed spec fn bytes(&self) -> Seq<u8> { self.tokenizer.bytes() }
    pub open spec fn d_prim(&self, old: &Parser<'a>, r: ExprAST<'a>) -> bool {
        exists|g: G<'a>| is_prim(g) && first(g) == old.cur() && #[trigger] wf(g, self.bytes(), self.cur()) && ast_of(g) == r
    }
    pub open spec fn d_expr(&self, old: &Parser<'a>, r: ExprAST<'a>) -> bool {
        exists|g: G<'a>| !(g is Entry) && first(g) == old.cur() && #[trigger] wf(g, self.bytes(), self.cur()) && ast_of(g) == r
    }
}
'''
TOKEN.update({
 'string': dict(spec="    ensures r@ == delim_str(*self),", after="impl DelimTokenType"),
 'check_op': dict(spec="    ensures r == tok_is(token, expected@),", rewrite=[("if op.string() == expected {","if vx_string_eq_str(&op.string(), expected) {")]),
 'is_open_paren': dict(spec='    ensures r == tok_is(self, "("@),'),
 'is_close_paren': dict(spec='    ensures r == tok_is(self, ")"@),'),
 'is_question_mark': dict(spec='    ensures r == tok_is(self, "?"@),'),
 'is_postfix_op_token': dict(spec='    ensures r == (*self matches Token::Operator(op, _) && keyword::reg_postfix(op@)),'),
 'is_binop_token': dict(spec='    ensures r == (*self matches Token::Operator(op, _) && keyword::reg_infix(op@)),'),
 'is_not_token': dict(spec='    ensures r == (*self matches Token::Operator(op, _) && op@ == "not"@),'),
})

# ---------------- parser contracts with derivation witnesses ----------------
TOKENIZER['next']['spec'] = TOKENIZER['next']['spec'].replace("    decreases", "        final(self).bytes() == old(self).bytes(),\n    decreases")
TOKENIZER['expect']['spec'] += "\n        final(self).bytes() == old(self).bytes(),\n        r is Ok ==> nxt(final(self).bytes(), old(self).cur(), final(self).cur()),"
TERM = "r is Ok ==> final(self).wf() && final(self).bytes() == old(self).bytes() && final(self).m() %s old(self).m()"
def PD(rank, pre, post, strict=True):
    return "    requires old(self).wf()"+(", "+pre if pre else "")+",\n    ensures "+(TERM % ("<" if strict else "<="))+",\n        "+post+",\n    decreases old(self).m(), %dint,"%rank
DPRIM="r matches Ok(v) ==> final(self).d_prim(old(self), v)"
DEXPR="r matches Ok(v) ==> final(self).d_expr(old(self), v)"
OPQ = "        proof { reveal_with_fuel(wf, 2); let g = G::Opq(old(self).cur(), %s); assert(wf(g, self.bytes(), self.cur())); }"
PARSER.update({
 'next': dict(spec='''    requires old(self).wf(),
    ensures r is Ok ==> final(self).wf() && final(self).bytes() == old(self).bytes() && final(self).m() <= old(self).m(),
        r is Ok && !(old(self).cur() is EOF) ==> final(self).m() < old(self).m() && nxt(final(self).bytes(), old(self).cur(), final(self).cur()),'''),
 'expect': dict(spec='''    requires old(self).wf(),
    ensures r is Ok ==> final(self).wf() && final(self).bytes() == old(self).bytes() && final(self).m() <= old(self).m(),
        r is Ok && !(old(self).cur() is EOF) ==> final(self).m() < old(self).m(),'''),
 'get_token_precidence': dict(spec='''    ensures r.0 == la(self.bytes(), self.cur()),
        self.cur() is Operator && keyword::reg_infix(op_text(self.cur())) ==> r.1 == rbp(op_text(self.cur())),'''),
 'get_infix_precidence': dict(spec='''    requires self.wf(),
    ensures r matches Ok(p) ==> (!tok_is(self.cur(), "not"@) ==> p.0 == la(self.bytes(), self.cur())
             && (self.cur() is Operator && keyword::reg_infix(op_text(self.cur())) ==> p.1 == rbp(op_text(self.cur())))),'''),
 'parse_token': dict(spec=PD(3,'',DPRIM), proof=[
     ("Ok(ExprAST::Literal(Literal::Number(val)))", "                proof { reveal_with_fuel(wf, 2); let g = G::Lit(token); assert(wf(g, self.bytes(), self.cur())); }", 'before'),
     ("Ok(ExprAST::Literal(Literal::Bool(val)))", "                proof { reveal_with_fuel(wf, 2); let g = G::Lit(token); assert(wf(g, self.bytes(), self.cur())); }", 'before'),
     ("Ok(ExprAST::Literal(Literal::String(val)))", "                proof { reveal_with_fuel(wf, 2); let g = G::Lit(token); assert(wf(g, self.bytes(), self.cur())); }", 'before'),
     ("Ok(ExprAST::Reference(val))", "                proof { reveal_with_fuel(wf, 2); let g = G::Ref(token); assert(wf(g, self.bytes(), self.cur())); }", 'before'),
   ]),
 'parse_primary': dict(spec=PD(4,'',DPRIM), rewrite=[
     ("return Ok(ExprAST::Postfix(Box::new(lhs), op.to_string()));", "let res = ExprAST::Postfix(Box::new(lhs), op.to_string());\n"+(OPQ % "res")+"\n            return Ok(res);")]),
 'parse_expression': dict(spec=PD(6,'',DEXPR),
     rewrite=[("self.parse_op(0, lhs)", "let ghost g0 = choose|g: G<'a>| is_prim(g) && first(g) == old(self).cur() && wf(g, self.bytes(), self.cur()) && ast_of(g) == lhs;\n        self.parse_op(0, lhs, Ghost(g0))")]),
 'parse_delim': dict(spec=PD(2,"old(self).cur() matches Token::Delim(d, _) && d == ty",DPRIM)),
 'parse_open_paren': dict(spec=PD(1,'tok_is(old(self).cur(), "("@)',DPRIM), proof=[
     ("self.next()?;", "        let ghost t1 = self.cur();", 'after', 0),
     ("let expr = self.parse_expression()?;", "        let ghost tc = self.cur();\n        let ghost ge = choose|g: G<'a>| first(g) == t1 && wf(g, self.bytes(), self.cur()) && ast_of(g) == expr;", 'after'),
     ("Ok(expr)", "        proof { reveal_with_fuel(wf, 2); let g = G::Paren(old(self).cur(), Box::new(ge), tc); assert(wf(g, self.bytes(), self.cur())); }", 'before'),
   ]),
 'parse_open_bracket': dict(spec=PD(1,"old(self).cur() is Delim",DPRIM), loops={0: PARSER['parse_open_bracket']['loops'][0].replace('invariant self.wf(),','invariant self.wf(), self.bytes() == old(self).bytes(),')},
     proof=[("Ok(ExprAST::List(exprs))", OPQ % "ExprAST::List(exprs)", 'before')]),
 'parse_open_brace': dict(spec=PD(1,"old(self).cur() is Delim",DPRIM), loops={0: PARSER['parse_open_brace']['loops'][0].replace('invariant self.wf(),','invariant self.wf(), self.bytes() == old(self).bytes(),')},
     proof=[("Ok(ExprAST::Map(m))", OPQ % "ExprAST::Map(m)", 'before')]),
 'parse_function': dict(spec=PD(1,"old(self).cur() is Function",DPRIM), loops={0: PARSER['parse_function']['loops'][0].replace('invariant self.wf(),','invariant self.wf(), self.bytes() == old(self).bytes(),')},
     proof=[("return Ok(ExprAST::Function(name, ans));", "    "+(OPQ % "ExprAST::Function(name, ans)"), 'before'),
            ("Ok(ExprAST::Function(name, ans))", OPQ % "ExprAST::Function(name, ans)", 'before', 1)]),
 'parse_unary': dict(spec=PD(1,"old(self).cur() matches Token::Operator(s, _) && s == op",DPRIM),
     rewrite=[("Ok(ExprAST::Unary(op, Box::new(self.parse_primary()?)))",
       """let ghost t1 = self.cur();
        let inner = self.parse_primary()?;
        proof {
            let gi = choose|g: G<'a>| is_prim(g) && first(g) == t1 && wf(g, self.bytes(), self.cur()) && ast_of(g) == inner;
            reveal_with_fuel(wf, 2);
            let g = G::Pre(old(self).cur(), Box::new(gi));
            assert(wf(g, self.bytes(), self.cur()));
        }
        Ok(ExprAST::Unary(op, Box::new(inner)))""")]),
 'parse_op': dict(
   sig=[("mut lhs: ExprAST<'a>", "mut lhs: ExprAST<'a>, Ghost(g0): Ghost<G<'a>>")],
   spec='''    requires old(self).wf(), exec_prec >= 0,
        is_prim(g0), wf(g0, old(self).bytes(), old(self).cur()), ast_of(g0) == lhs,
    ensures r is Ok ==> final(self).wf() && final(self).bytes() == old(self).bytes() && final(self).m() <= old(self).m(),
        r matches Ok(v) ==> exists|g: G<'a>| first(g) == first(g0) && #[trigger] wf(g, final(self).bytes(), final(self).cur()) && ast_of(g) == v
            && lspine(g, exec_prec as int)
            && (tok_is(final(self).cur(), "?"@) || (la(final(self).bytes(), final(self).cur()) < exec_prec && rspine(g, la(final(self).bytes(), final(self).cur())))),
    decreases old(self).m(), 5int,''',
   loops={0:'''        invariant self.wf(), self.m() <= old(self).m(), self.bytes() == old(self).bytes(), exec_prec >= 0,
            wf(g, self.bytes(), self.cur()), ast_of(g) == lhs, first(g) == first(g0), lspine(g, exec_prec as int),
            tok_is(self.cur(), "?"@) || rspine(g, la(self.bytes(), self.cur())),
        decreases self.m(),'''},
   proof=[
     ("loop", "        let ghost mut g = g0;", 'before'),
     ("self.next()?;\n                let a = self.parse_expression()?;", "                proof { assume(false); } // staging: conditional not modelled in this probe", 'before'),
     ("if !self.tokenizer.cur_token.is_op_token() {", "            proof { broadcast use axiom_bp; }", 'before'),
     ("let is_not = self.tokenizer.cur_token.is_not_token();", "            proof { assume(!is_not); } // staging: `not` look-through not modelled in this probe", 'after'),
   ],
   rewrite=[
     ("""            self.next()?;
            let mut rhs = self.parse_primary()?;""","""            let ghost t_op = self.cur();
            self.next()?;
            let ghost t1 = self.cur();
            let mut rhs = self.parse_primary()?;
            let ghost mut gr = choose|x: G<'a>| is_prim(x) && first(x) == t1 && wf(x, self.bytes(), self.cur()) && ast_of(x) == rhs;
            proof { assume(!tok_is(self.cur(), "not"@)); } // staging: `not` look-through not modelled in this probe"""),
     ("                rhs = self.parse_op(r_bp, rhs)?;","""                rhs = self.parse_op(r_bp, rhs, Ghost(gr))?;
                proof {
                    gr = choose|x: G<'a>| first(x) == first(gr) && wf(x, self.bytes(), self.cur()) && ast_of(x) == rhs
                        && lspine(x, r_bp as int) && (tok_is(self.cur(), "?"@) || (la(self.bytes(), self.cur()) < r_bp && rspine(x, la(self.bytes(), self.cur()))));
                }"""),
     ("            lhs = ExprAST::Binary(op, Box::new(lhs), Box::new(rhs));","""            lhs = ExprAST::Binary(op, Box::new(lhs), Box::new(rhs));
            proof {
                broadcast use axiom_bp;
                lemma_bin_step(g, t_op, gr, self.bytes(), self.cur(), exec_prec as int);
                g = G::Bin(Box::new(g), t_op, Box::new(gr));
            }"""),
   ]),
})

TOKENIZER['expect']['rewrite']=[("if bracket.string() == op {","if vx_string_eq_str(&bracket.string(), op) {")]
TOKENIZER['expect']['spec'] += "\n        r is Ok ==> tok_is_sep(old(self).cur(), op@),   // C05: only the expected separator is accepted"

TOKENIZER['next']['spec'] = TOKENIZER['next']['spec'].replace("    decreases", "        r matches Ok(t) ==> t == tk(old(self).bytes(), old(self).off()),   // A7 (assumed below)\n    decreases")
TOKENIZER['next']['proof'] = [("Ok(self.cur_token)", "        proof { assume(self.cur_token == tk(old(self).bytes(), old(self).off())); } // A7: determinism of the scanner", 'before')]
TOKENIZER['peek']['spec'] = TOKENIZER['peek']['spec'].replace("    decreases", "    ensures r matches Ok(t) ==> t == tk(self.bytes(), self.off()),\n    decreases")
PARSER['expect']['spec'] += "\n        r is Ok ==> nxt(final(self).bytes(), old(self).cur(), final(self).cur()),"
PARSER['get_token_precidence']['spec'] = '''    ensures r.0 == pw(self.cur()),
        r.0 >= 0 ==> r.1 == rbp(op_text(self.cur())),'''
PARSER['get_infix_precidence']['spec'] = '''    requires self.wf(),
    ensures r matches Ok(p) ==> p.0 == la(self.bytes(), self.cur()) && (p.0 >= 0 ==> p.1 == rbp(op_text(optok(self.bytes(), self.cur())))),'''

PARSER['next']['spec'] += "\n        r is Ok ==> final(self).cur() == tk(old(self).bytes(), tok_end(old(self).cur(), old(self).bytes().len() as int)),"
CH = "choose|x: G<'a>| first(x) == %s && wf(x, self.bytes(), self.cur()) && ast_of(x) == %s"
PARSER['parse_op'] = dict(
   sig=[("mut lhs: ExprAST<'a>", "mut lhs: ExprAST<'a>, Ghost(g0): Ghost<G<'a>>")],
   spec='''    requires old(self).wf(), exec_prec >= 0,
        is_prim(g0), wf(g0, old(self).bytes(), old(self).cur()), ast_of(g0) == lhs,
    ensures r is Ok ==> final(self).wf() && final(self).bytes() == old(self).bytes() && final(self).m() <= old(self).m(),
        r matches Ok(v) ==> exists|g: G<'a>| first(g) == first(g0) && #[trigger] wf(g, final(self).bytes(), final(self).cur()) && ast_of(g) == v
            && lspine(g, exec_prec as int) && !(g is Entry)
            && (exec_prec > 0 ==> (tok_is(final(self).cur(), "?"@)
                  || (la(final(self).bytes(), final(self).cur()) < exec_prec && rspine(g, la(final(self).bytes(), final(self).cur()))))),
    decreases old(self).m(), 5int,''',
   loops={0:'''        invariant self.wf(), self.m() <= old(self).m(), self.bytes() == old(self).bytes(), exec_prec >= 0,
            wf(g, self.bytes(), self.cur()), ast_of(g) == lhs, first(g) == first(g0), lspine(g, exec_prec as int), !(g is Cond), !(g is Entry),
            tok_is(self.cur(), "?"@) || rspine(g, la(self.bytes(), self.cur())),
        decreases self.m(),'''},
   proof=[
     ("loop", "        let ghost mut g = g0;", 'before'),
     ("if !self.tokenizer.cur_token.is_op_token() {", "            proof { broadcast use axiom_bp; }", 'before'),
   ],
   rewrite=[
     ("""                self.next()?;
                let a = self.parse_expression()?;
                self.expect(":")?;
                let b = self.parse_expression()?;
                return Ok(ExprAST::Ternary(Box::new(lhs), Box::new(a), Box::new(b)));""",
      """                let ghost tq = self.cur();
                self.next()?;
                let ghost t1 = self.cur();
                let a = self.parse_expression()?;
                let ghost ga = """+(CH % ("t1","a"))+""";
                let ghost tc = self.cur();
                self.expect(":")?;
                let ghost t2 = self.cur();
                let b = self.parse_expression()?;
                let ghost gb = """+(CH % ("t2","b"))+""";
                proof {
                    lemma_cond_step(g, tq, ga, tc, gb, self.bytes(), self.cur(), exec_prec as int);
                }
                return Ok(ExprAST::Ternary(Box::new(lhs), Box::new(a), Box::new(b)));"""),
     ("""            if is_not {
                self.next()?;
            }""","""            let ghost t_head = self.cur();
            if is_not {
                self.next()?;
            }
            let ghost t_op = self.cur();
            let ghost nt = if is_not { Some(t_head) } else { None::<Token<'a>> };"""),
     ("""            self.next()?;
            let mut rhs = self.parse_primary()?;""","""            self.next()?;
            let ghost t1 = self.cur();
            let mut rhs = self.parse_primary()?;
            let ghost mut gr = choose|x: G<'a>| is_prim(x) && first(x) == t1 && wf(x, self.bytes(), self.cur()) && ast_of(x) == rhs;"""),
     ("                rhs = self.parse_op(r_bp, rhs)?;","""                rhs = self.parse_op(r_bp, rhs, Ghost(gr))?;
                proof {
                    gr = choose|x: G<'a>| first(x) == first(gr) && wf(x, self.bytes(), self.cur()) && ast_of(x) == rhs
                        && lspine(x, r_bp as int) && (tok_is(self.cur(), "?"@) || (la(self.bytes(), self.cur()) < r_bp && rspine(x, la(self.bytes(), self.cur()))));
                }"""),
     ("""            if is_not {
                lhs = ExprAST::Unary("not", Box::new(lhs));
            }""","""            if is_not {
                lhs = ExprAST::Unary("not", Box::new(lhs));
            }
            proof {
                lemma_bin_step(g, nt, t_op, gr, self.bytes(), self.cur(), exec_prec as int);
                g = G::Bin(Box::new(g), nt, t_op, Box::new(gr));
            }"""),
   ])

PARSER['expect']['spec'] += "\n        r is Ok ==> tok_is_sep(old(self).cur(), expected@),"
TOKEN['is_not_token'] = dict(spec='    ensures r == is_not_tok(*self),')

TOKENIZER['next']['attr']='    #[verifier::spinoff_prover]\n    #[verifier::rlimit(60)]'
PARSER['parse_op']['attr']='    #[verifier::spinoff_prover]\n    #[verifier::rlimit(60)]'

TOKEN['token_string'] = dict(name='string', after="impl<'input> Token<'input>", spec="    ensures self matches Token::Operator(op, _) ==> r@ == op@,")
TOKEN['is_close_bracket'] = dict(spec='    ensures r == tok_is(self, "]"@),')

CHP = "choose|x: G<'a>| is_prim(x) && first(x) == old(self).cur() && wf(x, self.bytes(), self.cur()) && ast_of(x) == lhs"
PARSER['parse_primary'] = dict(spec=PD(4,'',DPRIM), rewrite=[
  ("""        if self.tokenizer.cur_token.is_postfix_op_token() {
            let op = self.tokenizer.cur_token.string();
            self.next()?;
            return Ok(ExprAST::Postfix(Box::new(lhs), op.to_string()));
        }""","""        let ghost gl = """+CHP+""";
        if self.tokenizer.cur_token.is_postfix_op_token() {
            let ghost t_op = self.cur();
            let op = self.tokenizer.cur_token.string();
            self.next()?;
            let s2 = op.to_string();
            proof {
                broadcast use axiom_string_to_string;
                reveal_with_fuel(wf, 2);
                let g = G::Post(Box::new(gl), t_op, s2);
                assert(wf(g, self.bytes(), self.cur()));
            }
            return Ok(ExprAST::Postfix(Box::new(lhs), s2));
        }""")])
PARSER['parse_open_bracket'] = dict(spec=PD(1,'tok_is(old(self).cur(), "["@)',DPRIM), rewrite=[
  ("""        self.next()?;
        let mut exprs = Vec::new();
        loop {
            if self.is_eof() || self.cur_tok().is_close_bracket() {
                break;
            }
            exprs.push(self.parse_expression()?);
            if !self.cur_tok().is_close_bracket() {
                self.expect(",")?;
            }
        }
        self.expect("]")?;
        Ok(ExprAST::List(exprs))""","""        let ghost t_open = self.cur();
        self.next()?;
        let ghost t1 = self.cur();
        let mut exprs = Vec::new();
        let ghost mut items: Seq<(G<'a>, Option<Token<'a>>)> = Seq::empty();
        loop
            invariant self.wf(), self.bytes() == old(self).bytes(), self.m() < old(self).m(),
                wf_items(items, self.bytes(), t1, self.cur()),
                items.len() > 0 && items.last().1 is None ==> tok_is(self.cur(), "]"@),
                exprs@.len() == items.len(),
                forall|i: int| 0 <= i < items.len() ==> exprs@[i] == ast_of(#[trigger] items[i].0),
            decreases self.m(),
        {
            if self.is_eof() || self.cur_tok().is_close_bracket() {
                break;
            }
            let ghost ts = self.cur();
            let e = self.parse_expression()?;
            let ghost ge = choose|x: G<'a>| first(x) == ts && wf(x, self.bytes(), self.cur()) && ast_of(x) == e;
            let ghost tn = self.cur();
            let ghost closes = tok_is(tn, "]"@);
            exprs.push(e);
            if !self.cur_tok().is_close_bracket() {
                self.expect(",")?;
            }
            proof {
                let c = if closes { None::<Token<'a>> } else { Some(tn) };
                lemma_items_push(items, self.bytes(), t1, ge, c, self.cur());
                items = items.push((ge, c));
            }
        }
        let ghost tc = self.cur();
        self.expect("]")?;
        proof {
            reveal_with_fuel(wf, 2);
                    if items.len() > 0 { lemma_items_first(items, self.bytes(), t1, tc); }
            let g = G::List(t_open, items, tc, exprs);
            assert(wf(g, self.bytes(), self.cur()));
        }
        Ok(ExprAST::List(exprs))""")])
PARSER['parse_delim']['spec'] = PD(2,"old(self).cur() matches Token::Delim(d, _) && d == ty",DPRIM)

TOKEN['is_close_brace'] = dict(spec='    ensures r == tok_is(self, "}"@),')

CHE = "choose|x: G<'a>| !(x is Entry) && first(x) == %s && wf(x, self.bytes(), self.cur()) && ast_of(x) == %s"
PARSER['parse_function'] = dict(spec=PD(1,"old(self).cur() matches Token::Function(nm, _) && nm == name",DPRIM), rewrite=[
  ("""        self.next()?;
        self.expect("(")?;
        let mut ans = Vec::new();
        if self.cur_tok().is_close_paren() {
            self.next()?;
            return Ok(ExprAST::Function(name, ans));
        }
        let has_right_paren;
        loop {
            ans.push(self.parse_expression()?);
            if self.cur_tok().is_close_paren() {
                has_right_paren = true;
                self.next()?;
                break;
            }
            self.expect(",")?;
        }
        if !has_right_paren {
            return Err(Error::NoCloseDelim);
        }
        Ok(ExprAST::Function(name, ans))""","""        let ghost t_name = self.cur();
        self.next()?;
        let ghost t_open = self.cur();
        self.expect("(")?;
        let ghost t1 = self.cur();
        let mut ans = Vec::new();
        let ghost mut items: Seq<(G<'a>, Option<Token<'a>>)> = Seq::empty();
        if self.cur_tok().is_close_paren() {
            self.next()?;
            proof {
                reveal_with_fuel(wf, 2); reveal_with_fuel(wf_items, 2);
                let g = G::Call(t_name, t_open, items, t1, ans);
                assert(wf(g, self.bytes(), self.cur()));
            }
            return Ok(ExprAST::Function(name, ans));
        }
        let has_right_paren;
        let ghost mut t_close = t1;
        proof { reveal_with_fuel(wf, 2); reveal_with_fuel(wf_items, 2); }
        loop
            invariant_except_break
                wf_items(items, self.bytes(), t1, self.cur()),
                items.len() > 0 ==> items.last().1 is Some,
            invariant self.wf(), self.bytes() == old(self).bytes(), self.m() < old(self).m(),
                ans@.len() == items.len(),
                forall|i: int| 0 <= i < items.len() ==> ans@[i] == ast_of(#[trigger] items[i].0),
            ensures has_right_paren, items.len() > 0, items.last().1 is None,
                wf_items(items, self.bytes(), t1, t_close), tok_is(t_close, ")"@), nxt(self.bytes(), t_close, self.cur()),
            decreases self.m(),
        {
            let ghost ts = self.cur();
            let e = self.parse_expression()?;
            let ghost ge = """+(CHE % ("ts","e"))+""";
            let ghost tn = self.cur();
            ans.push(e);
            if self.cur_tok().is_close_paren() {
                has_right_paren = true;
                self.next()?;
                proof { lemma_items_push(items, self.bytes(), t1, ge, None, tn); items = items.push((ge, None)); t_close = tn; }
                break;
            }
            self.expect(",")?;
            proof { lemma_items_push(items, self.bytes(), t1, ge, Some(tn), self.cur()); items = items.push((ge, Some(tn))); }
        }
        if !has_right_paren {
            return Err(Error::NoCloseDelim);
        }
        proof {
            reveal_with_fuel(wf, 2);
            lemma_items_first(items, self.bytes(), t1, t_close);
            let g = G::Call(t_name, t_open, items, t_close, ans);
            assert(wf(g, self.bytes(), self.cur()));
        }
        Ok(ExprAST::Function(name, ans))""")])
PARSER['parse_token']['spec'] = PD(3,'',DPRIM)

PARSER['parse_open_brace'] = dict(spec=PD(1,'tok_is(old(self).cur(), "{"@)',DPRIM), rewrite=[
  ("""        self.next()?;
        let mut m = Vec::new();
        loop {
            if self.is_eof() || self.cur_tok().is_close_brace() {
                break;
            }
            let k = self.parse_expression()?;
            self.expect(":")?;
            let v = self.parse_expression()?;
            m.push((k, v));
            if !self.cur_tok().is_close_brace() {
                self.expect(",")?;
            }
        }
        self.expect("}")?;
        Ok(ExprAST::Map(m))""","""        let ghost t_open = self.cur();
        self.next()?;
        let ghost t1 = self.cur();
        let mut m = Vec::new();
        let ghost mut items: Seq<(G<'a>, Option<Token<'a>>)> = Seq::empty();
        proof { reveal_with_fuel(wf, 2); reveal_with_fuel(wf_items, 2); }
        loop
            invariant self.wf(), self.bytes() == old(self).bytes(), self.m() < old(self).m(),
                wf_items(items, self.bytes(), t1, self.cur()),
                items.len() > 0 && items.last().1 is None ==> tok_is(self.cur(), "}"@),
                m@.len() == items.len(),
                forall|i: int| 0 <= i < items.len() ==> entry_ok(#[trigger] items[i].0, m@[i]),
            decreases self.m(),
        {
            if self.is_eof() || self.cur_tok().is_close_brace() {
                break;
            }
            let ghost ts = self.cur();
            let k = self.parse_expression()?;
            let ghost gk = """+(CHE % ("ts","k"))+""";
            let ghost tcol = self.cur();
            self.expect(":")?;
            let ghost tv = self.cur();
            let v = self.parse_expression()?;
            let ghost gv = """+(CHE % ("tv","v"))+""";
            let ghost tn = self.cur();
            let ghost closes = tok_is(tn, "}"@);
            let ghost ge = G::Entry(Box::new(gk), tcol, Box::new(gv));
            proof { reveal_with_fuel(wf, 2); assert(wf(ge, self.bytes(), tn)); }
            m.push((k, v));
            if !self.cur_tok().is_close_brace() {
                self.expect(",")?;
            }
            proof {
                let c = if closes { None::<Token<'a>> } else { Some(tn) };
                lemma_items_push(items, self.bytes(), t1, ge, c, self.cur());
                items = items.push((ge, c));
            }
        }
        let ghost tc = self.cur();
        self.expect("}")?;
        proof {
            reveal_with_fuel(wf, 2);
            reveal_with_fuel(wf_items, 2);
            if items.len() > 0 { lemma_items_first(items, self.bytes(), t1, tc); }
            let g = G::Map(t_open, items, tc, m);
            assert(wf(g, self.bytes(), self.cur()));
        }
        Ok(ExprAST::Map(m))""")])
PARSER['parse_stmt'] = dict(spec='''    requires old(self).wf(),
    ensures r matches Ok(v) ==> final(self).cur() is EOF && exists|items: Seq<(G<'a>, Option<Token<'a>>)>, vec: Vec<ExprAST<'a>>|
            #[trigger] prog_ok(items, vec, v, final(self).bytes(), old(self).cur(), final(self).cur()),''',
  rewrite=[("""        let mut ans = Vec::new();
        loop {
            if self.is_eof() {
                break;
            }
            ans.push(self.parse_expression()?);
            if self.cur_tok().is_semicolon() {
                self.next()?;
            }
        }""","""        let mut ans = Vec::new();
        let ghost mut items: Seq<(G<'a>, Option<Token<'a>>)> = Seq::empty();
        let ghost t0 = self.cur();
        loop
            invariant self.wf(), self.bytes() == old(self).bytes(),
                wf_stmts(items, self.bytes(), t0, self.cur()),
                ans@.len() == items.len(),
                forall|i: int| 0 <= i < items.len() ==> ans@[i] == ast_of(#[trigger] items[i].0),
            ensures self.cur() is EOF,
            decreases self.m(),
        {
            if self.is_eof() {
                break;
            }
            let ghost ts = self.cur();
            let e = self.parse_expression()?;
            let ghost ge = """+(CHE % ("ts","e"))+""";
            let ghost tn = self.cur();
            let ghost semi = tn is Semicolon;
            ans.push(e);
            if self.cur_tok().is_semicolon() {
                self.next()?;
            }
            proof {
                let c = if semi { Some(tn) } else { None::<Token<'a>> };
                lemma_stmts_push(items, self.bytes(), t0, ge, c, self.cur());
                items = items.push((ge, c));
            }
        }
        proof { assert(prog_ok(items, ans, if ans@.len() == 1 { ans@[0] } else { ExprAST::Stmt(ans) }, self.bytes(), t0, self.cur())); }""")])
PARSER['parse_delim']['spec'] = PD(2,"old(self).cur() matches Token::Delim(d, _) && d == ty",DPRIM)
