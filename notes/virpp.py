#!/usr/bin/env python3
"""Compact pretty-printer for Verus --log-all crate.vir: prints requires/ensures/body of functions whose path matches a regex."""
import sys,re
sys.setrecursionlimit(100000)
def tokenize(s):
    i=0;n=len(s)
    while i<n:
        c=s[i]
        if c.isspace(): i+=1
        elif c in '()': yield c; i+=1
        elif c=='"':
            j=i+1
            while s[j]!='"':
                if s[j]=='\\': j+=1
                j+=1
            yield s[i:j+1]; i=j+1
        else:
            j=i
            while j<n and not s[j].isspace() and s[j] not in '()': j+=1
            yield s[i:j]; i=j
def parse(toks):
    st=[[]]
    for t in toks:
        if t=='(': st.append([])
        elif t==')':
            x=st.pop(); st[-1].append(x)
        else: st[-1].append(t)
    return st[0]
def kw(node,key):
    for i,x in enumerate(node):
        if x==key and i+1<len(node): return node[i+1]
    return None
def strip(e):
    # remove span wrappers (@ "span" X) and (@@ "span" X)
    while isinstance(e,list) and len(e)>=3 and e[0] in('@','@@') : e=e[2]
    return e
def path(f):
    f=strip(f)
    if isinstance(f,list) and f and f[0]=='Fun': return kw(f,':path')
    return str(f)
def ex(e):
    e=strip(e)
    if not isinstance(e,list): return str(e)
    if not e: return '()'
    if e[0]=='>': # (> Kind ... Typ)
        k=e[1]
        if k=='Call':
            tgt=kw(e,':target'); args=kw(e,':args') or []
            name='?'
            if isinstance(tgt,list):
                for x in tgt:
                    if isinstance(x,list) and x and x[0]=='Fun': name=kw(x,':path'); break
            return f"{name}({', '.join(ex(a) for a in args)})"
        if k=='ReadPlace': return ex(e[2])
        if k=='Binary': return f"({ex(e[3])} {e[2][1:] if isinstance(e[2],list) else e[2]} {ex(e[4])})"
        if k=='Logical': return f"({ex(e[3])} {e[2][1]} {ex(e[4])})"
        if k=='Unary': return f"{e[2]}({ex(e[3])})"
        if k=='UnaryOpr': return f"{e[2][:2] if isinstance(e[2],list) else e[2]}({ex(e[3])})"
        if k=='Block': return '{'+'; '.join(ex(x) for x in (e[2] if isinstance(e[2],list) else []))+' => '+ex(e[3] if len(e)>3 else '')+'}'
        if k=='Const': return str(e[2])
        if k=='If': return f"if {ex(e[2])} then {ex(e[3])} else {ex(e[4])}"
        if k=='Quant': return f"QUANT{e[2][:1]}[{e[3]}]({ex(e[4])})"
        return f"<{k} "+' '.join(ex(x) for x in e[2:-1])+">"
    if e[0]=='Place':
        if e[1]=='Local': return e[2][1].strip('"')
        if e[1]=='Field': return ex(e[3] if len(e)>3 else e[2])+'.'+str(e[2])
        return 'PLACE'+str(e[1:3])
    if e[0]=='VarIdent': return e[1].strip('"')
    return '['+' '.join(ex(x) for x in e)+']'
def main():
    src=open(sys.argv[1]).read(); pat=re.compile(sys.argv[2])
    top=parse(tokenize(src))
    for item in top:
        it=strip(item)
        if isinstance(it,list) and it and it[0]=='Function':
            name=kw(it,':name'); p=path(name)
            if p and pat.search(p):
                print('=== fn',p,' mode',kw(it,':mode'))
                params=kw(it,':params') or []
                print('  params:',', '.join(ex(kw(strip(q),':name')) for q in params))
                for r in kw(it,':require') or []: print('  requires',ex(r))
                ens=kw(it,':ensure')
                if ens:
                    for grp in ens[1:]:
                        for r in grp: print('  ensures',ex(r))
                b=kw(it,':body')
                if b and b!='None': print('  body',ex(b)[:3000])
main()
