#!/bin/bash
# builds rust_decimal with Verus's pinned toolchain (offline) into build/depsrc/target; idempotent
cd "$(dirname "$0")"
export CARGO_NET_OFFLINE=true
python3 -c "
import sys; sys.path.insert(0,'.')
from vx import run
run.ensure_deps(); print('deps ok')
"
