"""Bounded differential stand-in and witness search (DESIGN.md 3.4): concrete cases run through the public API of the crate
built from the repository under check, compared with the reference semantics of vx/oracle.py.

Never counted as proof. Two uses: (1) attach a failing input to an obligation the verifier has failed; (2) stand in, labelled
*bounded*, for a function that has fallen out of the verifier's reach (rewritten with constructs Verus cannot take).
"""
import os, re, sys, json, subprocess, hashlib, random, shutil
sys.setrecursionlimit(max(sys.getrecursionlimit(), 6000))      # the reference parser recurses once per nesting level of the long corpus cases
from . import oracle, corpus

VERIF = os.path.dirname(os.path.dirname(os.path.abspath(__file__)))

class DriverError(Exception):
    pass

def build_driver(repo_src):
    root = os.path.dirname(os.path.abspath(repo_src))
    tag = hashlib.sha1(root.encode()).hexdigest()[:10]
    d = os.path.join(VERIF, 'build', 'driver_' + tag)
    os.makedirs(d, exist_ok=True)
    toml = ('[package]\nname = "vxdriver"\nversion = "0.0.0"\nedition = "2021"\n[[bin]]\nname = "vxdriver"\npath = "%s"\n'
            '[dependencies]\nexpression_engine = { path = "%s" }\n[workspace]\n' % (os.path.join(VERIF, 'driver', 'src', 'main.rs'), root))
    p = os.path.join(d, 'Cargo.toml')
    if not os.path.exists(p) or open(p).read() != toml: open(p, 'w').write(toml)
    if not os.path.exists(os.path.join(d, 'Cargo.lock')) and os.path.exists('/repo/Cargo.lock'):
        shutil.copy('/repo/Cargo.lock', os.path.join(d, 'Cargo.lock'))
    env = dict(os.environ, CARGO_NET_OFFLINE='true')
    import fcntl
    with open(os.path.join(d, '.build.lock'), 'w') as lk:         # concurrent checks share one driver build per repository root
        fcntl.flock(lk, fcntl.LOCK_EX)
        r = subprocess.run(['cargo', 'build', '--offline', '-q'], cwd=d, env=env, capture_output=True, text=True)
    if r.returncode != 0:
        raise DriverError('the crate under check does not build: ' + r.stderr[-1500:])
    return os.path.join(d, 'target', 'debug', 'vxdriver')

def _limit_memory():
    """a change under check may make the crate allocate without bound (a loop that never advances): cap the replay driver at 6 GiB of address space so that such a run
    dies with an allocation failure (reported like any other process death) instead of exhausting the machine"""
    try:
        import resource
        resource.setrlimit(resource.RLIMIT_AS, (6 << 30, 6 << 30))
    except Exception:
        pass

def run_cases(cases, repo_src, script=False, small_stack=False):
    """cases: list of dicts (m, s, ...) -> list of result dicts (None where the process died: abort / stack overflow)"""
    exe = build_driver(repo_src)
    out = []
    n_hung = 0; n_dead = 0
    todo = list(cases)
    while todo:
        inp = '\n'.join(json.dumps(c) for c in todo) + '\n'
        args = [exe] + (['--script'] if script else []) + (['--small-stack'] if small_stack else [])
        hung = False
        try:
            r = subprocess.run(args, input=inp, capture_output=True, text=True, timeout=(40 if script else 40), preexec_fn=_limit_memory)
            so = r.stdout
        except subprocess.TimeoutExpired as e:
            # the case after the last answer never returned (deadlock / non-termination): reported like a process death
            so = e.stdout or ''
            if isinstance(so, bytes): so = so.decode('utf-8', 'replace')
            hung = True
        lines = [l for l in so.split('\n') if l.strip()]
        if hung and lines and not lines[-1].rstrip().endswith('}'): lines = lines[:-1]
        res = []
        for l in lines:
            try: res.append(json.loads(l))
            except Exception: res.append({'garbled': l})
        out += res
        if len(res) < len(todo):
            out.append({'panic': True, 'hang': True} if hung else None)      # the case after the last answer killed (or hung) the process
            if script:
                out += [None] * (len(todo) - len(res) - 1)
                break
            n_dead += 1
            if hung:
                n_hung += 1
                if n_hung >= 2: break        # two inputs that never return are evidence enough; the remaining cases of this batch are not run (40 s each otherwise)
            if n_dead >= 6: break            # likewise after six process deaths (a change that exhausts memory dies slowly on every such input)
            todo = todo[len(res) + 1:]
        else:
            todo = []
    return out

# ---- value Debug parser (Rust) -> oracle value
def parse_vdbg(s):
    pos = [0]
    def ws():
        while pos[0] < len(s) and s[pos[0]] == ' ': pos[0] += 1
    def val():
        ws()
        if s.startswith('Number(', pos[0]):
            j = s.index(')', pos[0]); t = s[pos[0] + 7:j]; pos[0] = j + 1
            return ('num', oracle.Decimal(t))
        if s.startswith('Bool(', pos[0]):
            j = s.index(')', pos[0]); t = s[pos[0] + 5:j]; pos[0] = j + 1
            return ('bool', t == 'true')
        if s.startswith('String("', pos[0]):
            i = pos[0] + 8; o = ''
            while s[i] != '"':
                if s[i] == '\\':
                    i += 1
                    if s[i] == 'u':
                        j = s.index('}', i); o += chr(int(s[i + 2:j], 16)); i = j
                    else:
                        o += {'n': '\n', 'r': '\r', 't': '\t', '0': '\0'}.get(s[i], s[i])
                else: o += s[i]
                i += 1
            pos[0] = i + 2
            return ('str', o)
        if s.startswith('List([', pos[0]):
            pos[0] += 6; items = []
            while not s.startswith('])', pos[0]):
                items.append(val()); ws()
                if s[pos[0]] == ',': pos[0] += 1
            pos[0] += 2
            return ('list', items)
        if s.startswith('Map([', pos[0]):
            pos[0] += 5; items = []
            while not s.startswith('])', pos[0]):
                ws(); pos[0] += 1          # (
                k = val(); ws(); pos[0] += 1   # ,
                v = val(); ws(); pos[0] += 1   # )
                items.append((k, v)); ws()
                if s[pos[0]] == ',': pos[0] += 1
            pos[0] += 2
            return ('map', items)
        if s.startswith('None', pos[0]):
            pos[0] += 4; return ('none',)
        raise ValueError('value debug: ' + s[pos[0]:pos[0] + 30])
    return val()

def strict_eq(a, b):
    """value equality that also compares the scale of numbers (digits preserved)"""
    if a[0] != b[0]: return False
    if a[0] == 'num': return a[1] == b[1] and a[1].as_tuple().exponent == b[1].as_tuple().exponent
    if a[0] == 'list': return len(a[1]) == len(b[1]) and all(strict_eq(x, y) for x, y in zip(a[1], b[1]))
    if a[0] == 'map': return len(a[1]) == len(b[1]) and all(strict_eq(x[0], y[0]) and strict_eq(x[1], y[1]) for x, y in zip(a[1], b[1]))
    return a == b

def _numberish(s):
    """the input contains a token that starts with a digit and is not a plain decimal literal (C09: such a literal is rejected, not truncated)"""
    return any(not re.fullmatch(r'[0-9]+(\.[0-9]+)?', t) for t in re.findall(r'(?<![A-Za-z_.0-9])[0-9][0-9A-Za-z_.]*(?:[eE][+-][0-9A-Za-z_.]*)?', s))

# ---- categories: each returns a list of discrepancy dicts
def _disc(cat, props, case, expected, observed, why):
    return dict(category=cat, properties=props, case=case, expected=expected, observed=observed, why=why)

def check_parse(repo_src, rnd, table=None, inputs=None, random_only=False):
    if random_only and inputs is None:
        inputs = corpus.corrupt(corpus.random_parse_cases(rnd.randint(0, 10**6), 300), rnd, 1500) + corpus.random_parse_cases(rnd.randint(0, 10**6), 3000)
    ins = inputs if inputs is not None else (corpus.parse_cases() + corpus.long_parse_cases() + corpus.corrupt(corpus.SEEDS + corpus.parse_cases()[:400], rnd, 1500) + corpus.random_parse_cases(rnd.randint(0, 10**6)))
    ins = list(dict.fromkeys(ins))
    cases = [dict(m='rt', s=s) for s in ins]
    res = run_cases(cases, repo_src)
    out = []
    T = table or oracle.Table()
    for c, r in zip(cases, res):
        s = c['s']
        if r is None or r.get('panic'):
            stage = (r or {}).get('stage')
            props = ['C01', 'C10', 'C05'] if stage == 'parse' else (['C01', 'C18', 'C12'] if stage == 'print' else ['C01', 'C18', 'C12', 'C10'])
            out.append(_disc('parse', props, c, 'Ok or Err', 'panic/abort' + (' while ' + ('tokenizing / parsing' if stage == 'parse' else 'rendering with expr() / describe()') if stage else ''), 'parse_expression (or expr()/describe() of its result) did not return'))
            continue
        try:
            ast = oracle.parse(s, T); exp = ('ok', oracle.dbg(ast))
        except oracle.Reject as e:
            exp = ('reject', str(e))
        except oracle.Unknown:
            exp = None
        except RecursionError:
            exp = None
        if exp is not None:
            if exp[0] == 'ok' and not r.get('ok'):
                out.append(_disc('parse', ['C02', 'C05', 'C10'], c, exp[1], 'Err(%s)' % r.get('err'), 'a sentence of the documented grammar is rejected'))
            elif exp[0] == 'reject' and r.get('ok'):
                out.append(_disc('parse', ['C05', 'C10'] + (['C09'] if _numberish(s) else []), c, 'Err (%s)' % exp[1], r.get('ast'), 'malformed input is accepted'))
            elif exp[0] == 'ok' and r.get('ast') != exp[1]:
                out.append(_disc('parse', ['C02', 'C10', 'C09'], c, exp[1], r.get('ast'), 'the AST differs from the documented grouping / token text'))
        if r.get('ok') and exp is not None and exp[0] == 'ok':
            try:
                dd = oracle.describe(ast)
                if r.get('describe') != dd:
                    out.append(_disc('describe', ['C18'], c, dd, r.get('describe'), 'describe() differs from the documented default rendering'))
            except Exception: pass
        if r.get('ok'):
            if not r.get('ok2'):
                out.append(_disc('roundtrip', ['C12'], c, 'expr() re-parses', 'expr()=%r -> Err(%s)' % (r.get('expr'), r.get('err2')), 'expr() output is not accepted by parse_expression'))
            elif r.get('ast2') != r.get('ast'):
                out.append(_disc('roundtrip', ['C12'], c, r.get('ast'), 'expr()=%r -> %s' % (r.get('expr'), r.get('ast2')), 'expr() output re-parses to a different AST'))
            elif r.get('expr2') != r.get('expr'):
                out.append(_disc('roundtrip', ['C12'], c, r.get('expr'), r.get('expr2'), 'expr() is not idempotent'))
    return out, len(cases)

def check_exec(repo_src, rnd, inputs=None, random_only=False):
    if random_only and inputs is None: inputs = corpus.random_exec_cases(rnd.randint(0, 10**6), 4000)
    ins = list(dict.fromkeys(inputs if inputs is not None else (corpus.exec_cases() + corpus.boundary_exec_cases() + corpus.random_exec_cases(rnd.randint(0, 10**6)))))
    cases = [dict(m='exec', s=s) for s in ins]
    res = run_cases(cases, repo_src)
    out = []
    for c, r in zip(cases, res):
        s = c['s']
        if r is None or r.get('panic'):
            out.append(_disc('exec', ['C04', 'C01'], c, 'Ok or Err', 'panic/abort', 'evaluation did not return'))
            continue
        try:
            ast = oracle.parse(s)
        except oracle.Reject as e:
            if r.get('ok'):
                out.append(_disc('exec', ['C05'] + (['C09'] if _numberish(s) else []), c, 'Err (%s)' % e, r.get('val'), 'malformed input is evaluated'))
            continue
        except (oracle.Unknown, RecursionError):
            continue
        ev = oracle.Ev()
        try:
            v = ev.ev(ast); exp = ('ok', v)
        except oracle.EvalErr as e:
            exp = ('err', str(e))
        except (oracle.Unknown, RecursionError, oracle.InvalidOperation, ZeroDivisionError, OverflowError):
            continue
        trace = ';'.join(ev.trace)
        if exp[0] == 'ok':
            if not r.get('ok'):
                out.append(_disc('exec', ['C03', 'C06', 'C09'], c, oracle.vdbg(v), 'Err(%s)' % r.get('err'), 'a defined evaluation fails')); continue
            try: got = parse_vdbg(r['val'])
            except Exception: continue
            if not oracle.veq(got, v):
                out.append(_disc('exec', ['C03', 'C04', 'C06', 'C09'], c, oracle.vdbg(v), r['val'], 'the value differs from the documented meaning')); continue
            if not strict_eq(got, v) and re.fullmatch(r'[A-Za-z_0-9.;=\s]*', s) and not re.search(r'[-+*/%<>!&|^]=|==', s):
                out.append(_disc('exec', ['C09'], c, oracle.vdbg(v), r['val'], 'digits / scale of an exact decimal result are not preserved')); continue
        else:
            if r.get('ok'):
                out.append(_disc('exec', ['C03', 'C04', 'C06', 'C07'], c, 'Err (%s)' % exp[1], r['val'], 'a fault / type mismatch is not reported as Err')); continue
        if r.get('trace', '') != trace and 'Number(' not in trace:
            out.append(_disc('exec', ['C07', 'C08'], c, trace, r.get('trace'), 'context functions are invoked in a different order / number of times')); continue
        if 'Number(' in trace and r.get('trace', '').count(';') != trace.count(';'):
            out.append(_disc('exec', ['C07'], c, trace, r.get('trace'), 'a different number of context function calls')); continue
        # bindings left in the context
        exp_vars = {k: val for k, val in ev.vars.items()}
        got_vars = {}
        for item in [x for x in r.get('vars', '').split(';') if x]:
            k, _, dv = item.partition('=')
            try: got_vars[k] = parse_vdbg(dv)
            except Exception: got_vars[k] = None
        if set(exp_vars) != set(got_vars) or any(got_vars[k] is None or not oracle.veq(got_vars[k], exp_vars[k]) for k in exp_vars):
            out.append(_disc('exec', ['C06', 'C07'], c, ';'.join('%s=%s' % (k, oracle.vdbg(exp_vars[k])) for k in sorted(exp_vars)), r.get('vars'), 'the bindings left in the context differ'))
    return out, len(cases)

ACC = {'none': set(), 'bool': {'bool'}, 'false': {'bool'}, 'num': {'decimal', 'integer', 'float'}, 'zero': {'decimal', 'integer', 'float'}, 'frac': {'decimal', 'float'}, 'str': {'string'}, 'empty_str': {'string'},
       'list': {'list'}, 'empty_list': {'list'}, 'map': set()}
def check_conv(repo_src, rnd):
    out0 = []
    cases0 = [dict(m='conv', s='acc:' + k) for k in ACC]
    for c, r in zip(cases0, run_cases(cases0, repo_src)):
        k = c['s'][4:]
        if r is None or r.get('panic') or not r.get('ok'):
            out0.append(_disc('conv', ['C17', 'C04'], c, 'Ok/Err per accessor', 'panic/abort', 'a Value accessor did not return')); continue
        got = dict(x.split('=') for x in r['val'].strip('"').split())
        exp = ' '.join('%s=%s' % (a, 'true' if a in ACC[k] else 'false') for a in ['bool', 'decimal', 'string', 'list', 'integer', 'float'])
        obs = ' '.join('%s=%s' % (a, got.get(a)) for a in ['bool', 'decimal', 'string', 'list', 'integer', 'float'])
        if exp != obs:
            out0.append(_disc('conv', ['C17', 'C03', 'C04'], c, exp, obs, 'an accessor accepts a value of another type (or rejects one of its own): conversions must not coerce'))
    res0 = (out0, len(cases0))
    ins = corpus.conv_cases()
    cases = [dict(m='conv', s=s) for s in ins]
    res = run_cases(cases, repo_src)
    out = []
    for c, r in zip(cases, res):
        ty, _, val = c['s'].partition(':')
        if r is None or r.get('panic'):
            out.append(_disc('conv', ['C17'], c, 'a value', 'panic', 'conversion panicked')); continue
        if r.get('bad') or not r.get('ok'): continue
        if ty == 'dec':
            try:
                v = oracle.Ev().ev(oracle.parse(val))
            except Exception: continue
            if v[0] != 'num': continue
            n = oracle.as_int(v[1])
            exp = 'Some(%d)' % n if n is not None else 'None'
            if r.get('int') != exp:
                out.append(_disc('conv', ['C17', 'C04'], c, 'integer() = %s' % exp, r.get('int'), 'integer() of %s' % val))
        else:
            n = int(val)
            try: got = parse_vdbg(r['val'])
            except Exception: continue
            if got[0] != 'num' or got[1] != n:
                out.append(_disc('conv', ['C17', 'C03'], c, 'Number(%d)' % n, r['val'], 'Value::from(%s) does not denote the integer' % c['s'])); continue
            exp = 'Some(%d)' % n if -(2**63) <= n < 2**63 else 'None'
            if r.get('int') != exp:
                out.append(_disc('conv', ['C17', 'C04'], c, 'integer() = %s' % exp, r.get('int'), 'integer() of Value::from(%s)' % c['s']))
    return res0[0] + out, res0[1] + len(cases)

def check_scripts(repo_src, rnd):
    out = []; n = 0
    # the context built by create_context!
    mc = [('x', 'Number(5)'), ('s', 'String("str")'), ('b', 'Bool(true)'), ('l', 'List([Number(1), Number(2)])'), ('f()', 'Number(40)'), ('f(1, 2)', 'Number(42)'), ('f', 'Number(40)'), ('y', 'Number(2.5)'), ('x + y', 'Number(7.5)'), ('nope', 'None'), ('[x, s, b]', 'List([Number(5), String("str"), Bool(true)])')]
    res = run_cases([dict(m='macroctx', s=s) for s, _ in mc], repo_src)
    n += len(mc)
    for (s, exp), r in zip(mc, res):
        case = dict(m='macroctx', s=s)
        if r is None or r.get('panic'): out.append(_disc('script', ['C06', 'C08'], case, exp, 'panic/abort', 'evaluation in a create_context! context did not return'))
        elif r.get('val') != exp: out.append(_disc('script', ['C06', 'C08'], case, exp, r.get('val') or ('Err(%s)' % r.get('err')), 'a context built by create_context! does not hold the bindings as written'))
    mc2 = [('f()', 'String("second")'), ('v', 'Number(2)'), ('g', 'Number(7)'), ('h()', 'String("hfn")'), ('h', 'String("hfn")'), ('k(1, 2, 3)', 'Number(3)'), ('z', 'String("last")'), ('[f(), v, g]', 'List([String("second"), Number(2), Number(7)])')]
    res = run_cases([dict(m='macroctx2', s=s) for s, _ in mc2], repo_src)
    n += len(mc2)
    for (s, exp), r in zip(mc2, res):
        case = dict(m='macroctx2', s=s)
        if r is None or r.get('panic'): out.append(_disc('script', ['C06', 'C08', 'C01'], case, exp, 'panic/abort', 'evaluation in a create_context! context did not return'))
        elif r.get('val') != exp: out.append(_disc('script', ['C06', 'C08'], case, exp, r.get('val') or ('Err(%s)' % r.get('err')), 'create_context! with a name bound twice: the later entry must win (bindings are made in the order written)'))
    for sc in corpus.SCRIPTS + corpus.adjacency_scripts():
        steps = []
        for (m, s, extra) in sc['steps']:
            d = dict(m=('rt' if m in ('parse', 'describe') else m), s=s); d.update(extra); steps.append(d)
        res = run_cases(steps, repo_src, script=True)
        n += len(steps)
        T = oracle.Table()
        for name, (p, a, ty) in sc.get('table', {}).items(): T.infix[name] = (p, a, ty)
        for st, ex, r in zip(sc['steps'], sc['expect'], res):
            if st[0] == 'reg_infix' and st[1] not in sc.get('table', {}): T.infix[st[1]] = (int(st[2].get('p', 100)), st[2].get('assoc', 'L'), st[2].get('ty', 'CALC'))     # the latest registration wins
            if st[0] == 'reg_postfix': T.postfix.add(st[1])
            if st[0] == 'reg_prefix': T.prefix.add(st[1])
            if ex is None: continue
            case = dict(script=sc['name'], steps=[dict(m=m, s=s, **e) for (m, s, e) in sc['steps']], at=st[1])
            if r is None or r.get('panic'):
                out.append(_disc('script', ['C08', 'C01'], case, str(ex), 'panic/abort', 'step %r did not return' % (st,))); continue
            if ex[0] == 'val' and r.get('val') != ex[1]:
                out.append(_disc('script', ['C08'] + (list(ex[2]) if len(ex) > 2 else []), case, ex[1], r.get('val') or ('Err(%s)' % r.get('err')), 'the most recently registered handler / the context binding is not the one used'))
            elif ex[0] == 'trace' and r.get('trace') != ex[1]:
                out.append(_disc('script', ['C07'], case, ex[1], r.get('trace'), 'operands of a registered operator are evaluated in a different order / number of times'))
            elif ex[0] == 'describe' and r.get('describe') != ex[1]:
                out.append(_disc('script', ['C18'], case, ex[1], r.get('describe') or ('Err(%s)' % r.get('err')), 'describe() does not render the node with the descriptor of its own kind and name'))
            elif ex[0] == 'roundtrip' and not (r.get('ok') and r.get('ok2') and r.get('ast2') == r.get('ast')):
                out.append(_disc('script', ['C12', 'C08'], case, r.get('ast') or 'Ok', 'expr()=%r -> %s' % (r.get('expr'), r.get('ast2') or ('Err(%s)' % (r.get('err2') or r.get('err')))), 'after a registration, expr() output does not re-parse to the same AST (printer and parser disagree on the table)'))
            elif ex[0] == 'ast' and r.get('ast') != ex[1]:
                out.append(_disc('script', ['C08', 'C10'], case, ex[1], r.get('ast') or ('Err(%s)' % r.get('err')), 'a registration made after first use is not honoured by the tokenizer/parser'))
            elif ex[0] == 'reject' and r.get('ok'):
                out.append(_disc('script', ['C05', 'C10'], case, 'Err', r.get('ast'), 'accepted'))
            elif ex[0] == 'err' and r.get('ok'):
                out.append(_disc('script', ['C07', 'C08', 'C03'], case, 'Err', r.get('val'), 'a failing context function does not fail the evaluation (its error was replaced by another handler or swallowed)'))
            elif ex[0] == 'table':
                try: exp = oracle.dbg(oracle.parse(st[1], T))
                except (oracle.Reject, oracle.Unknown): continue
                if r.get('ast') != exp:
                    out.append(_disc('script', ['C08', 'C02'], case, exp, r.get('ast') or ('Err(%s)' % r.get('err')), 'a registered operator does not parse with the precedence/associativity it was registered with'))
    return out, n

CATS = {'parse': check_parse, 'exec': check_exec, 'conv': check_conv, 'script': check_scripts}
PROP_CATS = {'C01': ['parse', 'exec', 'script'], 'C02': ['parse', 'script'], 'C03': ['exec', 'script', 'conv'], 'C04': ['exec', 'conv', 'script'], 'C05': ['parse', 'script'], 'C06': ['exec', 'script'], 'C07': ['exec', 'script'], 'C08': ['script', 'exec'],
             'C09': ['exec', 'parse', 'script'], 'C10': ['parse', 'script'], 'C12': ['parse', 'script'], 'C17': ['conv'], 'C18': ['parse', 'script']}
_cache = {}
def run_category(cat, repo_src, seed=0, random_only=False):
    """seed 0 is the registered corpus (fixed cases + the seed-0 random cases); other seeds with random_only draw fresh random cases only (thorough tier)"""
    key = (cat, os.path.abspath(repo_src), seed, random_only)
    if key not in _cache:
        rnd = random.Random(seed)
        _cache[key] = CATS[cat](repo_src, rnd, random_only=True) if (random_only and cat in ('parse', 'exec')) else CATS[cat](repo_src, rnd)
    return _cache[key]

def search(pid, failure, repo_src, seed=0):
    """-> (first discrepancy relevant to pid or None, number of cases tried)"""
    tried = 0
    for cat in PROP_CATS.get(pid, []):
        ds, n = run_category(cat, repo_src, seed)
        tried += n
        for d in ds:
            if pid in d['properties']:
                return d, tried
    return None, tried

def violates(case, obs):
    return obs is None or bool(obs.get('panic'))
