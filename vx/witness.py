"""Witness candidates: concrete inputs run on the real crate (built from /repo's working tree) to attach a failing input
to an obligation that the verifier has already failed. Never part of the verdict."""
def search(pid, failure, repo_src):
    return None, 0
def run_cases(cases, repo_src):
    return [None for _ in cases]
def violates(case, obs):
    return False
