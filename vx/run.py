"""Run a unit through Verus and map every diagnostic back to (obligation, function, /repo line, properties)."""
import os, re, json, subprocess, time, glob, hashlib, shutil
from .unit import generate, Generated
from .splice import AnchorLost
from .rustsrc import LexError

VERIF = os.path.dirname(os.path.dirname(os.path.abspath(__file__)))
BUILD = os.path.join(VERIF, 'build')
DEPSRC = os.path.join(BUILD, 'depsrc')
DEPS = os.path.join(DEPSRC, 'target', 'debug', 'deps')
TOOLCHAIN = '1.98.1-x86_64-unknown-linux-gnu'

def ensure_deps():
    """rust_decimal built with Verus's pinned toolchain (offline, from the cargo registry cache) -> build/depsrc/target"""
    if glob.glob(os.path.join(DEPS, 'librust_decimal-*.rlib')):
        return
    os.makedirs(os.path.join(DEPSRC, 'src'), exist_ok=True)
    import fcntl
    with open(os.path.join(BUILD, '.deps.lock'), 'w') as lk:      # concurrent checks on a fresh tree: one builds, the others wait
        fcntl.flock(lk, fcntl.LOCK_EX)
        if glob.glob(os.path.join(DEPS, 'librust_decimal-*.rlib')):
            return
        _build_deps()

def _build_deps():
    open(os.path.join(DEPSRC, 'Cargo.toml'), 'w').write(
        '[package]\nname = "vxdeps"\nversion = "0.0.0"\nedition = "2021"\n[dependencies]\nrust_decimal = "1.31.0"\n[workspace]\n')
    open(os.path.join(DEPSRC, 'src', 'lib.rs'), 'w').write('')
    shutil.copy('/repo/Cargo.lock', os.path.join(DEPSRC, 'Cargo.lock'))
    env = dict(os.environ, CARGO_NET_OFFLINE='true')
    r = subprocess.run(['cargo', '+' + TOOLCHAIN, 'build', '--offline', '--lib'], cwd=DEPSRC, env=env, capture_output=True, text=True)
    if r.returncode != 0:
        raise RuntimeError('building rust_decimal for Verus failed:\n' + r.stderr[-2000:])

# messages Verus emits for a failed proof obligation (anything else at level error is a compile/type/mode error)
_VERIF_MSG = [
    (r'postcondition not satisfied', 'postcondition'),
    (r'precondition not satisfied', 'precondition'),
    (r'assertion failed', 'assertion'),
    (r'invariant not satisfied (at|before) loop', 'invariant'),
    (r'invariant not satisfied at end of loop body', 'invariant'),
    (r'loop invariant', 'invariant'),
    (r'possible arithmetic underflow/overflow', 'overflow'),
    (r'possible bit shift underflow/overflow', 'shift'),
    (r'possible division by zero', 'div_zero'),
    (r'could not prove termination', 'termination'),
    (r'decreases not satisfied', 'termination'),
    (r'recommendation not met', 'recommends'),
    (r'^possible .* out of range', 'range'),
    (r'unable to prove assertion', 'assertion'),
]
_RLIMIT = re.compile(r'resource limit|rlimit|timed? ?out', re.I)
_LABEL = re.compile(r'//\s*@([A-Z0-9,]+)(?::|\s+)?([\w.\-]*)')

class Failure:
    def __init__(self):
        self.kind = ''; self.message = ''; self.owner = None; self.props = []; self.label = ''
        self.gen_line = 0; self.gen_text = ''; self.origin = None; self.clause_line = 0; self.clause_text = ''; self.clause_owner = 'unknown'
        self.rendered = ''
    def ident(self):
        o = self.owner or '?'
        lab = self.label or ('%s#%s' % (self.kind, re.sub(r'\s+', ' ', (self.clause_text or self.gen_text).strip())[:80]))
        return '%s.%s' % (o, lab)
    def to_json(self):
        return dict(obligation=self.ident(), kind=self.kind, function=self.owner, properties=self.props, message=self.message,
                    repo_location=('%s:%d' % self.origin) if self.origin else None,
                    generated_line=self.gen_line, generated_text=self.gen_text.strip(),
                    clause=self.clause_text.strip(), verifier_output=self.rendered)

class UnitResult:
    def __init__(self, name):
        self.name = name
        self.status = 'ok'          # ok | failed | undecided
        self.reason = ''
        self.failures = []
        self.rlimit = []            # functions that hit the resource limit (undecided)
        self.verified = 0; self.errors = 0
        self.fn_stats = {}          # short name -> dict(time_ms, rlimit, success, mode)
        self.gen = None
        self.gen_path = ''
        self.cmd = ''
        self.wall_s = 0.0
        self.solver_ms = 0
        self.verus_version = ''
        self.compile_errors = []
        self.fallback = {}          # function -> why it is not verified in full mode
        self.modes = {}

def _short(fn):
    # "tp::m::Parser::parse_op" -> "Parser::parse_op" ; "tp::m::lemma_x" -> "lemma_x"
    parts = fn.split('::')
    if 'm' in parts:
        parts = parts[parts.index('m') + 1:]
    return '::'.join(parts)

def run_unit(unit, repo_src=None, out_dir=None, extra_args=(), rlimit_mult=None, threads=8, timeout=900):
    res = UnitResult(unit.name)
    t0 = time.time()
    try:
        ensure_deps()
    except Exception as e:
        res.status = 'undecided'; res.reason = 'setup failed: %s' % e; return res
    modes = {}
    out_dir = out_dir or os.path.join(BUILD, 'gen', 'p%d' % os.getpid())     # one directory per process: concurrent checks never share a generated file
    os.makedirs(out_dir, exist_ok=True)
    path = os.path.join(out_dir, unit.name + '.rs')
    rlib = glob.glob(os.path.join(DEPS, 'librust_decimal-*.rlib'))[0]
    p = None; g = None
    for attempt in range(8):
        # 1. generate; a proof hint whose anchor is lost demotes that function to contract-only verification
        while True:
            try:
                g = generate(unit, repo_src, modes)
                break
            except AnchorLost as e:
                k = getattr(e, 'fn_key', None)
                if k and modes.get(k) is None:
                    modes[k] = 'contract_only'; res.fallback[k] = 'contract_only: %s' % e
                    continue
                if k and modes.get(k) == 'contract_only':
                    modes[k] = 'external'; res.fallback[k] = 'external: %s' % e
                    continue
                res.status = 'undecided'; res.reason = 'overlay inapplicable: %s' % e
                res.wall_s = time.time() - t0
                return res
            except (LexError, KeyError, IndexError, AttributeError, AssertionError) as e:
                res.status = 'undecided'; res.reason = 'overlay inapplicable: %s: %s' % (type(e).__name__, e)
                res.wall_s = time.time() - t0
                return res
        res.gen = g
        for k, v in unit.expect_counts.items():
            if g.counters.get(k, 0) != v:
                res.status = 'undecided'; res.reason = 'normalisation rule %s applied %d times, overlay expects %d' % (k, g.counters.get(k, 0), v)
                res.wall_s = time.time() - t0
                return res
        open(path, 'w').write(g.text())
        res.gen_path = path
        cmd = ['verus', path, '--extern', 'rust_decimal=' + rlib, '-L', 'dependency=' + DEPS, '--multiple-errors', '20',
               '--output-json', '--time', '--error-format=json', '--num-threads', str(threads)]
        if rlimit_mult: cmd += ['--rlimit', str(rlimit_mult)]
        cmd += list(extra_args)
        res.cmd = ' '.join(cmd)
        try:
            p = subprocess.run(cmd, capture_output=True, text=True, timeout=timeout, cwd=out_dir)
        except subprocess.TimeoutExpired:
            res.status = 'undecided'; res.reason = 'verus timed out after %ds' % timeout
            res.wall_s = time.time() - t0
            return res
        # 2. rejected before verification? isolate the functions the compiler complains about and retry
        if '"verification-results"' in p.stdout and re.search(r'"(verified|errors)":\s*[1-9]', p.stdout):
            break
        owners = set(); unowned = []
        for ln in p.stderr.split('\n'):
            ln = ln.strip()
            if not ln.startswith('{'): continue
            try: d = json.loads(ln)
            except Exception: continue
            if d.get('level') != 'error' or d.get('message', '').startswith('aborting due to'): continue
            own = None
            for sp in d.get('spans', []):
                li = sp['line_start'] - 1
                if sp.get('is_primary') and 0 <= li < len(g.owner): own = g.owner[li]
            if own and not str(own).startswith('ghost:'): owners.add(own)
            else: unowned.append(d.get('message', ''))
        if not owners:
            break
        progressed = False
        for k in owners:
            cur = modes.get(k)
            nxt = 'contract_only' if cur is None else ('external' if cur == 'contract_only' else None)
            if nxt:
                modes[k] = nxt; res.fallback[k] = '%s: rejected by the verifier front end' % nxt; progressed = True
        if not progressed:
            break
    res.wall_s = time.time() - t0
    res.modes = dict(modes)
    # stdout: JSON summary
    summary = None
    try:
        summary = json.loads(p.stdout)
    except Exception:
        m = re.search(r'\{.*\}\s*$', p.stdout, re.S)
        if m:
            try: summary = json.loads(m.group(0))
            except Exception: summary = None
    if summary:
        vr = summary.get('verification-results', {})
        res.verified = vr.get('verified', 0); res.errors = vr.get('errors', 0)
        res.verus_version = summary.get('verus', {}).get('version', '') or summary.get('times-ms', {}).get('verus-build', {}).get('version', '')
        try:
            for mod in summary['times-ms']['smt']['smt-run-module-times']:
                for fb in mod.get('function-breakdown', []):
                    res.fn_stats[_short(fb['function'])] = dict(time_ms=fb.get('time', 0), rlimit=fb.get('rlimit', 0), success=fb.get('success'), mode=fb.get('mode:', fb.get('mode', '')))
            res.solver_ms = summary['times-ms']['smt'].get('smt-run', 0)
        except Exception:
            pass
    # stderr: diagnostics
    other_errors = []
    for ln in p.stderr.split('\n'):
        ln = ln.strip()
        if not ln.startswith('{'): continue
        try: d = json.loads(ln)
        except Exception: continue
        if d.get('level') != 'error': continue
        msg = d.get('message', '')
        if msg.startswith('aborting due to'): continue
        kind = None
        for pat, k in _VERIF_MSG:
            if re.search(pat, msg): kind = k; break
        spans = d.get('spans', [])
        if _RLIMIT.search(msg):
            own = None
            for sp in spans:
                li = sp['line_start'] - 1
                if 0 <= li < len(g.owner) and g.owner[li]: own = g.owner[li]; break
            res.rlimit.append((own, msg))
            continue
        if kind is None:
            other_errors.append((msg, d.get('rendered', '')))
            continue
        f = Failure(); f.kind = kind; f.message = msg; f.rendered = d.get('rendered', '')
        prim = [s for s in spans if s.get('is_primary')] or spans
        sec = [s for s in spans if not s.get('is_primary')]
        labels = []
        def foreign(sp):
            return not str(sp.get('file_name', '')).endswith(os.path.basename(path))
        def line_info(sp):
            if foreign(sp):      # a clause of a library (vstd) specification, e.g. the trait-level ensures of From::from
                return len(g.lines), 'library specification %s:%d' % (sp.get('file_name'), sp['line_start'])
            li = sp['line_start'] - 1
            return li, (g.lines[li] if 0 <= li < len(g.lines) else '')
        if prim and foreign(prim[0]) and any(not foreign(s_) for s_ in sec):
            _sp = [s_ for s_ in sec if not foreign(s_)][0]
            li, tx = line_info(_sp)
            f.gen_line = li + 1; f.gen_text = tx
            f.owner = g.owner[li] if li < len(g.owner) else None
            f.origin = g.origin[li] if li < len(g.origin) else None
        elif prim:
            li, tx = line_info(prim[0])
            f.gen_line = li + 1; f.gen_text = tx
            f.owner = g.owner[li] if li < len(g.owner) else None
            f.origin = g.origin[li] if li < len(g.origin) else None
            if f.origin is None:
                # nearest original line above, inside the same function
                k = min(li, len(g.origin) - 1, len(g.owner) - 1)
                while k >= 0 and (g.origin[k] is None) and g.owner[k] == f.owner: k -= 1
                if k >= 0 and g.origin[k] is not None and g.owner[k] == f.owner: f.origin = g.origin[k]
        for sp in sec + prim:
            li, tx = line_info(sp)
            m = _LABEL.search(tx)
            if m:
                labels.append((m.group(1).split(','), m.group(2)))
            if sp in sec and not f.clause_text:
                f.clause_line = li + 1; f.clause_text = tx
                f.clause_owner = (g.owner[li] if 0 <= li < len(g.owner) else None)
        # the primary span of a failed postcondition is the clause; of a failed precondition it is the call
        if kind == 'postcondition' and prim:
            li, tx = line_info(prim[0])
            f.clause_line, f.clause_text = li + 1, tx
            if sec and not foreign(sec[0]):
                li2, tx2 = line_info(sec[0])
                f.gen_line, f.gen_text = li2 + 1, tx2
                if g.owner[li2]: f.owner = g.owner[li2]
                if g.origin[li2]: f.origin = g.origin[li2]
        if labels:
            f.props = sorted(set(p_ for (ps, _) in labels for p_ in ps))
            f.label = next((n for (_, n) in labels if n), '')
        else:
            f.props = g.props_of(f.owner, f)
        res.failures.append(f)
    if summary is None or (other_errors and not res.failures and res.errors == 0 and res.verified == 0):
        res.status = 'undecided'
        res.compile_errors = other_errors
        res.reason = 'generated file rejected before verification: ' + '; '.join(m for m, _ in other_errors[:3]) if other_errors else 'no verifier summary (exit %d): %s' % (p.returncode, p.stderr[-400:])
        return res
    if other_errors and res.verified == 0 and res.errors == 0:
        res.status = 'undecided'; res.compile_errors = other_errors
        res.reason = 'generated file rejected before verification: ' + '; '.join(m for m, _ in other_errors[:3])
        return res
    res.compile_errors = other_errors
    if res.failures:
        res.status = 'failed'
    elif res.rlimit or res.errors:
        res.status = 'undecided'
        res.reason = 'resource limit / unmapped error: ' + '; '.join('%s: %s' % (o, m) for o, m in res.rlimit[:3])
    return res


def run_probe(unit, repo_src=None, out_dir=None, threads=8, timeout=900):
    """vacuity guard: `assert(false)` right after the preconditions of every contracted function must FAIL.
    -> dict(probed=[...], reached=[...], not_reached=[...], status)"""
    ensure_deps()
    try:
        g = generate(unit, repo_src, None, probe=True)
    except Exception as e:
        return dict(status='undecided', reason='%s: %s' % (type(e).__name__, e), probed=[], reached=[], not_reached=[])
    out_dir = out_dir or os.path.join(BUILD, 'gen', 'p%d' % os.getpid())
    os.makedirs(out_dir, exist_ok=True)
    path = os.path.join(out_dir, unit.name + '_probe.rs')
    open(path, 'w').write(g.text())
    rlib = glob.glob(os.path.join(DEPS, 'librust_decimal-*.rlib'))[0]
    cmd = ['verus', path, '--extern', 'rust_decimal=' + rlib, '-L', 'dependency=' + DEPS, '--multiple-errors', '2', '--error-format=json', '--num-threads', str(threads)]
    try:
        p = subprocess.run(cmd, capture_output=True, text=True, timeout=timeout, cwd=out_dir)
    except subprocess.TimeoutExpired:
        return dict(status='undecided', reason='timeout', probed=g.probed, reached=[], not_reached=[])
    reached = set()
    for ln in p.stderr.split('\n'):
        ln = ln.strip()
        if not ln.startswith('{'): continue
        try: d = json.loads(ln)
        except Exception: continue
        if d.get('level') != 'error': continue
        for sp in d.get('spans', []):
            li = sp['line_start'] - 1
            if 0 <= li < len(g.lines):
                m = re.search(r'@PROBE (.+)$', g.lines[li])
                if m: reached.add(m.group(1).strip())
    nr = [k for k in g.probed if k not in reached]
    return dict(status='ok' if not nr else 'vacuous', probed=list(g.probed), reached=sorted(reached), not_reached=nr, cmd=' '.join(cmd))
