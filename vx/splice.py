"""Contract splicer: applies an overlay (contracts/*.py) to the real source text of /repo.

All selectors are *structural* (resolved on the token stream / statement tree of the function as it is in /repo now):
    call:NAME#k      innermost statement containing the k-th call `NAME(` (NAME may be a path `A::B`), token order
    let:NAME#k       k-th `let` statement whose pattern binds NAME
    assign:NAME#k    k-th assignment statement whose target mentions NAME (`x = ..`, `self.x = ..`, `x += ..`)
    return#k  break#k  loop#k  if#k  match#k     k-th statement of that kind (pre-order)
    tail             the tail expression of the function body
    entry            the start of the function body
Every edit is an edit of the original bytes; what is not edited is byte-for-byte the repository's text.
A selector that does not resolve raises AnchorLost (the run is then UNDECIDED for that unit, never an alarm).
"""
import re
from .rustsrc import File, parse_block, walk, Tok

class AnchorLost(Exception):
    """a structural selector did not resolve. fn_key is set when the loss is confined to the proof hints of one function
    (the run then falls back to contract-only verification of that function)."""
    def __init__(self, msg, fn_key=None):
        Exception.__init__(self, msg)
        self.fn_key = fn_key

class Edits:
    """insertions/replacements over one source text, applied in one pass, with a generated-line -> original-line map"""
    def __init__(self, src):
        self.src = src
        self.ins = []     # (offset, seq, text)
        self.rep = []     # (a, b, text)
        self._seq = 0
    def insert(self, off, text, after=False, prio=0):
        # prio 0: statement-level text (ghost statements, let-bindings); prio 1: expression wrappers opened at the same offset (vx_add(, vx_apply()
        self._seq += 1
        self.ins.append((off, prio * 1000000 + self._seq, text))
    def replace(self, a, b, text):
        for (x, y, _) in self.rep:
            if not (b <= x or y <= a):
                raise AnchorLost('overlapping replacements at %d..%d' % (a, b))
        self.rep.append((a, b, text))
    def apply(self, a0=0, b0=None):
        """-> (text, origin) where origin[i] = original offset of output char i or -1"""
        if b0 is None: b0 = len(self.src)
        ev = []
        for (off, seq, text) in self.ins:
            if a0 <= off <= b0: ev.append((off, 0, seq, 'i', text, off))
        for (a, b, text) in self.rep:
            if a0 <= a and b <= b0: ev.append((a, 1, 0, 'r', text, b))
        ev.sort(key=lambda e: (e[0], e[1], e[2]))
        out = []; org = []
        pos = a0
        for (off, _, _, kind, text, end) in ev:
            if off < pos:
                if kind == 'i':
                    # insertion inside a replaced range: emit right after it
                    out.append(text); org.extend([-1] * len(text))
                    continue
                raise AnchorLost('edit order conflict at %d' % off)
            out.append(self.src[pos:off]); org.extend(range(pos, off))
            out.append(text); org.extend([-1] * len(text))
            pos = end if kind == 'r' else off
        out.append(self.src[pos:b0]); org.extend(range(pos, b0))
        return ''.join(out), org

def _indent_of(src, off):
    ls = src.rfind('\n', 0, off) + 1
    m = re.match(r'[ \t]*', src[ls:off + 1] if src[ls:off].strip() == '' else src[ls:])
    return m.group(0) if src[ls:off].strip() == '' else re.match(r'[ \t]*', src[ls:]).group(0)

class FnView:
    """statement tree + selectors for one function"""
    def __init__(self, f, fn):
        self.f, self.fn, self.t = f, fn, f.toks
        self.stmts = parse_block(self.t, fn.i_bo, fn.i_bc)
        self.all = list(walk(self.stmts))
    def _innermost(self, ti):
        best = None
        for s in self.all:
            if s.i0 <= ti < s.i1 and (best is None or (s.i1 - s.i0) <= (best.i1 - best.i0)):
                best = s
        return best
    def call_tokens(self, name):
        """token indices i such that tokens at i.. spell NAME followed by `(`; i is the index of the LAST path segment"""
        parts = name.split('::')
        t = self.t; out = []
        for i in range(self.fn.i_bo, self.fn.i_bc):
            if t[i].k == 'id' and t[i].s == parts[-1] and t[i + 1].s == '(':
                ok = True; j = i
                for p in reversed(parts[:-1]):
                    if t[j - 1].s == '::' and t[j - 2].s == p: j -= 2
                    else: ok = False; break
                if ok: out.append(i)
        return out
    def select(self, sel):
        """-> Stmt (or the pseudo strings 'entry')"""
        m = re.match(r'^(\w+)(?::([^#]+))?(?:#(\d+))?$', sel)
        if not m: raise AnchorLost('bad selector ' + sel)
        kind, name, k = m.group(1), m.group(2), int(m.group(3) or 0)
        t = self.t
        if kind == 'call':
            c = self.call_tokens(name)
            if k >= len(c): raise AnchorLost('%s: %s not found (have %d)' % (self.fn.key, sel, len(c)))
            s = self._innermost(c[k])
            if s is None: raise AnchorLost('%s: %s has no enclosing statement' % (self.fn.key, sel))
            return s
        if kind == 'tail':
            # the tail expression of the body, or a final `return e;` in its place
            if self.stmts and (self.stmts[-1].tail or self.stmts[-1].kind == 'return'): return self.stmts[-1]
            raise AnchorLost('%s: no tail expression' % self.fn.key)
        cands = []
        for s in self.all:
            if kind == 'let' and s.kind == 'let':
                # pattern tokens: between `let` and `=`/`:`/`;` at depth 0
                j = s.i0 + 1; names = []
                while j < s.i1 and t[j].s not in ('=', ';'):
                    if t[j].s == ':' and t[j + 1].s != ':' : break
                    if t[j].k == 'id' and t[j].s not in ('mut', 'ref', 'ghost', 'tracked'): names.append(t[j].s)
                    j += 1
                if name in names: cands.append(s)
            elif kind == 'assign' and s.kind == 'assign':
                tgt = [t[j].s for j in range(s.i0, s.assign_op)]
                if name in tgt: cands.append(s)
            elif kind in ('return', 'break', 'continue', 'loop', 'if', 'match') and s.kind == kind:
                cands.append(s)
        if k >= len(cands): raise AnchorLost('%s: %s not found (have %d)' % (self.fn.key, sel, len(cands)))
        return cands[k]
    def call_extent(self, ci):
        """token range [a, b) of the call expression whose callee's last segment is token ci: receiver chain .. `)` and trailing `?`"""
        t = self.t
        a = ci
        while True:
            p = t[a - 1]
            if p.s in ('.', '::'):
                q = t[a - 2]
                if q.s in (')', ']'):
                    a = q.mate
                    # the group may itself be a call: include its callee
                    if t[a - 1].k == 'id' and t[a - 1].s not in ('if', 'while', 'match', 'return', 'in'):
                        a -= 1
                    continue
                if q.s == '?':
                    a -= 2
                    # continue from the token before `?`
                    q = t[a]
                    if q.s in (')', ']'):
                        a = q.mate
                        if t[a - 1].k == 'id': a -= 1
                    continue
                if q.k in ('id', 'num', 'str'):
                    a -= 2
                    continue
            break
        b = t[ci + 1].mate + 1
        while t[b].s == '?':
            b += 1
        return a, b

class FnSpec:
    def __init__(self, key, spec='', props=(), ops=(), attr='', ret='r', trust=False, ghost_param=None, note=''):
        self.key, self.spec, self.props, self.ops, self.attr, self.ret = key, spec, list(props), list(ops), attr, ret
        self.trust, self.ghost_param, self.note = trust, ghost_param, note

# ---- ops
def Ins(sel, pos, text): return ('ins', sel, pos, text)
def Inv(sel, text, iter_name=None, bind=None): return ('inv', sel, text, iter_name, bind)
def LetBind(sel, name, pre='', post='', mut=False): return ('letbind', sel, name, pre, post, mut)
def GhostArg(sel, text): return ('ghostarg', sel, text)
def Closure(k, header): return ('closure', k, header)
def DynCall(k, wrapper): return ('dyncall', k, wrapper)              # rule 7: k-th `<expr>?(args)` -> wrapper(<expr>?, args)
def DynCallId(name, k, wrapper): return ('dyncallid', name, k, wrapper)   # rule 7: k-th `name(args)` -> wrapper(name, args)
def LetType(sel, ty): return ('lettype', sel, ty)     # rule 29: an explicit type on a `let` whose inferred type is needed by an invariant
def Wrap(sel, before, after): return ('wrap', sel, before, after)     # wrap the k-th call expression textually: before + expr + after

def apply_fn(f, ed, spec, counters, mode='full', probe=False):
    """register the edits of one FnSpec on Edits `ed` (offsets of file f).
    mode: full = contract + proof hints; contract_only = contract, signature-level ops only; external = contract assumed, body dropped."""
    fn = f.fns.get(spec.key)
    if fn is None:
        raise AnchorLost('function %s not found in %s' % (spec.key, f.name))
    t = f.toks; src = f.src
    v = FnView(f, fn)
    ind = _indent_of(src, t[fn.i_fn].a)
    # signature: name the return value, ghost parameter, contract
    ret_a = t[fn.i_pc].b; ret_b = t[fn.i_bo].a
    rtxt = src[ret_a:ret_b]
    m = re.match(r'\s*->\s*(.*?)\s*$', rtxt, flags=re.S)
    if spec.trust:
        body = ' { unimplemented!() }'
    newret = (' -> (%s: %s)\n' % (spec.ret, m.group(1))) if m else '\n'
    sp = spec.spec.rstrip('\n')
    if sp: newret += sp + '\n'
    ed.replace(ret_a, ret_b, newret + ind)
    if spec.ghost_param:
        last = t[fn.i_pc - 1]
        sep = '' if last.s == ',' else ', '
        ed.insert(t[fn.i_pc].a, sep + spec.ghost_param)
        counters['rule15_ghost_param'] = counters.get('rule15_ghost_param', 0) + 1
    if spec.attr:
        ed.insert(t[fn.i_attr].a, spec.attr.strip() + '\n' + ind)
    if spec.trust or mode == 'external':
        ed.replace(t[fn.i_bo].a, t[fn.i_bc].b, '{ unimplemented!() }')
        ed.insert(t[fn.i_attr].a, '#[verifier::external_body]\n' + ind)
        if spec.trust: counters['trusted_bodies'] = counters.get('trusted_bodies', 0) + 1
        return
    ops = spec.ops if mode == 'full' else [op for op in spec.ops if op[0] == 'ghostarg']
    if probe:
        ed.insert(f.toks[fn.i_bo].b, '\n        assert(false); // @PROBE ' + spec.key)
    try:
        _apply_ops(f, fn, v, ed, spec, ops, counters)
    except AnchorLost as e:
        if e.fn_key is None: e.fn_key = spec.key
        raise

def _apply_ops(f, fn, v, ed, spec, ops, counters):
    t = f.toks; src = f.src
    for op in ops:
        kind = op[0]
        if kind == 'ins':
            _, sel, pos, text = op
            if sel == 'entry':
                ed.insert(t[fn.i_bo].b, '\n' + text)
                continue
            s = v.select(sel)
            a = t[s.i0].a; b = t[s.i1 - 1].b
            si = _indent_of(src, a)
            if pos == 'before':
                ed.insert(a, text.strip('\n') + '\n' + si)
            elif pos == 'after':
                if s.tail: raise AnchorLost('%s: cannot insert after tail expression %s' % (spec.key, sel))
                ed.insert(b, '\n' + text.strip('\n'))
            elif pos in ('body_start', 'body_end'):
                blk = None
                if s.kind == 'loop' and s.loop_bo is not None:
                    blk = (s.loop_bo, t[s.loop_bo].mate)
                elif s.blocks:
                    blk = (s.blocks[0][1], s.blocks[0][2])
                if blk is None: raise AnchorLost('%s: %s has no block' % (spec.key, sel))
                if pos == 'body_start': ed.insert(t[blk[0]].b, '\n' + text.strip('\n'))
                else: ed.insert(t[blk[1]].a, text.strip('\n') + '\n' + si)
            else:
                raise AnchorLost('bad position ' + pos)
        elif kind == 'inv':
            _, sel, text, iter_name, bind = op
            s = v.select(sel)
            if s.kind != 'loop' or s.loop_bo is None: raise AnchorLost('%s: %s is not a loop statement' % (spec.key, sel))
            if iter_name:
                # rule 10: `for x in E {` -> `for x in it: E {` ; `E.into_iter()` -> `E` ; tuple pattern -> name + `let`
                if t[s.loop_kw].s != 'for': raise AnchorLost('%s: %s is not a for loop' % (spec.key, sel))
                j = s.loop_kw
                while t[j].s != 'in': j += 1
                ed.insert(t[j].b, ' %s:' % iter_name)
                counters['rule10_for_iter'] = counters.get('rule10_for_iter', 0) + 1
                e = s.loop_bo
                if t[e - 1].s == ')' and t[e - 2].s == '(' and t[e - 3].s == 'into_iter' and t[e - 4].s == '.':
                    ed.replace(t[e - 4].a, t[e - 1].b, '')
                    counters['rule10_into_iter'] = counters.get('rule10_into_iter', 0) + 1
                if bind:
                    pa, pb = s.loop_kw + 1, j          # pattern tokens
                    pat = src[t[pa].a:t[pb - 1].b]
                    ed.replace(t[pa].a, t[pb - 1].b, bind)
                    ed.insert(t[s.loop_bo].b, '\n' + _indent_of(src, t[s.i0].a) + '    let %s = %s;' % (pat, bind))
                    counters['rule10_tuple_pattern'] = counters.get('rule10_tuple_pattern', 0) + 1
            a = t[s.loop_bo - 1].b; b = t[s.loop_bo].a
            ed.replace(a, b, '\n' + text.strip('\n') + '\n' + _indent_of(src, t[s.i0].a))
        elif kind == 'letbind':
            _, sel, name, pre, post, mut = op
            m2 = re.match(r'^call:([^#]+)(?:#(\d+))?$', sel)
            if not m2: raise AnchorLost('letbind needs a call selector')
            c = v.call_tokens(m2.group(1)); k = int(m2.group(2) or 0)
            if k >= len(c): raise AnchorLost('%s: %s not found' % (spec.key, sel))
            s = v._innermost(c[k])
            ca, cb = v.call_extent(c[k])
            expr = src[t[ca].a:t[cb - 1].b]
            a = t[s.i0].a; si = _indent_of(src, a)
            txt = ''
            if pre: txt += pre.strip('\n') + '\n' + si
            txt += 'let %s%s = %s;\n' % ('mut ' if mut else '', name, expr) + si
            if post: txt += post.strip('\n') + '\n' + si
            ed.insert(a, txt)
            ed.replace(t[ca].a, t[cb - 1].b, name)
            counters['rule14_letbind'] = counters.get('rule14_letbind', 0) + 1
        elif kind == 'ghostarg':
            _, sel, text = op
            m2 = re.match(r'^call:([^#]+)(?:#(\d+))?$', sel)
            c = v.call_tokens(m2.group(1)); k = int(m2.group(2) or 0)
            if k >= len(c): raise AnchorLost('%s: %s not found' % (spec.key, sel))
            pc = t[c[k] + 1].mate
            sep = '' if t[pc - 1].s in (',', '(') else ', '
            ed.insert(t[pc].a, sep + text)
            counters['rule15_ghost_arg'] = counters.get('rule15_ghost_arg', 0) + 1
        elif kind == 'closure':
            _, k, header = op
            # k-th closure in the function body (token order): `|params| expr` -> `header { expr }`
            cl = []
            i = fn.i_bo
            while i < fn.i_bc:
                if t[i].s in ('|', '||') and t[i - 1].s in ('(', ',', '=', '=>', '{', ';', 'return', 'move'):
                    if t[i].s == '||': j = i + 1
                    else:
                        j = i + 1
                        while t[j].s != '|': j += 1
                        j += 1
                    cl.append((i, j)); i = j
                else:
                    i += 1
            if k >= len(cl): raise AnchorLost('%s: closure #%d not found' % (spec.key, k))
            i, j = cl[k]
            # body: expression up to the closing paren of the enclosing call
            d = 0; e = j
            if t[j].s == '{':
                e = t[j].mate + 1
                ed.replace(t[i].a, t[j - 1].b, header)
            else:
                while not (d == 0 and t[e].s in (')', ',', ';')):
                    if t[e].s in '([{': e = t[e].mate + 1
                    else: e += 1
                ed.replace(t[i].a, t[j - 1].b, header + ' {')
                ed.insert(t[e - 1].b, ' }')
            counters['rule12_closure_header'] = counters.get('rule12_closure_header', 0) + 1
        elif kind == 'dyncall':
            _, k, wrapper = op
            sites = [i for i in range(fn.i_bo, fn.i_bc) if t[i].s == '?' and t[i + 1].s == '(']
            if k >= len(sites): raise AnchorLost('%s: handler application #%d not found' % (spec.key, k))
            q = sites[k]
            # callee expression: from the start of the receiver chain up to and including `?`
            e = q - 1
            if t[e].s != ')': raise AnchorLost('%s: unexpected handler application shape' % spec.key)
            ca = t[e].mate - 1          # method name
            a0, _b = v.call_extent(ca)
            po = q + 1
            empty = t[po + 1].s == ')'
            ed.insert(t[a0].a, wrapper + '(')
            ed.replace(t[po].a, t[po].b, '' if empty else ', ')
            counters['rule7_dyn_call'] = counters.get('rule7_dyn_call', 0) + 1
        elif kind == 'dyncallid':
            _, name, k, wrapper = op
            c = v.call_tokens(name)
            if k >= len(c): raise AnchorLost('%s: call of %s #%d not found' % (spec.key, name, k))
            ci = c[k]
            ed.insert(t[ci].a, wrapper + '(')
            ed.replace(t[ci + 1].a, t[ci + 1].b, ', ')
            counters['rule7_dyn_call'] = counters.get('rule7_dyn_call', 0) + 1
        elif kind == 'lettype':
            _, sel, ty = op
            st_ = v.select(sel)
            j = st_.i0 + 1
            while t[j].s != '=' and j < st_.i1: j += 1
            if t[j].s != '=' or any(t[q].s == ':' for q in range(st_.i0, j)): raise AnchorLost('%s: %s cannot take a type annotation' % (spec.key, sel))
            ed.insert(t[j - 1].b, ': ' + ty)
            counters['rule29_let_type'] = counters.get('rule29_let_type', 0) + 1
        elif kind == 'mapcollect':
            pass      # applied by rewrite_map_collect (whole-function rule 26)
        elif kind == 'wrap':
            _, sel, before, after = op
            m2 = re.match(r'^call:([^#]+)(?:#(\d+))?$', sel)
            c = v.call_tokens(m2.group(1)); k = int(m2.group(2) or 0)
            if k >= len(c): raise AnchorLost('%s: %s not found' % (spec.key, sel))
            ca, cb = v.call_extent(c[k])
            ed.insert(t[ca].a, before); ed.insert(t[cb - 1].b, after)
        else:
            raise AnchorLost('unknown op ' + kind)

_KW = set('if while match return in for loop let mut ref move else break continue as fn self Self Some None Ok Err Box Vec String'.split())
def rewrite_dyn_calls(f, fn, ed, counters):
    """rule 7: `E?(args)` and `x(args)` with x a local variable (let / pattern / closure / parameter binding) are applications of a
    handler value (`dyn Fn`, unsupported by Verus) -> vx_apply(E?, (args,)). Callee and arguments keep their evaluation order."""
    t = f.toks; src = f.src
    v = FnView(f, fn)
    # locals: identifiers in binding positions
    loc = set()
    for i in range(fn.i_po + 1, fn.i_pc):
        if t[i].k == 'id' and t[i + 1].s == ':' and t[i - 1].s in ('(', ',', 'mut'): loc.add(t[i].s)
    i = fn.i_bo
    while i < fn.i_bc:
        if t[i].s == 'let':
            j = i + 1
            while t[j].s not in ('=', ';') and not (t[j].s == ':' and t[j + 1].s != ':'):
                if t[j].k == 'id' and t[j].s not in _KW and t[j + 1].s not in ('(', '::', '{'): loc.add(t[j].s)
                j += 1
        elif t[i].s == '=>':
            # pattern before `=>`: walk back to the previous `,` / `{` at the same depth
            j = i - 1
            while j > fn.i_bo and t[j].s not in (',', '{') :
                if t[j].s in (')', ']', '}'): j = t[j].mate
                j -= 1
            for k in range(j + 1, i):
                if t[k].k == 'id' and t[k].s not in _KW and t[k + 1].s not in ('(', '::', '{') and t[k - 1].s != '::': loc.add(t[k].s)
        elif t[i].s == 'for':
            j = i + 1
            while t[j].s != 'in':
                if t[j].k == 'id' and t[j].s not in _KW: loc.add(t[j].s)
                j += 1
        i += 1
    for i in range(fn.i_bo, fn.i_bc):
        callee = None
        if t[i].s == '?' and t[i + 1].s == '(' and t[i - 1].s == ')':
            ca = t[i - 1].mate - 1
            if t[ca].k != 'id': continue
            a0, _ = v.call_extent(ca)
            callee = (a0, i + 1)
        elif t[i].k == 'id' and t[i].s in loc and t[i + 1].s == '(' and t[i - 1].s not in ('.', '::', 'fn') and t[i].s not in _KW:
            callee = (i, i + 1)
        elif t[i].s == ')' and t[i + 1].s == '(' and t[t[i].mate - 1].k == 'id' and t[t[i].mate - 2].s == '.' and fn.i_bo < t[i].mate:
            # the value returned by a method call is applied: `recv.method(a)(b)`
            a0, _ = v.call_extent(t[i].mate - 1)
            callee = (a0, i + 1)
        if callee is None: continue
        po = callee[1]; pc = t[po].mate
        ed.insert(t[callee[0]].a, 'vx_apply(', prio=1)
        if pc == po + 1:
            ed.replace(t[po].a, t[pc].b, ', ())')
        else:
            ed.replace(t[po].a, t[po].b, ', (')
            ed.replace(t[pc].a, t[pc].b, '))' if t[pc - 1].s == ',' else ',))')
        counters['rule7_dyn_call'] = counters.get('rule7_dyn_call', 0) + 1

_LB = set(['=', '(', '{', ',', ';', '=>', 'return', 'else', '}', '[', '+=', '&&', '||', '==', '!=', '<', '>', 'in'])
_RB = set([')', '{', ',', ';', '}', ']', '=>', '&&', '||', '==', '!=', '<', '>'])
def fold_string_concat(f, fn, ed, counters):
    """rule 9: a `+` chain (String concatenation; `String + &str` crashes Verus) -> nested vx_add(l, r), left-associative, operands untouched."""
    t = f.toks
    done = set()
    for i in range(fn.i_bo, fn.i_bc):
        if t[i].s != '+' or i in done: continue
        # chain start: walk left over operand tokens
        a = i - 1
        while a > fn.i_bo:
            if t[a].s in (')', ']') : a = t[a].mate - 1; continue
            if t[a].s in _LB: break
            a -= 1
        start = a + 1
        # walk right collecting the `+` of the chain
        plus = []; b = start
        while b < fn.i_bc:
            if t[b].s in ('(', '['): b = t[b].mate + 1; continue
            if t[b].s in _RB: break
            if t[b].s == '+': plus.append(b)
            b += 1
        end = b          # exclusive
        for p in plus: done.add(p)
        chain = f.src[t[start].a:t[end - 1].b]
        if not ('"' in chain or '.to_string()' in chain or 'expr()' in chain or '&' in chain):
            continue          # no syntactic evidence of a String operand: integer arithmetic, left alone
        n = len(plus)
        ed.insert(t[start].a, 'vx_add(' * n, prio=1)
        for k, p in enumerate(plus):
            # right operand ends before the next plus / chain end
            ed.replace(t[p].a, t[p].b, ',')
            re_ = (plus[k + 1] if k + 1 < n else end) - 1
            ed.insert(t[re_].b, ')')
        counters['rule9_string_concat'] = counters.get('rule9_string_concat', 0) + 1

def MapCollect(k, inv, ty='_', proof='', post=''): return ('mapcollect', k, (inv, ty, proof, post))
def rewrite_map_collect(f, fn, ed, counters, invs):
    """rule 26: `X.into_iter().map(|v| BODY).collect()` over a vector X -> the equivalent index loop
         { let mut vx_out = Vec::new(); let mut vx_i: usize = 0; while vx_i < X.len() <invariants> { let v = &X[vx_i]; vx_out.push(BODY); vx_i += 1; } vx_out }
       (iterator adapters are outside Verus's subset; map+collect over a Vec is sequential push). invs: k -> loop spec text."""
    t = f.toks; src = f.src
    k = 0
    i = fn.i_bo
    while i < fn.i_bc:
        # X . into_iter ( ) . map ( | v | BODY ) . collect ( )
        if (t[i].k == 'id' and t[i + 1].s == '.' and t[i + 2].s == 'into_iter' and t[i + 3].s == '(' and t[i + 4].s == ')' and t[i + 5].s == '.'
                and t[i + 6].s == 'map' and t[i + 7].s == '(' and t[i + 8].s == '|' and t[i + 9].k == 'id' and t[i + 10].s == '|'):
            mo = i + 7; mc = t[mo].mate
            if t[mc + 1].s == '.' and t[mc + 2].s == 'collect' and t[mc + 3].s == '(' and t[mc + 4].s == ')' and t[i - 1].s not in ('.', '::'):
                X = t[i].s; v = t[i + 9].s
                body = src[t[i + 11].a:t[mc - 1].b]
                inv, ty, prf, post = invs.get(k, ('', '_', '', ''))
                new = ('{ let mut vx_out: Vec<%s> = Vec::new(); let mut vx_i: usize = 0;\n                while vx_i < %s.len()\n%s\n                { let %s = &%s[vx_i]; %s vx_out.push(%s); vx_i += 1; }\n                %s\n                vx_out }'
                       % (ty, X, inv.replace('@X@', X), v, X, prf.replace('@X@', X), body, post.replace('@X@', X)))
                ed.replace(t[i].a, t[mc + 4].b, new)
                counters['rule26_map_collect'] = counters.get('rule26_map_collect', 0) + 1
                k += 1
                i = mc + 5
                continue
        i += 1
    return k
