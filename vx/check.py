"""check <PROPERTY> [--tier quick|thorough] : decide one property from /repo's current working tree.

exit 0  every obligation carrying the property's label was discharged (KNOWN-FINDING lines may be printed)
exit 1  VIOLATION property=<id> replay=<path> [... no-failing-input-found]
exit 2  UNDECIDED <reason>   (overlay inapplicable, unsupported construct, resource limit, tool failure) - never an alarm
"""
import sys, os, json, time, re, importlib, argparse, concurrent.futures as cf
VERIF = os.path.dirname(os.path.dirname(os.path.abspath(__file__)))
sys.path.insert(0, VERIF)
from vx import run as vrun

def load_props():
    return importlib.import_module('contracts.props').PROPS

def known_findings():
    """known_findings.txt: lines `finding: property=<id> obligation=<ident-regex> :: <what fails>` and `fixed: ...`"""
    out = []
    p = os.path.join(VERIF, 'known_findings.txt')
    if os.path.exists(p):
        for ln in open(p):
            ln = ln.strip()
            m = re.match(r'^finding:\s*property=(\S+)\s+obligation=(.+?)\s+::\s+(.*)$', ln)
            if m: out.append(dict(property=m.group(1), obligation=m.group(2), what=m.group(3)))
    return out

def main(argv=None):
    ap = argparse.ArgumentParser()
    ap.add_argument('property')
    ap.add_argument('--tier', default=os.environ.get('VERIF_TIER', 'quick'))
    ap.add_argument('--repo-src', default=os.environ.get('VX_REPO_SRC', '/repo/src'))
    ap.add_argument('--replay', default=None)
    a = ap.parse_args(argv)
    pid = a.property
    tier = a.tier if a.tier in ('quick', 'thorough') else 'quick'
    seed = int(os.environ.get('VERIF_SEED', '0') or 0)
    PROPS = load_props()
    if pid not in PROPS:
        print('UNDECIDED unknown or unclaimed property %s' % pid); return 2
    spec = PROPS[pid]
    t0 = time.time()
    if a.replay:
        from vx import replay
        return replay.replay_file(a.replay, a.repo_src)
    # ---- deductive units
    units = [importlib.import_module('contracts.' + u).UNIT for u in spec.get('units', [])]
    results = {}
    with cf.ThreadPoolExecutor(max_workers=max(1, len(units))) as ex:
        futs = {ex.submit(vrun.run_unit, u, a.repo_src, None, (), (2 if tier == 'thorough' and spec.get('double_rlimit') else None), max(2, 16 // max(1, len(units)))): u for u in units}
        for f in cf.as_completed(futs):
            u = futs[f]
            results[u.name] = f.result()
    # ---- pinned trusted primitives
    pinned_changed = []
    try:
        from vx import pinned
        pinned_changed = [x for x in pinned.changed(a.repo_src) if pid in x[1]]
    except Exception as e:
        pinned_changed = [('pinned', [pid], 'pin check failed: %s' % e)]
    # ---- Kani harnesses
    kres = []
    if spec.get('kani'):
        from vx import kani
        hs = spec['kani'] if tier == 'quick' else spec['kani'] + spec.get('kani_thorough', [])
        kres = kani.run_harnesses(hs, a.repo_src)
    # ---- thorough extras
    extras = {}
    if tier == 'thorough':
        from vx import thorough
        extras = thorough.run(pid, spec, a.repo_src, results)
    # ---- verdict
    undecided = []
    failures = []
    from vx import expected as _exp
    expected_fns = _exp.load()
    soft = []          # functions outside the verifier's reach (rewritten / unsupported constructs): decided only by the bounded stand-in
    n_obl = 0; n_dis = 0
    fn_rows = []
    trusted = []
    counters = {}
    cmds = []
    solver_ms = 0
    for name, r in results.items():
        if r.gen is not None:
            trusted += [x for x in r.gen.trusted]
            for k, v in r.gen.counters.items(): counters['%s.%s' % (name, k)] = v
        if r.cmd: cmds.append(r.cmd)
        solver_ms += r.solver_ms
        if r.status == 'undecided':
            # the whole unit is outside the verifier's reach (e.g. a new static / struct field / import the overlay cannot place): every function of it
            # that carries the property is decided by the bounded stand-in only - a failing input is still a violation, none is UNDECIDED
            soft.append((name, 'unit ' + name, 'the generated unit was rejected before verification: ' + str(r.reason)[:200])); continue
        g = r.gen
        # obligations of this property: verification units (functions/lemmas) whose default labels include it
        for short, st in r.fn_stats.items():
            owner = short if short in g.owner_props else ('ghost:' + short.split('::')[-1])
            props = g.props_of(owner) if owner in g.owner_props else None
            if props is None:
                # trait impls etc.: attribute by suffix
                cand = [k for k in g.owner_props if k.endswith('::' + short.split('::')[-1])]
                props = g.props_of(cand[0]) if len(cand) == 1 else []
            if pid in (props or []) or not props and spec.get('count_unlabelled'):
                n_obl += 1
                if st.get('success'): n_dis += 1
                fn_rows.append(dict(unit=name, function=short, mode=st.get('mode'), solver_ms=st.get('time_ms'), rlimit=st.get('rlimit'), discharged=bool(st.get('success'))))
        unknown = [k_ for k_ in g.uncontracted if k_ not in expected_fns.get(name, [])]
        for f in r.failures:
            md0 = r.modes.get(f.owner)
            # a function that is no longer verified with its hints (contract-only / external) or that was restructured establishes nothing: it is outside the
            # verifier's reach for every property it carries, the safety-only ones included (its failures need not be safety failures for that)
            wide = (md0 in ('contract_only', 'external') or f.owner in g.reshaped or f.owner in g.new_constructs or f.owner in g.renamed or f.owner in g.rule_lost) and pid in g.props_of(f.owner)
            if pid in f.props or wide:
                md = r.modes.get(f.owner)
                if unknown:
                    soft.append((name, f.owner, 'the unit contains functions unknown to the overlay (%s); failed: %s' % (', '.join(unknown[:4]), f.ident()[:120])))
                elif md in ('contract_only', 'external'): soft.append((name, f.owner, 'contract-only verification of the rewritten function failed: ' + f.ident()))
                else: failures.append((name, f))
        for k_, why in r.fallback.items():
            if pid in g.relying_props(k_) and r.modes.get(k_) == 'external':
                soft.append((name, k_, why))
        # a function on this property's path that the verifier reports as not verified, with no failure attributed to the property
        # through a clause label: report its failures under the function's own properties
        for short, st in r.fn_stats.items():
            if st.get('success') is False and pid in g.props_of(short):
                if not any(f.owner == short for (_, f) in failures) and not any(s_[1] == short for s_ in soft):
                    owned = [f for f in r.failures if f.owner == short]
                    if not owned:
                        # the verifier names no location inside the function (both spans of the diagnostic lie in library code, e.g. the panic inside `assert!` / `unreachable!`):
                        # the function is reported as not verified, so the ownerless failures are its failures
                        import copy
                        for f0 in r.failures:
                            if f0.owner is None:
                                f1 = copy.copy(f0); f1.owner = short; owned.append(f1)
                    for f in owned:
                        if f.owner == short and not f.label and pid in g.props_of(short, f):      # a labelled clause names its own properties
                            md = r.modes.get(f.owner)
                            if md in ('contract_only', 'external'): soft.append((name, f.owner, 'contract-only verification of the rewritten function failed: ' + f.ident()))
                            else: failures.append((name, f))
        # a function on this property's path that is reported as not verified, with every failed clause attributed to other properties (e.g. a functional loop
        # invariant failed and this property is safety-only on the function): the clauses of this property were checked *under* the failed ones, so they are not
        # established - outside the verifier's reach for this property, the bounded stand-in decides
        for short, st in r.fn_stats.items():
            if st.get('success') is False and pid in g.props_of(short):
                if not any(f.owner == short for (n_, f) in failures if n_ == name) and not any(s_[1] == short for s_ in soft):
                    others = [f.ident()[:80] for f in r.failures if f.owner == short][:2]
                    soft.append((name, short, 'the function is not verified (failed clauses carry other properties: %s), so what it establishes for this property is not established either' % '; '.join(others)))
        for (fname, k_, props_) in g.missing:
            if pid in props_: soft.append((name, k_, 'contracted function no longer exists'))
        if g.new_constructs:
            # a failed proof in a function that newly uses library constructs with weak or no specification is not evidence of a violation
            moved = [(n_, f_) for (n_, f_) in failures if n_ == name and f_.owner in g.new_constructs]
            failures = [(n_, f_) for (n_, f_) in failures if not (n_ == name and f_.owner in g.new_constructs)]
            soft += [(name, f_.owner, 'the function now uses library constructs whose specifications are too weak to carry the proof (%s); failed: %s' % (', '.join(g.new_constructs[f_.owner][:5]), f_.ident()[:100])) for (_, f_) in moved]
        if g.rule_lost:
            # a textual normalisation rule (3.2) applies at fewer sites of the function than on the pinned tree: the text the verifier saw is not what the overlay expects
            moved = [(n_, f_) for (n_, f_) in failures if n_ == name and f_.owner in g.rule_lost]
            failures = [(n_, f_) for (n_, f_) in failures if not (n_ == name and f_.owner in g.rule_lost)]
            soft += [(name, f_.owner, 'a normalisation rule no longer applies where it applied on the pinned tree (%s), so a failed proof is not conclusive; failed: %s' % (', '.join(g.rule_lost[f_.owner][:3]), f_.ident()[:100])) for (_, f_) in moved]
        if g.reshaped:
            # a failed proof in a function whose statement structure is no longer the pinned one (statements added, a match turned into an if, a loop
            # reshaped ...) may only mean that hints, normalisation rules or invariants no longer fit: the bounded stand-in decides
            moved = [(n_, f_) for (n_, f_) in failures if n_ == name and f_.owner in g.reshaped]
            failures = [(n_, f_) for (n_, f_) in failures if not (n_ == name and f_.owner in g.reshaped)]
            soft += [(name, f_.owner, 'the function was restructured (its statement skeleton is not the pinned one), so a failed proof is not conclusive; failed: %s' % f_.ident()[:110]) for (_, f_) in moved]
        if g.renamed:
            moved = [(n_, f_) for (n_, f_) in failures if n_ == name and f_.owner in g.renamed]
            failures = [(n_, f_) for (n_, f_) in failures if not (n_ == name and f_.owner in g.renamed)]
            soft += [(name, f_.owner, 'the function was alpha-renamed to the pinned local names (rule 27) before verification; failed: %s' % f_.ident()[:120]) for (_, f_) in moved]
        if unknown:
            moved = [(n_, f_) for (n_, f_) in failures if n_ == name]
            failures = [(n_, f_) for (n_, f_) in failures if n_ != name]
            soft += [(name, f_.owner, 'the unit contains functions unknown to the overlay (%s); failed: %s' % (', '.join(unknown[:4]), f_.ident()[:120])) for (_, f_) in moved]
        for (own, msg) in r.rlimit:
            if pid in (g.relying_props(own) if own in g.owner_props else [pid]):
                # the solver gave up on a function that verifies on the unchanged tree: undecided by the verifier; the bounded stand-in may still find a failing input
                soft.append((name, own, 'resource limit exceeded while verifying %s (undecided by the verifier)' % own))
    for (k_, props_, why_) in pinned_changed:
        soft.append(('pinned', k_, why_))
    for k in kres:
        cmds.append(k['cmd'])
        n_obl += k.get('checks', 1)
        if k['status'] == 'ok': n_dis += k.get('checks', 1)
        elif k['status'] == 'failed': failures.append(('kani', k['failure']))
        else: undecided.append('kani %s: %s' % (k['harness'], k.get('reason', '')))
    # known findings
    kf = [k for k in known_findings() if k['property'] == pid]
    new_fail = []
    printed = set()
    seen_ident = set()
    for (uname, f) in failures:
        ident = f.ident()
        if ident in seen_ident: continue
        seen_ident.add(ident)
        hit = [k for k in kf if re.search(k['obligation'], ident)]
        if hit:
            for k in hit:
                if k['what'] not in printed:
                    print('KNOWN-FINDING: property=%s %s' % (pid, k['what'])); printed.add(k['what'])
        else:
            new_fail.append((uname, f))
    # findings that are outside the verifier's model are always printed (they are facts about the unchanged tree)
    for k in kf:
        if k['obligation'] == 'MODEL' and k['what'] not in printed:
            print('KNOWN-FINDING: property=%s %s' % (pid, k['what'])); printed.add(k['what'])
    bounded_runs = []
    soft_viol = []
    if not new_fail:
        # clauses that are permanently outside the verifier's reach (stated in DESIGN.md 3.4): bounded stand-in on every run, never counted as proved.
        # Every property has at least the cross-unit supplement: its statement is about the public entry points, its units assume the contracts of the
        # units of other properties (tokenizer, parser, registries, context, entry points); the replay corpus exercises the whole path.
        from vx import witness
        ab = spec.get('always_bounded') or dict(
            function='the property through the public entry points (cross-unit supplement: what this property\'s units assume about the rest of the crate)',
            categories=witness.PROP_CATS.get(pid, []),
            why="the property's units are verified against the *contracts* of the functions around them; that those functions (other units, pinned primitives, the entry points) still behave so is decided by their own properties' checks - this replay reports it under this property too when the corpus has a witness",
            bound='the differential replay corpus of vx/corpus.py for this property\'s categories (fixed cases + seed-0 random cases; the number of cases run is in `cases`)')
        try:
            tried = 0; found = None
            for cat in ab['categories']:
                ds, n_ = witness.run_category(cat, a.repo_src, seed)
                tried += n_
                for d in ds:
                    if pid in d['properties'] and found is None: found = d
            bounded_runs.append(dict(kind='differential replay corpus vs reference semantics (vx/oracle.py)', function=ab['function'], cases=tried, bound=ab['bound'], found=bool(found)))
            if found:
                soft.append(('bounded', ab['function'], ab['why'])); soft_viol.append(found)
        except Exception as e:
            undecided.append('bounded stand-in for %s failed: %s: %s' % (ab['function'], type(e).__name__, str(e)[:200]))
    if soft and not new_fail and not soft_viol:
        from vx import witness
        try:
            d, tried = witness.search(pid, None, a.repo_src, seed)
            bounded_runs.append(dict(kind='differential replay corpus vs reference semantics (vx/oracle.py)', cases=tried, bound='fixed corpus of vx/corpus.py plus its seed-0 random cases (enumerated operator pairs, long chains, corruptions of valid programs, every arithmetic/bit operator over the integer-range edges, non-plain number literals, programs with observable and failing context functions, conversion boundaries, registration / override / reuse scripts); the number of cases run is in `cases`',
                                     reason=[s_[1] + ': ' + s_[2][:160] for s_ in soft], found=bool(d)))
            if d: soft_viol.append(d)
            else: undecided += ['%s: %s is outside the verifier\'s reach (%s) and the bounded stand-in (%d cases) found no failing input' % (s_[0], s_[1], s_[2][:120], tried) for s_ in soft]
        except Exception as e:
            undecided.append('bounded stand-in failed: %s: %s' % (type(e).__name__, str(e)[:200]))
    wall = time.time() - t0
    ev = dict(property_id=pid, tier=tier, seed=seed, level=spec.get('level', 'proof'), wall_s=round(wall, 2),
              violations=len(new_fail),
              coverage=dict(obligations=n_obl, discharged=n_dis,
                            checker_cmd=' ; '.join(cmds) if cmds else 'none',
                            trusted_base=sorted(set(trusted + spec.get('trusted', []))),
                            functions_under_contract=fn_rows,
                            solver_time_ms=solver_ms,
                            back_end='Verus 0.2026.09.13 (Z3)' + (' + Kani 0.68 (CBMC 6.11, CaDiCaL)' if kres else ''),
                            normalisations_applied=counters,
                            kani=[{k2: v2 for k2, v2 in k.items() if k2 != 'failure'} for k in kres],
                            bounded=spec.get('bounded', []) + bounded_runs,
                            not_covered=spec.get('not_covered', []),
                            undecided=undecided,
                            samples=[r_['function'] + ' [' + r_['unit'] + ']' for r_ in fn_rows[:12]] + [k['harness'] for k in kres],
                            thorough=extras),
              assumptions=spec.get('assumptions', []))
    if new_fail:
        ev['coverage']['failed_obligations'] = [f.to_json() if hasattr(f, 'to_json') else f for (_, f) in new_fail]
    os.makedirs(os.path.join(VERIF, 'evidence'), exist_ok=True)
    if not os.environ.get('VX_NO_EVIDENCE'): json.dump(ev, open(os.path.join(VERIF, 'evidence', pid + '.json'), 'w'), indent=1)
    if soft_viol and not new_fail:
        os.makedirs(os.path.join(VERIF, 'replays'), exist_ok=True)
        for d in soft_viol:
            path = os.path.join(VERIF, 'replays', '%s.bounded.%s.json' % (pid, re.sub(r'[^A-Za-z0-9_.-]+', '_', soft[0][1])[:80]))
            json.dump(dict(property=pid, obligation='bounded stand-in for ' + ', '.join(sorted(set(s_[1] for s_ in soft))), level='bounded (not proof)', why=[s_[2] for s_ in soft],
                           failing_input=d['case'], expected=d['expected'], observed=d['observed'], explanation=d['why']), open(path, 'w'), indent=1)
            print('VIOLATION property=%s replay=%s obligation=bounded-stand-in(%s) input=%s' % (pid, path, soft[0][1], json.dumps(d['case'].get('s', d['case'].get('script')))))
        ev['violations'] = len(soft_viol)
        if not os.environ.get('VX_NO_EVIDENCE'): json.dump(ev, open(os.path.join(VERIF, 'evidence', pid + '.json'), 'w'), indent=1)
        return 1
    if new_fail:
        from vx import replay
        os.makedirs(os.path.join(VERIF, 'replays'), exist_ok=True)
        for (uname, f) in new_fail:
            fj = f.to_json() if hasattr(f, 'to_json') else f
            ident = fj['obligation']
            path = os.path.join(VERIF, 'replays', '%s.%s.json' % (pid, re.sub(r'[^A-Za-z0-9_.#-]+', '_', ident)[:120]))
            rep = replay.build_replay(pid, fj, a.repo_src, seed)
            json.dump(rep, open(path, 'w'), indent=1)
            tail = '' if rep.get('failing_input') else ' no-failing-input-found'
            print('VIOLATION property=%s replay=%s obligation=%s%s' % (pid, path, ident, tail))
        return 1
    if tier == 'thorough' and extras:
        for u_, pr in (extras.get('reachability') or {}).items():
            if pr.get('status') == 'vacuous': undecided.append('self-test: unit %s: assert(false) behind the preconditions of %s verifies (vacuous contract)' % (u_, ', '.join(pr['not_reached'][:5])))
        for e_ in extras.get('sensitivity') or []:
            if e_['outcome'] in ('missed', 'other_property_only', 'inapplicable'): undecided.append('self-test: sensitivity catalogue entry %s is %s' % (e_['id'], e_['outcome']))
        for e_ in extras.get('equivalent_edits') or []:
            if e_['outcome'] == 'false_alarm': undecided.append('self-test: behaviour-preserving edit %s fails %s' % (e_['id'], e_.get('obligations')))
        for s_ in extras.get('seeded_regression') or []:
            if s_.get('outcome') in ('not_reported', 'error'): undecided.append('self-test: seeded change %s is no longer reported (%s)' % (s_.get('id'), s_.get('line') or s_.get('detail') or 'exit %s' % s_.get('exit')))
        for l_ in extras.get('cross_unit_links') or []:
            if l_.get('status') != 'ok': undecided.append('self-test: cross-unit link %s: %s' % (l_.get('link'), l_.get('detail')))
        for k_ in extras.get('dependency_validation') or []:
            if k_.get('status') != 'ok': undecided.append('self-test: Kani validation of an assumed dependency contract: %s is %s %s' % (k_.get('harness'), k_.get('status'), k_.get('tail', '')[-120:]))
        bc = extras.get('bounded_corpus') or {}
        if bc.get('discrepancies'):
            d = bc['first']
            os.makedirs(os.path.join(VERIF, 'replays'), exist_ok=True)
            path = os.path.join(VERIF, 'replays', '%s.bounded.corpus.json' % pid)
            json.dump(dict(property=pid, obligation='bounded differential corpus (thorough tier)', level='bounded (not proof)', failing_input=d['case'], expected=d['expected'], observed=d['observed'], explanation=d['why']), open(path, 'w'), indent=1)
            print('VIOLATION property=%s replay=%s obligation=bounded-corpus input=%s' % (pid, path, json.dumps(d['case'].get('s', d['case'].get('script')))))
            return 1
    if undecided:
        for u in undecided: print('UNDECIDED property=%s %s' % (pid, u))
        return 2
    print('OK property=%s tier=%s obligations=%d discharged=%d wall=%.1fs' % (pid, tier, n_obl, n_dis, wall))
    return 0

def _cleanup():
    import shutil, hashlib
    try:
        src = os.environ.get('VX_REPO_SRC', '/repo/src')
        for i_, a_ in enumerate(sys.argv):
            if a_ == '--repo-src' and i_ + 1 < len(sys.argv): src = sys.argv[i_ + 1]
        root = os.path.dirname(os.path.abspath(src))
        if root != '/repo':
            shutil.rmtree(os.path.join(VERIF, 'build', 'driver_' + hashlib.sha1(root.encode()).hexdigest()[:10]), ignore_errors=True)
    except Exception:
        pass
    shutil.rmtree(os.path.join(VERIF, 'build', 'gen', 'p%d' % os.getpid()), ignore_errors=True)

if __name__ == '__main__':
    try:
        rc = main()
    except SystemExit:
        raise
    except BaseException as e:
        # a failure of the machinery itself is never an alarm: undecided, exit 2
        import traceback
        traceback.print_exc()
        pid_ = next((x for x in sys.argv[1:] if not x.startswith('-')), '?')
        print('UNDECIDED property=%s the check itself failed (%s: %s); nothing is claimed' % (pid_, type(e).__name__, str(e)[:200]))
        rc = 2
    finally:
        _cleanup()
    sys.exit(rc)
