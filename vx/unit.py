"""A verification unit = one generated single-file Verus crate: trusted prelude + real source (spliced) + ghost vocabulary."""
import re, os, hashlib, json, subprocess, time
from .rustsrc import File, LexError
from .splice import Edits, FnSpec, apply_fn, AnchorLost

REPO_SRC = os.environ.get('VX_REPO_SRC', '/repo/src')

class Src:
    """include /repo/src/<name>: every top-level item except `use`, test modules and the ones dropped here"""
    def __init__(self, name, fns=(), drop=(), drop_fns=(), item_attr=None, keep_fns=None, header='', footer='', props=(), regex_rules=(), keep_items=None, dyn_calls=False, loader=None, pre=None, string_concat=False):
        self.name = name
        self.fns = {s.key: s for s in fns}
        self.drop = set(drop)              # item names ('<X as fmt::Display>', 'create_context', ...)
        self.drop_fns = set(drop_fns)      # fn keys removed from their impl block
        self.keep_fns = keep_fns           # if given: only these fn keys are kept
        self.item_attr = item_attr or {}   # item name -> attribute text inserted before it
        self.header, self.footer = header, footer
        self.props = list(props)           # default properties of un-annotated functions of this file
        self.regex_rules = list(regex_rules)
        self.loader = loader               # callable(repo_src) -> File (virtual source, e.g. lifted handlers)
        self.pre = pre                     # callable(text, counters) -> text applied before lexing (macro expansion, rule 11)
        self.string_concat = string_concat # rule 9
        self.dyn_calls = dyn_calls         # rule 7: rewrite applications of handler values to vx_apply(h, (args,))
        self.keep_items = keep_items       # predicate(kind, name) on top-level items (None = keep all)   # (rule_name, pattern, replacement) textual normalisations with counters

class Ghost:
    def __init__(self, text, props=(), name=''):
        self.text, self.props, self.name = text, list(props), name

class Unit:
    def __init__(self, name, parts, expect_counts=None):
        self.name, self.parts = name, parts
        self.expect_counts = expect_counts or {}

class Generated:
    def __init__(self):
        self.lines = []        # generated text lines
        self.origin = []       # per line: (file, line) or None
        self.owner = []        # per line: function key / ghost fn name or None
        self.owner_props = {}  # owner -> default props
        self.counters = {}
        self.trusted = []      # descriptions of trusted items
        self.fn_keys = []
        self.missing = []
        self.probed = []
        self.uncontracted = []
        self.binding_seqs = {}     # fn key -> names bound, in order (rule 27)
        self.constructs = {}       # fn key -> weak-specification constructs its text uses (vx/constructs.py)
        self.new_constructs = {}   # fn key -> those that the pinned text did not use
        self.rule_counts = {}      # fn key -> {textual rule: sites where it applied}
        self.rule_lost = {}        # fn key -> rules that apply at fewer sites than on the pinned tree
        self.skeletons = {}        # fn key -> statement skeleton of the body (vx/constructs.py)
        self.reshaped = set()      # fn keys whose skeleton is not the pinned one
        self.renamed = {}          # fn key -> {actual: pinned} alpha-renaming applied     # kept functions (verified with their bodies) that carry no contract      # contracted functions that no longer exist: (file, key, props)
    def text(self):
        return '\n'.join(self.lines) + '\n'
    SAFETY = ('termination', 'overflow', 'range', 'div_zero', 'shift')
    def props_of(self, owner, failure=None):
        """default properties of a function. An entry `Cxx!` means: only the function's safety and termination obligations belong to Cxx
        (overflow, index/range, division, shift, termination, preconditions of library functions such as unwrap) - not its functional contract."""
        out = []
        for p in self.owner_props.get(owner, []) or []:
            if not p.endswith('!'): out.append(p)
            elif failure is None or failure.kind in self.SAFETY: out.append(p[:-1])
            elif failure.kind == 'precondition':
                # the precondition of a library function (vstd) or of a trusted std specification of the prelude (slicing, unwrap, indexing): safety.
                # the precondition of a repository function's own contract is part of the functional argument.
                co = getattr(failure, 'clause_owner', 'unknown')
                if 'library specification' in (failure.clause_text or '') or not (failure.clause_text or '').strip() or co is None or str(co).startswith('ghost:'): out.append(p[:-1])
        return out
    def relying_props(self, key):
        """properties of `key` and of every function of the unit whose text calls something of that name (over-approximate, by last
        path segment): when `key` is left unverified, its contract - possibly an implicit one such as a FromSpecImpl - is an
        assumption of exactly those proofs"""
        name = re.split(r'::', key)[-1]
        pat = re.compile(r'(?:\.|::|\b)%s\s*(?:::<[^>]*>)?\(' % re.escape(name))
        props = set(self.props_of(key))
        for ln, own in zip(self.lines, self.owner):
            if own and own != key and not str(own).startswith('ghost:') and pat.search(ln):
                props |= set(self.props_of(own))
        return sorted(props)

_FNHDR = re.compile(r'^\s*(?:pub(?:\([a-z]+\))?\s+)?(?:(?:open|closed|uninterp|broadcast|const)\s+)*(?:(?:spec|proof|exec|axiom)\s+)?fn\s+(\w+)')
_ASSUME = re.compile(r'assume_specification\s*(?:<[^\[]*>)?\s*\[\s*([^\]]+)\]')

def _emit_text(g, text, props, tag):
    cur = None
    for ln in text.split('\n'):
        m = _FNHDR.match(ln)
        if m:
            cur = 'ghost:' + m.group(1)
            g.owner_props.setdefault(cur, list(props))
        g.lines.append(ln); g.origin.append(None); g.owner.append(cur)
        for m2 in _ASSUME.finditer(ln):
            g.trusted.append('assume_specification[%s]' % m2.group(1).strip())
        if 'external_body' in ln and 'fn ' in ln:
            m3 = re.search(r'fn\s+(\w+)', ln)
            if m3: g.trusted.append('external_body fn %s (%s)' % (m3.group(1), tag))
        if re.search(r'\baxiom fn\b', ln):
            m3 = re.search(r'fn\s+(\w+)', ln)
            g.trusted.append('axiom %s' % m3.group(1))
        if re.search(r'\bassume\s*\(', ln) and not ln.strip().startswith('//'):
            g.trusted.append('assume in ghost text: ' + ln.strip()[:120])

def generate(unit, repo_src=None, modes=None, probe=False):
    repo_src = repo_src or REPO_SRC
    modes = modes or {}
    g = Generated()
    g.modes = dict(modes)
    c = g.counters
    parts = unit.parts(repo_src, g) if callable(unit.parts) else unit.parts
    for part in parts:
        if isinstance(part, Ghost):
            _emit_text(g, part.text, part.props, part.name)
            continue
        if isinstance(part, str):
            _emit_text(g, part, [], '')
            continue
        sf = part
        if sf.loader is not None:
            f = sf.loader if not callable(sf.loader) else sf.loader(repo_src, g)
        elif sf.pre is not None:
            f = File(os.path.join(repo_src, sf.name), src=sf.pre(open(os.path.join(repo_src, sf.name)).read(), c))
        else:
            f = File(os.path.join(repo_src, sf.name))
        # weak-specification constructs per contracted function, against the pinned sets
        if sf.fns and hasattr(f, 'fns') and hasattr(f, 'toks'):
            from . import constructs as _cs
            pinned_cs = _cs.load().get(unit.name, {})
            for key_ in sf.fns:
                fn_ = f.fns.get(key_)
                if fn_ is None: continue
                try: cur_ = _cs.of_fn(f, fn_)
                except Exception: continue
                g.constructs[key_] = cur_
                try:
                    g.skeletons[key_] = _cs.skeleton(f, fn_)
                    psk = _cs.load_skeletons().get(unit.name, {}).get(key_)
                    if psk is not None and psk != g.skeletons[key_] and not _cs.small_in_place_edit(psk, g.skeletons[key_]): g.reshaped.add(key_)
                except Exception:
                    pass
                if key_ in pinned_cs:
                    new_ = [x for x in cur_ if x not in pinned_cs[key_]]
                    if new_: g.new_constructs[key_] = new_
        # rule 27: alpha-rename pure renames back to the pinned names (before anything else looks at the text)
        if sf.loader is None and sf.fns:
            from . import locals as _loc
            pinned_locals = _loc.load().get(unit.name, {})
            red = Edits(f.src); nren = 0
            for key_, spec_ in sf.fns.items():
                fn_ = f.fns.get(key_)
                if fn_ is None or spec_.trust or modes.get(key_) == 'external': continue
                exp_ = pinned_locals.get(key_)
                if not exp_: continue
                m_ = _loc.plan(f, fn_, exp_)
                if m_:
                    nren += _loc.apply(f, fn_, m_, red); g.renamed[key_] = m_
            if nren:
                newsrc, _org = red.apply()
                f = File(f.path, src=newsrc, name=f.name)
                c['rule27_alpha_rename'] = c.get('rule27_alpha_rename', 0) + len(g.renamed)
        ed = Edits(f.src)
        t = f.toks
        keep_ranges = []
        for it in f.items:
            kind, name, i0, i1 = it
            a = t[i0].a; b = t[i1 - 1].b
            drop = False
            if kind == 'use' or kind == 'moddecl': drop = True; c['rule1_use_dropped'] = c.get('rule1_use_dropped', 0) + 1
            elif kind == 'mod': drop = True; c['rule1_test_mod_dropped'] = c.get('rule1_test_mod_dropped', 0) + 1
            elif kind == 'impl' and 'fmt::Display' in name: drop = True; c['rule2_display_dropped'] = c.get('rule2_display_dropped', 0) + 1
            elif kind == 'fn' and '::' in name and name.split('::')[0] != name:
                # method inside an impl: handled with its impl block
                continue
            if name in sf.drop: drop = True; c['dropped_items'] = c.get('dropped_items', 0) + 1
            if (not drop) and sf.keep_items is not None and not sf.keep_items(kind, name): drop = True; c['dropped_items'] = c.get('dropped_items', 0) + 1
            if kind == 'fn' and sf.keep_fns is not None and not sf.keep_fns(name): drop = True
            if kind == 'fn' and name in sf.drop_fns: drop = True
            if drop:
                # remove the item together with attributes and the rest of its line
                e = b
                while e < len(f.src) and f.src[e] in ' \t': e += 1
                if e < len(f.src) and f.src[e] == '\n': e += 1
                ed.replace(a, e, '')
                continue
            if name in sf.item_attr and kind != 'impl':
                ed.insert(a, sf.item_attr[name] + '\n')
                c['rule6_external_derive'] = c.get('rule6_external_derive', 0) + 1
        # methods
        for key, fn in f.fns.items():
            top = fn.owner is None
            owner_dropped = (not top) and (('fmt::Display' in fn.owner.key_prefix) or fn.owner.key_prefix in sf.drop or (sf.keep_items is not None and not sf.keep_items('impl', fn.owner.key_prefix)))
            if owner_dropped: continue
            if top and ((sf.keep_items is not None and not sf.keep_items('fn', key)) or key in sf.drop or key in sf.drop_fns or (sf.keep_fns is not None and not sf.keep_fns(key))): continue
            if (not top) and (key in sf.drop_fns or (sf.keep_fns is not None and not sf.keep_fns(key))):
                a = fn.a; b = fn.b
                ls = f.src.rfind('\n', 0, a) + 1
                # doc comments / comment lines directly above the function go with it
                if f.src[ls:a].strip() == '':
                    while ls > 0:
                        pl = f.src.rfind('\n', 0, ls - 1) + 1
                        if f.src[pl:ls].strip().startswith('//'): ls = pl
                        else: break
                e = b
                while e < len(f.src) and f.src[e] in ' \t': e += 1
                if e < len(f.src) and f.src[e] == '\n': e += 1
                ed.replace(ls if f.src[ls:a].lstrip().startswith('//') or f.src[ls:a].strip() == '' else a, e, '')
                c['dropped_fns'] = c.get('dropped_fns', 0) + 1
                continue
            # rule 5: `_` parameter patterns
            n_un = 0
            for i in range(fn.i_po + 1, fn.i_pc):
                if t[i].s == '_' and t[i + 1].s == ':' and t[i - 1].s in ('(', ','):
                    ed.replace(t[i].a, t[i].b, '_unused%d' % n_un); n_un += 1
                    c['rule5_underscore_param'] = c.get('rule5_underscore_param', 0) + 1
            spec = sf.fns.get(key)
            md = modes.get(key, 'full')
            body_dropped = md == 'external' or (spec is not None and spec.trust)
            _c0 = dict(c)
            if sf.string_concat and not body_dropped:
                from .splice import fold_string_concat
                fold_string_concat(f, fn, ed, c)
            if spec is not None and not body_dropped:
                mc = {op[1]: op[2] for op in spec.ops if op[0] == 'mapcollect'}
                if mc or getattr(sf, 'map_collect', False):
                    from .splice import rewrite_map_collect
                    rewrite_map_collect(f, fn, ed, c, mc)
            if sf.dyn_calls and not body_dropped:
                from .splice import rewrite_dyn_calls
                rewrite_dyn_calls(f, fn, ed, c)
            for _k, _v in c.items():       # the structural rules (7, 9, 26) applied inside this function
                if _k.startswith('rule') and _v != _c0.get(_k, 0):
                    g.rule_counts.setdefault(key, {})
                    g.rule_counts[key][_k] = g.rule_counts[key].get(_k, 0) + (_v - _c0.get(_k, 0))
            if spec is None and md == 'external':
                ed.replace(t[fn.i_bo].a, t[fn.i_bc].b, '{ unimplemented!() }')
                ed.insert(t[fn.i_attr].a, '#[verifier::external_body]\n')
            if spec is not None:
                apply_fn(f, ed, spec, c, md, probe)
                if probe and not spec.trust and md != 'external': g.probed.append(key)
                if spec.trust:
                    h = hashlib.sha256(fn.text().encode()).hexdigest()[:16]
                    g.trusted.append('trusted body (pinned text %s): %s' % (h, key))
            g.fn_keys.append(key)
            if spec is None: g.uncontracted.append(key)
            elif sf.loader is None:
                from . import locals as _loc2
                g.binding_seqs[key] = _loc2.binding_seq(f, fn)
        missing = [k for k in sf.fns if k not in f.fns]
        for k_ in missing:
            g.missing.append((sf.name, k_, [p_.rstrip('!') for p_ in (list(sf.fns[k_].props) or list(sf.props))]))
        text, org = ed.apply()
        # textual rules with counters (rule 13 etc.) are applied on the edited text but only change listed patterns
        _spans = [(fn_.a, fn_.b, key_) for key_, fn_ in f.fns.items()]
        for (rname, pat, rep) in sf.regex_rules:
            # keep the origin map aligned: do the substitution piecewise
            out = []; oorg = []; pos = 0; n = 0
            for m in re.finditer(pat, text):
                _o = next((org[q] for q in range(m.start(), min(m.end(), len(org))) if org[q] >= 0), -1)
                _own = next((k3 for (a3, b3, k3) in _spans if a3 <= _o < b3), None) if _o >= 0 else None
                if _own is not None:
                    g.rule_counts.setdefault(_own, {})
                    g.rule_counts[_own][rname] = g.rule_counts[_own].get(rname, 0) + 1
                out.append(text[pos:m.start()]); oorg.extend(org[pos:m.start()])
                r = rep(m) if callable(rep) else m.expand(rep)
                out.append(r); oorg.extend([org[m.start()]] + [-1] * (len(r) - 1) if r else [])
                pos = m.end(); n += 1
            out.append(text[pos:]); oorg.extend(org[pos:])
            text = ''.join(out); org = oorg
            c[rname] = c.get(rname, 0) + n
        from . import constructs as _cs2
        _pin_rc = _cs2.load_rule_counts().get(unit.name, {})
        for key_ in f.fns:
            for rname_, n_ in (_pin_rc.get(key_) or {}).items():
                if g.rule_counts.get(key_, {}).get(rname_, 0) < n_:
                    g.rule_lost.setdefault(key_, []).append(rname_)
        # owner map by original offsets
        spans = []
        for key, fn in f.fns.items():
            spans.append((fn.a, fn.b, key))
        def owner_of(off):
            for (a, b, key) in spans:
                if a <= off < b: return key
            return None
        if sf.header: _emit_text(g, sf.header, sf.props, sf.name)
        pos = 0
        lines = text.split('\n')
        cur_owner = None
        for ln in lines:
            seg = org[pos:pos + len(ln)]
            pos += len(ln) + 1
            offs = [o for o in seg if o >= 0]
            if offs:
                o = offs[0]
                own = owner_of(o)
                # a line is attributed to a function if any original char of it lies inside the function
                if own is None:
                    for o2 in offs:
                        own = owner_of(o2)
                        if own: break
                g.origin.append((getattr(f, 'real_name', sf.name), f.real_line(f.line_of(o)) if hasattr(f, 'real_line') else f.line_of(o)))
                cur_owner = own
                g.owner.append(own)
            else:
                g.origin.append(None)
                g.owner.append(cur_owner)
            g.lines.append(ln)
        for key in f.fns:
            sp = sf.fns.get(key)
            g.owner_props.setdefault(key, (list(sp.props) + [p_ for p_ in sf.props if p_.endswith('!') and p_ not in sp.props]) if (sp and sp.props) else list(sf.props))
        if sf.footer: _emit_text(g, sf.footer, sf.props, sf.name)
    for i, ln in enumerate(g.lines):
        if g.origin[i] is None and re.search(r'\b(assume|admit)\s*\(', ln) and not ln.strip().startswith('//') and 'assume_specification' not in ln:
            d = 'assume in %s: %s' % (g.owner[i], ln.strip()[:140])
            if d not in g.trusted and not any(d2.endswith(ln.strip()[:120]) for d2 in g.trusted): g.trusted.append(d)
    # fix up owners of inserted lines that precede the first original line of a function (attributes, spec lines)
    for i in range(len(g.lines) - 2, -1, -1):
        if g.origin[i] is None and g.owner[i] is None and g.owner[i + 1] and not str(g.owner[i + 1]).startswith('ghost:') and g.lines[i].strip().startswith('#['):
            g.owner[i] = g.owner[i + 1]
    return g
