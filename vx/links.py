"""Cross-unit links (DESIGN.md 3.1): a contract that one unit *assumes* for a function (an external_body stub in its prelude) must be the
contract another unit *proves* for the real body. The pairs below are compared mechanically after the declared renaming of vocabulary;
a stub clause with no counterpart must be listed as a residual assumption. Run by the thorough tier (a mismatch is a self-test failure,
exit 2 - it says the overlay is inconsistent, not that the repository broke a property)."""
import os, re, importlib
VERIF = os.path.dirname(os.path.dirname(os.path.abspath(__file__)))

def _norm(s):
    s = re.sub(r'//.*', '', s)
    s = re.sub(r'\s+', '', s)
    return s

def _clauses(spec):
    """top-level clauses of a `requires/ensures` text"""
    s = re.sub(r'//[^\n]*', '', spec)
    s = re.sub(r'\b(requires|ensures|decreases)\b', '\x00', s)
    out = []
    for part in s.split('\x00'):
        depth = 0; cur = ''
        for ch in part:
            if ch in '([{': depth += 1
            if ch in ')]}': depth -= 1
            if ch == ',' and depth == 0:
                out.append(cur); cur = ''
            else: cur += ch
        out.append(cur)
    return [_norm(c) for c in out if _norm(c)]

def _stub_ensures(text, fn):
    if '::' in fn:
        ty, fn = fn.split('::')
        i = text.find('impl %s {' % ty)
        if i < 0: return None
        j = text.find('\n}', i)
        text = text[i:j]
    m = re.search(r'fn\s+%s\s*\([^)]*\)\s*(?:->\s*\(?[^{;]*?\)?\s*)?((?:requires|ensures)[^{]*)\{\s*unimplemented' % re.escape(fn), text, re.S)
    return m.group(1) if m else None

# (assuming unit file, stub fn, proving unit module, FnSpec key, renaming of the stub's vocabulary into the prover's, residual assumption clauses (normalised regex))
LINKS = [
  ('keyword_stub.rs', 'is_postfix_op', 'lb', 'is_postfix_op', {}, []),
  ('keyword_stub.rs', 'is_prefix_op', 'lb', 'is_prefix_op', {}, []),
  ('keyword_stub.rs', 'is_infix_op', 'lb', 'is_infix_op', {}, []),
  ('keyword_stub.rs', 'is_not', 'lb', 'is_not', {}, []),
  ('keyword_stub.rs', 'is_op', 'lb', 'is_op', {r'reg_op\(op@\)': '(reg_prefix(op@)||reg_infix(op@)||reg_postfix(op@)||op@=="?"@||op@==":"@)'},
      [r'r==super::reg_opb\(op\.spec_bytes\(\)\)']),     # residual: the answer depends on the text only, hence on its bytes (A8)
  ('ghost_parser.rs', 'get_precidence', 'lb', 'InfixOpManager::get_precidence', {r'keyword::reg_infix': 'reg_infix'}, []),
  # unit ev's trusted registry reads are what unit lb proves for the real bodies (rule 30)
  ('ev_prelude_trusted.rs', 'get_op_type', 'lb', 'InfixOpManager::get_op_type', {}, []),
  ('ev_prelude_trusted.rs', 'get_handler', 'lb', 'InfixOpManager::get_handler', {}, []),
  ('ev_prelude_trusted.rs', 'PrefixOpManager::get', 'lb', 'PrefixOpManager::get', {}, []),
  ('ev_prelude_trusted.rs', 'PostfixOpManager::get', 'lb', 'PostfixOpManager::get', {}, []),
  ('ev_prelude_trusted.rs', 'InnerFunctionManager::get', 'lb', 'InnerFunctionManager::get', {r'\(op@\)': '(name@)'}, []),
]

def check():
    """-> list of dicts(link, status, detail)"""
    out = []
    for (stub_file, fn, unit, key, ren, residual) in LINKS:
        text = open(os.path.join(VERIF, 'contracts', stub_file)).read()
        st = _stub_ensures(text, fn)
        mod = importlib.import_module('contracts.' + unit)
        specs = {}
        parts = mod.UNIT.parts() if callable(mod.UNIT.parts) else mod.UNIT.parts
        for part in parts:
            for k_, f in (getattr(part, 'fns', None) or {}).items():
                if hasattr(f, 'spec'): specs[k_] = f.spec
        for name in dir(mod):
            v = getattr(mod, name)
            if isinstance(v, list):
                for f in v:
                    if hasattr(f, 'key') and hasattr(f, 'spec'): specs[f.key] = f.spec
        link = '%s::%s <- %s::%s' % (stub_file, fn, unit, key)
        if st is None or key not in specs:
            out.append(dict(link=link, status='broken', detail='stub or proved contract not found')); continue
        proved = set(_clauses(specs[key]))
        bad = []
        for c in _clauses(st):
            c2 = c
            for a, b in ren.items(): c2 = re.sub(a, _norm(b), c2)
            if c2 in proved: continue
            if any(re.fullmatch(r_, c) for r_ in residual): continue
            # a conjunction proved clause by clause
            if all(p_ in proved for p_ in c2.split('&&')) and '&&' in c2: continue
            bad.append(c)
        out.append(dict(link=link, status='ok' if not bad else 'broken', detail='; '.join(bad)[:300], residual=residual))
    return out

if __name__ == '__main__':
    import sys; sys.path.insert(0, VERIF)
    for r in check(): print(r)
