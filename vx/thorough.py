"""thorough-tier extras (DESIGN.md 3.5): reachability probes, sensitivity catalogue, doubled rlimit"""
def run(pid, spec, repo_src, results):
    return {}
