"""thorough-tier extras (DESIGN.md 3.5): reachability probes behind every precondition, the sensitivity catalogue, equivalent
edits that must still verify, and the complete differential corpus as a *bounded* supplement (never counted as proved)."""
import os, re, shutil, tempfile, importlib, concurrent.futures as cf
from . import run as vrun

def _mutate(repo_src, fname, pat, rep):
    d = tempfile.mkdtemp(prefix='vxcat_')
    dst = os.path.join(d, 'src')
    shutil.copytree(repo_src, dst)
    p = os.path.join(dst, fname)
    s = open(p).read()
    n = len(re.findall(pat, s))
    if n != 1:
        shutil.rmtree(d, ignore_errors=True)
        return None, 'pattern matches %d times' % n
    open(p, 'w').write(re.sub(pat, rep, s, count=1))
    root = os.path.dirname(os.path.abspath(repo_src))
    if os.path.exists(os.path.join(root, 'Cargo.toml')): shutil.copy(os.path.join(root, 'Cargo.toml'), os.path.join(d, 'Cargo.toml'))
    return d, ''

def _run_entry(entry, repo_src, pid, expect_fail=True):
    if expect_fail: ident, prop, units, fname, pat, rep = entry
    else: (ident, units, fname, pat, rep), prop = entry, pid
    d, why = _mutate(repo_src, fname, pat, rep)
    if d is None:
        return dict(id=ident, outcome='inapplicable', detail=why)
    try:
        hard = []; und = []; other = []
        for u in units:
            unit = importlib.import_module('contracts.' + u).UNIT
            r = vrun.run_unit(unit, os.path.join(d, 'src'), out_dir=os.path.join(d, 'gen'), threads=2)
            if r.status == 'undecided': und.append('%s: %s' % (u, r.reason[:160]))
            for f in r.failures:
                if r.modes.get(f.owner) in ('contract_only', 'external'):
                    und.append('%s fell back to %s' % (f.owner, r.modes.get(f.owner)))
                elif (not expect_fail) or prop in f.props: hard.append(f.ident())
                else: other.append(f.ident())
            for k, w in r.fallback.items():
                if r.modes.get(k) == 'external': und.append('%s: %s' % (k, w[:100]))
            for own, msg in r.rlimit: und.append('resource limit in %s' % own)
        hard = [h for h in hard if not re.search(r'from\.(i|u)128$', h)]      # known findings D8
        if expect_fail:
            outcome = 'caught' if hard else ('undecided' if und else ('other_property_only' if other else 'missed'))
        else:
            outcome = 'false_alarm' if hard else ('undecided' if und else 'verifies')
        return dict(id=ident, outcome=outcome, obligations=sorted(set(hard))[:4], detail='; '.join(und)[:300])
    finally:
        shutil.rmtree(d, ignore_errors=True)

def _seeded_regression(pid, repo_src):
    import subprocess, sys, glob
    verif = os.path.dirname(os.path.dirname(os.path.abspath(__file__)))
    root = os.path.dirname(os.path.abspath(repo_src))
    dirs = sorted(d for d in glob.glob(os.path.join(verif, 'seeded', pid + '-*')) if os.path.exists(os.path.join(d, 'patch.diff')))
    def one(d):
        t = tempfile.mkdtemp(prefix='vxseed_')
        try:
            subprocess.run(['rsync', '-a', '--exclude', 'target', '--exclude', '.git', root + '/', t + '/'], check=True)
            a = subprocess.run(['patch', '-p1', '-s', '-d', t, '-i', os.path.join(d, 'patch.diff')], capture_output=True, text=True)
            if a.returncode != 0: return dict(id=os.path.basename(d), outcome='inapplicable')
            r = subprocess.run([sys.executable, '-m', 'vx.check', pid, '--repo-src', os.path.join(t, 'src')], cwd=verif, capture_output=True, text=True, timeout=1500,
                               env=dict(os.environ, VX_NO_EVIDENCE='1'))
            line = next((l for l in r.stdout.split('\n') if l.startswith(('VIOLATION', 'UNDECIDED'))), '')
            return dict(id=os.path.basename(d), outcome='reported' if r.returncode == 1 else 'not_reported', exit=r.returncode, by=('bounded stand-in' if 'bounded-stand-in' in line else 'failed obligation') if r.returncode == 1 else '', line=line[:200])
        finally:
            shutil.rmtree(t, ignore_errors=True)
            import hashlib
            shutil.rmtree(os.path.join(verif, 'build', 'driver_' + hashlib.sha1(t.encode()).hexdigest()[:10]), ignore_errors=True)
    with cf.ThreadPoolExecutor(max_workers=4) as ex:
        return list(ex.map(one, dirs))

def run(pid, spec, repo_src, results):
    out = {}
    cat = importlib.import_module('contracts.catalogue')
    # 1. reachability: assert(false) behind the preconditions of every contracted function of this property's units must fail
    probes = {}
    for u in spec.get('units', []):
        unit = importlib.import_module('contracts.' + u).UNIT
        pr = vrun.run_probe(unit, repo_src)
        probes[u] = dict(status=pr['status'], probed=len(pr['probed']), reached=len(pr['reached']), not_reached=pr['not_reached'], reason=pr.get('reason', ''))
    out['reachability'] = probes
    # 2. sensitivity catalogue for this property; 3. equivalent edits on this property's units
    entries = [e for e in cat.C if e[1] == pid]
    eq = [e for e in cat.EQUIVALENT if set(e[1]) & set(spec.get('units', []))]
    with cf.ThreadPoolExecutor(max_workers=6) as ex:
        f1 = [ex.submit(_run_entry, e, repo_src, pid, True) for e in entries]
        f2 = [ex.submit(_run_entry, e, repo_src, pid, False) for e in eq]
        out['sensitivity'] = [f.result() for f in f1]
        out['equivalent_edits'] = [f.result() for f in f2]
    # 4. the complete differential corpus, as a bounded supplement
    try:
        from . import witness
        tried = 0; found = []
        for c in witness.PROP_CATS.get(pid, []):
            ds, n = witness.run_category(c, repo_src, 0)
            tried += n
            found += [d for d in ds if pid in d['properties']]
            if c in ('parse', 'exec'):
                for sd in range(1, 7):            # six further seeds of random programs (about 4 000 each), beyond the registered corpus
                    ds, n = witness.run_category(c, repo_src, sd, random_only=True)
                    tried += n
                    found += [d for d in ds if pid in d['properties']]
        out['bounded_corpus'] = dict(cases=tried, seeds='0 (registered corpus) and 1..6 (random programs only)', discrepancies=len(found), first=(found[0] if found else None))
    except Exception as e:
        out['bounded_corpus'] = dict(error='%s: %s' % (type(e).__name__, str(e)[:200]))
    # 4b. cross-unit links: what one unit assumes for a function is what another unit proves for its real body (vx/links.py)
    try:
        from . import links
        out['cross_unit_links'] = links.check()
    except Exception as e:
        out['cross_unit_links'] = [dict(link='*', status='broken', detail='%s: %s' % (type(e).__name__, str(e)[:200]))]
    # 4c. regression over the seeded property-breaking changes of this property (seeded/<pid>-*/patch.diff): each must still be reported (exit 1) when applied
    #     to a scratch copy of the tree under check; a patch that no longer applies (the tree has moved on) is skipped
    try:
        out['seeded_regression'] = _seeded_regression(pid, repo_src)
    except Exception as e:
        out['seeded_regression'] = [dict(id='*', outcome='error', detail='%s: %s' % (type(e).__name__, str(e)[:200]))]
    # 5. C17: the assumed from_iN contracts (A3) validated against the real rust_decimal code by complete Kani harnesses
    if pid == 'C17':
        try:
            from . import kani
            out['dependency_validation'] = kani.run_dependency_validation()
        except Exception as e:
            out['dependency_validation'] = [dict(harness='*', status='undecided', tail='%s: %s' % (type(e).__name__, str(e)[:200]))]
    return out
