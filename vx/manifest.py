"""writes MANIFEST.json from contracts/props.py (claimed) and contracts/na.py (not applicable)"""
import json, os, sys, importlib
VERIF = os.path.dirname(os.path.dirname(os.path.abspath(__file__)))
sys.path.insert(0, VERIF)
def main():
    P = importlib.import_module('contracts.props')
    ids = [json.loads(l)['id'] for l in open(os.path.join(VERIF, 'properties.jsonl'))]
    checks = []
    for pid in ids:
        if pid not in P.PROPS: continue
        s = P.PROPS[pid]
        checks.append(dict(property_id=pid, quick_cmd='./check %s --tier quick' % pid, thorough_cmd='./check %s --tier thorough' % pid,
                           evidence_file='/verif/evidence/%s.json' % pid, replay_cmd_template='./check %s --replay {path}' % pid,
                           engine='vx', level_claimed=dict(category=s.get('level', 'proof'), text=s.get('level_text', ''), design_ref=s.get('design_ref', 'DESIGN.md section 5, ' + pid)),
                           level_note=s.get('level_note', ''), technique=s.get('technique', 'contract-based deductive verification: Verus 0.2026.09.13 on the mechanically extracted real source (units %s)%s' % (', '.join(s.get('units', [])), ('; always-on bounded differential stand-in (never counted as proved) for: ' + s['always_bounded']['function']) if s.get('always_bounded') else ''))))
    na = [dict(property_id=pid, reason=P.NOT_APPLICABLE.get(pid, 'not yet built; see DESIGN.md')) for pid in ids if pid not in P.PROPS]
    m = dict(version=1, setup_cmd='./setup.sh',
             hooks=dict(guard='ashyanspada_expression_engine_rs_verif',
                        enable='no hooks needed: Verus checks work on source text extracted from /repo on every run; Kani harnesses are appended as #[cfg(kani)] modules to a scratch copy of /repo',
                        baseline_off_cmd='cd /repo && cargo test --workspace --no-fail-fast --offline', source_commits=[], add_only=True),
             engines=[dict(name='vx', path='/verif/vx', serves_properties=[c['property_id'] for c in checks],
                           kind_free_text='generator (structural splicer of contract overlays onto the real source) + Verus runner + result mapper; Kani harness runner')],
             checks=checks, not_applicable=na,
             notes='See DESIGN.md. Fix commits in /repo are listed in known_findings.txt (fixed: lines).')
    json.dump(m, open(os.path.join(VERIF, 'MANIFEST.json'), 'w'), indent=1)
if __name__ == '__main__':
    main()
