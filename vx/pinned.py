"""Trusted in-repo primitives (DESIGN.md 3.2): their bodies are not verified, so their *text is pinned*.
A pinned function whose token stream differs from the recorded one is outside what the contracts assume: the properties that lean
on it are then decided only by the bounded stand-in (violation with a failing input) or are UNDECIDED - never silently passed."""
import os, json, hashlib
from .rustsrc import File

VERIF = os.path.dirname(os.path.dirname(os.path.abspath(__file__)))
PINS = {
 'operator.rs': {
   'InfixOpManager::new': ['C01', 'C08'], 'InfixOpManager::register': ['C01', 'C02', 'C08', 'C12'],
   'PrefixOpManager::new': ['C01', 'C08'], 'PrefixOpManager::register': ['C01', 'C08'],
   'PostfixOpManager::new': ['C01', 'C08'], 'PostfixOpManager::register': ['C01', 'C08'],
 },
 'function.rs': {'InnerFunctionManager::new': ['C01', 'C08'], 'InnerFunctionManager::register': ['C01', 'C08']},
 'context.rs': {'macro:create_context': ['C06', 'C08'], 'Context::new': ['C06'], 'Context::set': ['C01', 'C06', 'C07', 'C08', 'C09']},
 'init.rs': {'init': ['C01', 'C08', 'C12']},
 'descriptor.rs': {'DescriptorManager::new': ['C01', 'C18'], 'DescriptorManager::set': ['C18']},
 # the public entry points: what they initialise, and in which order, is assumed by every unit (registries initialised before the first token is read)
 'lib.rs': {'parse_expression': ['C01', 'C02', 'C03', 'C05', 'C08', 'C09', 'C10', 'C12', 'C18'], 'execute': ['C01', 'C03', 'C04', 'C06', 'C07', 'C08', 'C09'], 'init': ['C01', 'C02', 'C03', 'C05', 'C08', 'C10', 'C12'],
            'register_function': ['C01', 'C08'], 'register_prefix_op': ['C01', 'C08'], 'register_postfix_op': ['C01', 'C08'], 'register_infix_op': ['C01', 'C08']},
 # the *shape* of the types: derive lists and the set of impl headers of a file. The units model `==`, `clone()`, `From` of these types structurally (derived impls);
 # a hand-written impl or a changed derive list is outside that model
 'value.rs': {'shape:': ['C01', 'C03', 'C04', 'C06', 'C07', 'C09', 'C17']},
 'token.rs': {'shape:': ['C01', 'C02', 'C05', 'C10', 'C12']},
 'parser.rs': {'shape:': ['C01', 'C02', 'C05', 'C06', 'C07', 'C12', 'C18']},
}
PINS['operator.rs']['shape:'] = ['C01', 'C02', 'C03', 'C04', 'C05', 'C08', 'C12']
PINS['context.rs']['shape:'] = ['C06', 'C07', 'C08']
def shape(f):
    t = [x.s for x in f.toks]; out = []; i = 0; n = len(t)
    while i < n:
        if t[i] == '#' and i + 2 < n and t[i + 1] == '[' and t[i + 2] == 'derive':
            j = i
            while j < n and t[j] != ']': j += 1
            out.append(' '.join(t[i:j + 1])); i = j + 1
        elif t[i] == 'impl':
            j = i
            while j < n and t[j] != '{': j += 1
            out.append(' '.join(t[i:j])); i = j + 1
        elif t[i] in ('enum', 'struct') and i + 1 < n:
            out.append(t[i] + ' ' + t[i + 1]); i += 2
        else: i += 1
    return out
def fingerprint(f, key):
    if key == 'shape:':
        return hashlib.sha256('\n'.join(shape(f)).encode()).hexdigest()[:20]
    if key.startswith('macro:'):
        for it in f.items:
            if it[0] == 'macro_rules' and it[1] == key[6:]:
                return hashlib.sha256(' '.join(t.s for t in f.toks[it[2]:it[3]]).encode()).hexdigest()[:20]
        return None
    fn = f.fns.get(key)
    if fn is None: return None
    toks = f.toks[fn.i_fn:fn.i_bc + 1]
    return hashlib.sha256(' '.join(t.s for t in toks).encode()).hexdigest()[:20]

def current(repo_src):
    out = {}
    for fname, fns in PINS.items():
        try: f = File(os.path.join(repo_src, fname))
        except Exception: f = None
        for key in fns:
            out['%s::%s' % (fname, key)] = fingerprint(f, key) if f else None
    return out

def changed(repo_src):
    """-> [(file::key, props, why)] for pinned primitives whose text is not the recorded one"""
    exp = json.load(open(os.path.join(VERIF, 'contracts', 'pinned.json')))
    cur = current(repo_src)
    out = []
    for fname, fns in PINS.items():
        for key, props in fns.items():
            k = '%s::%s' % (fname, key)
            if cur.get(k) != exp.get(k):
                out.append((k, props, 'trusted primitive %s: text %s (pinned %s)' % (k, 'missing' if cur.get(k) is None else 'changed to ' + cur[k], exp.get(k))))
    return out

if __name__ == '__main__':
    json.dump(current('/repo/src'), open(os.path.join(VERIF, 'contracts', 'pinned.json'), 'w'), indent=1, sort_keys=True)
    print('pinned', len(current('/repo/src')))
