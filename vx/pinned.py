"""Trusted in-repo primitives (DESIGN.md 3.2): their bodies are not verified, so their *text is pinned*.
A pinned function whose token stream differs from the recorded one is outside what the contracts assume: the properties that lean
on it are then decided only by the bounded stand-in (violation with a failing input) or are UNDECIDED - never silently passed."""
import os, json, hashlib
from .rustsrc import File

VERIF = os.path.dirname(os.path.dirname(os.path.abspath(__file__)))
PINS = {
 'operator.rs': {
   'InfixOpManager::new': ['C01', 'C08'], 'InfixOpManager::register': ['C01', 'C08'],
   'PrefixOpManager::new': ['C01', 'C08'], 'PrefixOpManager::register': ['C01', 'C08'],
   'PostfixOpManager::new': ['C01', 'C08'], 'PostfixOpManager::register': ['C01', 'C08'],
 },
 'function.rs': {'InnerFunctionManager::new': ['C01', 'C08'], 'InnerFunctionManager::register': ['C01', 'C08']},
 'context.rs': {'macro:create_context': ['C06', 'C08'], 'Context::new': ['C06'], 'Context::set': ['C01', 'C06', 'C08']},
 'init.rs': {'init': ['C01', 'C08', 'C12']},
 'descriptor.rs': {'DescriptorManager::new': ['C01', 'C18'], 'DescriptorManager::set': ['C18']},
}
def fingerprint(f, key):
    if key.startswith('macro:'):
        for it in f.items:
            if it[0] == 'macro_rules' and it[1] == key[6:]:
                return hashlib.sha256(' '.join(t.s for t in f.toks[it[2]:it[3]]).encode()).hexdigest()[:20]
        return None
    fn = f.fns.get(key)
    if fn is None: return None
    toks = f.toks[fn.i_fn:fn.i_bc + 1]
    return hashlib.sha256(' '.join(t.s for t in toks).encode()).hexdigest()[:20]

def current(repo_src):
    out = {}
    for fname, fns in PINS.items():
        try: f = File(os.path.join(repo_src, fname))
        except Exception: f = None
        for key in fns:
            out['%s::%s' % (fname, key)] = fingerprint(f, key) if f else None
    return out

def changed(repo_src):
    """-> [(file::key, props, why)] for pinned primitives whose text is not the recorded one"""
    exp = json.load(open(os.path.join(VERIF, 'contracts', 'pinned.json')))
    cur = current(repo_src)
    out = []
    for fname, fns in PINS.items():
        for key, props in fns.items():
            k = '%s::%s' % (fname, key)
            if cur.get(k) != exp.get(k):
                out.append((k, props, 'trusted primitive %s: text %s (pinned %s)' % (k, 'missing' if cur.get(k) is None else 'changed to ' + cur[k], exp.get(k))))
    return out

if __name__ == '__main__':
    json.dump(current('/repo/src'), open(os.path.join(VERIF, 'contracts', 'pinned.json'), 'w'), indent=1, sort_keys=True)
    print('pinned', len(current('/repo/src')))
