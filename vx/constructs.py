"""Library constructs whose Verus specifications are weak or absent (closures passed to combinators, iterator adapters, formatting macros).
A contracted function that *newly* uses one of them (it did not on the pinned tree, contracts/constructs.json) may fail its proof although it
still computes what the contract says - the verifier simply knows less about the new text than about the old. A failed obligation in such a
function is therefore outside the verifier's reach (bounded stand-in decides), never a violation by itself (DESIGN.md 3.4)."""
import os, re, sys, json
VERIF = os.path.dirname(os.path.dirname(os.path.abspath(__file__)))
WEAK = [
  ('closure', r'(?<![|\w)\]])\|[^|\n]*\|\s*(?:[\w({&*\-!"\']|->)'), ('move_closure', r'\bmove\s*\|'),
  ('map', r'\.map\('), ('and_then', r'\.and_then\('), ('ok_or_else', r'\.ok_or_else\('),
  ('unwrap_or_else', r'\.unwrap_or_else\('), ('cloned', r'\.cloned\('), ('copied', r'\.copied\('), ('map_err', r'\.map_err\('),
  ('map_or', r'\.map_or\('), ('map_or_else', r'\.map_or_else\('), ('filter', r'\.filter\('), ('iter', r'\.iter\('), ('into_iter', r'\.into_iter\('), ('collect', r'\.collect\b'),
  ('any', r'\.any\('), ('all', r'\.all\('), ('find', r'\.find\('), ('position', r'\.position\('), ('fold', r'\.fold\('), ('try_fold', r'\.try_fold\('), ('sum', r'\.sum\b'),
  ('rev', r'\.rev\('), ('enumerate', r'\.enumerate\('), ('zip', r'\.zip\('), ('chain', r'\.chain\('), ('take', r'\.take\('), ('skip', r'\.skip\('), ('flat_map', r'\.flat_map\('),
  ('reduce', r'\.reduce\('), ('nth', r'\.nth\('), ('peekable', r'\.peekable\('), ('from_fn', r'\bfrom_fn\('), ('chars', r'\.chars\('), ('bytes', r'\.bytes\('),
  ('format', r'\bformat!\s*\('), ('write', r'\bwrite!\s*\('), ('as_deref', r'\.as_deref\(\)'), ('is_some_and', r'\.is_some_and\('), ('then', r'\.then\('), ('then_some', r'\.then_some\('), ('entry', r'\.entry\('), ('get_or_insert', r'\.get_or_insert'), ('trim', r'\.trim\w*\('), ('split', r'\.split\w*\('), ('strip', r'\.strip_\w+\('),
  ('find_str', r'\.r?find\('), ('to_owned', r'\.to_owned\('), ('extend', r'\.extend\w*\('), ('retain', r'\.retain\('), ('drain', r'\.drain\('),
  ('try_from', r'\btry_from\('), ('try_into', r'\.try_into\('), ('wrapping', r'\.wrapping_\w+\('), ('saturating', r'\.saturating_\w+\('), ('overflowing', r'\.overflowing_\w+\('),
]
_W = [(n, re.compile(p)) for n, p in WEAK]

def of_text(text):
    text = re.sub(r'//[^\n]*', '', text)
    return sorted(n for n, p in _W if p.search(text))

def of_fn(f, fn):
    return of_text(f.src[f.toks[fn.i_fn].a:f.toks[fn.i_bc].b])

def skeleton(f, fn):
    """statement skeleton of a function body: kinds of statements and their nesting, no names, no expressions. An in-place edit (another operator,
    constant, variable, condition) keeps it; restructuring (a new statement, a match turned into an if, a loop reshaped) changes it."""
    from .rustsrc import parse_block
    def sk(stmts, top=False):
        out = []
        for n, st in enumerate(stmts):
            kind = st.kind
            if top and n == len(stmts) - 1 and kind == 'return': kind = 'expr'      # `return x;` in tail position is the tail expression `x`
            if kind == 'assign': kind = 'expr'
            subs = [(role if role != 'closure' else 'c', sk(sub)) for (role, _, _, sub) in st.blocks]
            arms = []
            for a in st.arms:
                blk = a[4] if len(a) > 4 else None
                arms.append(sk(blk) if isinstance(blk, list) else 'e')
            out.append([kind, subs, arms])
        return out
    return json.dumps(sk(parse_block(f.toks, fn.i_bo, fn.i_bc), True), separators=(',', ':'))

def _nodes(sk, path=()):
    """flat multiset of skeleton nodes: (kinds on the path to the node, kind)"""
    out = []
    for kind, subs, arms in sk:
        out.append(path + (kind,))
        for role, sub in subs:
            out += _nodes(sub, path + (kind, role))
        for a in arms:
            out.append(path + (kind, 'arm'))
            if isinstance(a, list): out += _nodes(a, path + (kind, 'arm'))
    return out

def small_in_place_edit(pinned_json, current_json):
    """is `current` the pinned skeleton up to a small in-place edit - at most four nodes removed or added, nothing converted (no control statement replaced by one of
    another kind at the same place) and no `let` added (a new binding is how refactorings introduce names; changes that break behaviour remove guards, add early exits or
    arms, or move a statement)? Only then is a failed proof in the function conclusive by itself."""
    from collections import Counter
    a, b = Counter(map(tuple, _nodes(json.loads(pinned_json)))), Counter(map(tuple, _nodes(json.loads(current_json))))
    removed, added = list((a - b).elements()), list((b - a).elements())
    if len(removed) + len(added) > 4: return False
    if any(n[-1] == 'let' for n in added): return False
    ctrl = ('if', 'match', 'loop')
    rc = set(n[:-1] for n in removed if n[-1] in ctrl); ac = set(n[:-1] for n in added if n[-1] in ctrl)
    if rc & ac and set(n[-1] for n in removed if n[-1] in ctrl) != set(n[-1] for n in added if n[-1] in ctrl): return False
    return True

_RC = None
def load_rule_counts():
    global _RC
    if _RC is None:
        p = os.path.join(VERIF, 'contracts', 'rulecounts.json')
        _RC = json.load(open(p)) if os.path.exists(p) else {}
    return _RC

_SK = None
def load_skeletons():
    global _SK
    if _SK is None:
        p = os.path.join(VERIF, 'contracts', 'skeletons.json')
        _SK = json.load(open(p)) if os.path.exists(p) else {}
    return _SK

def load():
    p = os.path.join(VERIF, 'contracts', 'constructs.json')
    return json.load(open(p)) if os.path.exists(p) else {}

if __name__ == '__main__':
    sys.path.insert(0, VERIF)
    import importlib
    from vx.unit import generate
    from vx import expected
    out = {}; sk = {}; rc = {}
    src = sys.argv[1] if len(sys.argv) > 1 else '/repo/src'
    for u in expected.UNITS:
        g = generate(importlib.import_module('contracts.' + u).UNIT, src)
        out[u] = g.constructs
        sk.setdefault(u, {}).update(g.skeletons)
        rc.setdefault(u, {}).update(g.rule_counts)
    json.dump(out, open(os.path.join(VERIF, 'contracts', 'constructs.json'), 'w'), indent=1, sort_keys=True)
    json.dump(sk, open(os.path.join(VERIF, 'contracts', 'skeletons.json'), 'w'), indent=0, sort_keys=True)
    json.dump(rc, open(os.path.join(VERIF, 'contracts', 'rulecounts.json'), 'w'), indent=0, sort_keys=True)
    print({k: len(v) for k, v in out.items()})
