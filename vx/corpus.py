"""Case generation for the replay driver (deterministic; VERIF_SEED only permutes the order in which candidates are tried)."""
import itertools, random
from . import oracle

LEVEL_OPS = ['=', '+=', '||', '&&', '<', '==', '|', '^', '&', '<<', '+', '-', '*', '%', 'in', 'beginWith']
ATOMS = ['1', 'x', '2.50', "'s'", 'true', 'f(y)', '[1,2]', '(a)']

def parse_cases():
    c = []
    A, B, C = 'a', 'b', 'c'
    # every ordered pair of operators (all precedence levels, both associativities), plain and negated
    for o1 in LEVEL_OPS:
        for o2 in LEVEL_OPS:
            c.append('%s %s %s %s %s' % (A, o1, B, o2, C))
            c.append('%s %s %s not %s %s' % (A, o1, B, o2, C))
            c.append('%s not %s %s %s %s' % (A, o1, B, o2, C))
    for o1, o2, o3 in itertools.product(['=', '||', '<', '+', '*', 'in'], repeat=3):
        c.append('a %s b %s c %s d' % (o1, o2, o3))
    # prefix / postfix
    for pre in ['-', '+', '!', 'not', 'AND', 'OR']:
        for x in ['x', 'x++', '(x + 1)', '[true]', '- x', 'f(1)']:
            c.append('%s %s' % (pre, x))
            c.append('%s %s * 2' % (pre, x))
            c.append('1 + %s %s' % (pre, x))
    c += ['x++', 'x--', 'x++ + 1', '1 + x++', '-x++', '- x ++', '(-x)++', '(x++)++', 'x++ ++', '-x++ ++', 'x ++ * y --', '!x++', 'f(1)++', '[1]++', '(1+2)++', '1++']
    # conditionals
    for o in LEVEL_OPS:
        c.append('a %s b ? c : d' % o)
        c.append('a ? b %s c : d' % o)
        c.append('a ? b : c %s d' % o)
    c += ['a ? b : c ? d : e', 'a ? b ? c : d : e', '(a ? b : c) ? d : e', 'a ? (b ? c : d) : e', 'a = b ? c : d', 'x = (b ? c : d)', '-a ? b : c', 'a++ ? b : c',
          'a ? b : c ; d', 'f(a ? b : c)', '[a ? b : c, d]', '{a ? b : c : d}', 'a not in b ? c : d', '5 < 2+3 ? 4 : 2', 'true && 3 not in [3]', '1 + 2*3 not == 7', 'a || b not in c']
    # calls, lists, maps, statements
    c += ['f()', 'f(1)', 'f(1,2)', 'f(1, g(2), [3])', 'f(1,)', 'f(,1)', 'f(1 2)', 'f(1', 'f 1', 'f)', 'f(1))', 'f (1)', 'f\t(1)',
          '[]', '[1]', '[1,]', '[1,2]', '[1,2,]', '[,1]', '[1,,2]', '[1 2]', '[1', '1]', '[[1],[2,[3]]]', '[1;2]', '[1:2]',
          '{}', '{1:2}', '{1:2,}', "{'a':1,'b':[2]}", '{1}', '{1,2}', '{1:2 3:4}', '{1:2', '{1:}', '{:1}', '{1:2,,}', '{a:b:c}',
          '', ' ', '\t\r\n', '1', '1;', '1;2', '1;2;', '1 2', ';', ';1', '1;;2', '1;;', 'a=1;a', 'a=1 a', 'a = b = c', 'a += b -= c', 'a = 1; b = a + 1; b',
          '(1)', '((1))', '()', '(1', '1)', '(1]', '[1)', '(1,2)', '(1;2)', '1 +', '+ 1', '* 2', '1 * / 2', '1 : 2', '? 1', '1 ?', '1 ? 2', '1 ? 2 :', 'true ? 1 , 2',
          'not', 'not 1', '1 not', '1 not 2', '1 not in', 'a not not in b', 'a in b in c', "'abc", '"abc', "'a' 'b'", "'a\"b'", '"a\'b"', "''", '"" == \'\'',
          '1.2.3', '1..2', '12abc', '1_000', '0.50', '007', '1.10 + 2', 'true', 'True', 'false', 'False', 'TRUE', 'truex', 'x.y_z', '_a', 'a.b(1)', 'in', 'in, 1', 'a in[1]', 'a in [1]', 'a in[1] in[[true]]',
          'not(x)', 'AND[true]', 'OR [false]', 'AND [true, false] && true', 'a beginWith b endWith c', "a beginWith 'x' == true",
          '1 << 2 >> 3', '1 <<= 2', 'a <<= b >>= c', 'a |= b', 'a || b | c', 'a&&b&c', 'a<b<=c', 'a=b==c', 'a!=b=c', '!a != !b', 'a = !b', '1-1', '1 - -1', '1--1', '1 -- 1', '1++1', '1 ++ 1', '- - 1', '-+-1', '1 +-+ 2',
          'a?b:c', 'a ?b :c', 'a ? b : c : d', 'a ? : c', '{a:b}?c:d']
    # no escape processing in strings (C10, C12): a backslash is an ordinary character and the first matching quote closes the string
    c += ['"it\'s \\"ok\\""', "'a\\'b'", '"a\\"', "'\\'", '"a\\" + "b"', "'\\' == '\\'", "\"a' + 'b\\\"\"", "'\\n'", '"\\\\"']
    # the content is the verbatim source between the delimiting quotes, the other quote character included (C10)
    c += ['"\'hello\'"', "'\"'", '"\'"', "'\"x'", '"x\'"', '"\'\'"', "'\"\"'", '"\'x\'" == "x"', "'\"a\" b'", '"\'\'a\'\'"', "[\"'\", '\"']", "f('\"q\"')"]
    for k in list(range(0, 10)) + list(range(14, 34)) + [62, 63, 64, 126, 127, 128, 254, 255, 256]:
        for u in ['é', '日', '🙂']:
            c.append("'" + 'a' * k + u * 4 + "'")
    c += ["'São José dos Campos – SP'", "x = 'ééééééééééééééééééééééééééééééé'; x", "f('" + 'é' * 40 + "')", "['" + 'a' * 23 + "é', '" + 'b' * 24 + "日']"]
    # a string literal is never a delimiter, separator or operator, whatever its content (C05, C10)
    c += ["[1 ',' 2]", 'max(1 "," 2)', "{1 ':' 2}", "true ? 1 ':' 2", "{1:2 ',' 3:4}", "a '('", "sep '('", "(1 + 2 ')'", "f(')'", "sum(1, 2 ')'", 'x = y\n"(" == x', "[1 ']'", "{1: 2 '}'", "1 '+' 2", "a 'in' b", "'-' 1",
          "x '=' 1", "1 ';' 2", "f '(' 1 ')'", "'not' true", "'[' 1 ']'", "a '?' b ':' c"]
    # characters whose code point ends in the byte of a quote, blank, delimiter, digit or operator character (C10 / C05 / C01: characters are never classified by their low byte)
    for u in ['\u2022', '\u5927', '\u0127', '\u0122', '\u2020', '\u0120', '\u010d', '\u0109', '\u010a', '\u0128', '\u0129', '\u012c', '\u013b', '\u013a', '\u0131', '\u0130', '\u017b', '\u017d', '\u015b', '\u015d', '\u012b', '\u012d', '\u013d', '\u0121', '\u0165', '\u0145']:
        c += ['"a %s b"' % u, "'%s'" % u, "'%s%s' == '%s%s'" % (u, u, u, u), '[1 %s, 2]' % u, '(1 %s)' % u, 'max(1 %s, 2)' % u, '{1:2 %s}' % u, '%s' % u, 'a%sb' % u, '1 + %s' % u, '%s(1)' % u, '1%s' % u, "x = '%s'; x" % u]
    c += ["']' in ['[', ']']", "['a', ']', 1+1]", "{'}': 1, 'k': 2>1}", "'EOF' == 'EOF'", "1 + 2; 'EOF' beginWith 'E'", "(')')", "f(')')", "[')', '(', ',', ':', ';', '?', '{', '}']", "'EOF'", "['EOF', 1]", "EOF", "EOF + 1", "true ? ':' : '?'", "{':': ','}", "';' == ';'; 2"]
    # multi-byte neighbours (C01 / C10)
    for u in ['é', 'ü', '日本', '🙂', 'ключ']:
        c += ['+%s' % u, '1+%s' % u, 'a>=%s' % u, '!%s' % u, 'x &&%s' % u, "'%s'" % u, "'%s'=='%s'" % (u, u), "['%s',1,2]" % u, "{'%s':1}" % u, "f('%s')" % u, "'%s')" % u, "['%s',,1]" % u,
              '%s' % u, '%s + 1' % u, '%s(1)' % u, 'a %s b' % u, "'%s" % u, '"%s\' + 1' % u, "x = '%s'; x" % u, '%s%s' % (u, u), '1 %s' % u, '(%s)' % u, '[%s]' % u,
              '{1: %s}' % u, '{%s: %s}' % (u, u), '[1, %s]' % u, 'f(1, %s)' % u, 'a ? %s : %s' % (u, u), '{1: %s, 2: [%s]}' % (u, u), 'x = %s; x' % u, '%s = 1' % u, '- %s' % u, '%s ++' % u, 'a; %s' % u, '{%s(1): -%s}' % (u, u)]
    return c

def corrupt(seeds, rnd, limit):
    """character-level corruptions of valid programs (C05): delete / duplicate / replace one delimiter or separator"""
    out = set()
    reps = {'(': '[{)', ')': ']},', '[': '({', ']': ')}', '{': '[(', '}': ')]', ',': ';:', ':': ',;', ';': ',', '?': ':', "'": '"', '"': "'"}
    for s in seeds:
        for i, ch in enumerate(s):
            if ch in reps:
                out.add(s[:i] + s[i + 1:])
                out.add(s[:i] + ch + ch + s[i + 1:])
                for r in reps[ch]: out.add(s[:i] + r + s[i + 1:])
    out = sorted(out)
    rnd.shuffle(out)
    return out[:limit]

SEEDS = ['f(1, [2, 3], {4: 5})', 'a ? [1, 2] : {3: (4)}', "x = f('s', y); [x, (1 + 2) * 3]", '{1: [2, (3)], 4: f(5, 6)}', 'a = (b + c) * d; e = [a, b]; e', 'AND [a < b, (c)] ? f() : g(1)']

def exec_cases():
    c = []
    nums = ['0', '1', '2', '-3', '2.5', '1.10', '0.1', '7']
    for op in ['+', '-', '*', '%', '<', '<=', '>', '>=', '==', '!=']:
        for a, b in itertools.product(nums, repeat=2):
            c.append('%s %s %s' % (a if not a.startswith('-') else '(%s)' % a, op, b if not b.startswith('-') else '(%s)' % b))
    for op in ['|', '^', '&', '<<', '>>']:
        for a, b in itertools.product(['0', '1', '5', '(-8)', '3.0', '2.5', '63', '64', '(-1)', '9223372036854775807', '9223372036854775808', '18446744073709551617', '4294967296'], repeat=2):
            c.append('%s %s %s' % (a, op, b))
    for op in ['+', '-', '*', '/', '%', '<', '==', '&&', '||', '|', '<<', 'beginWith', 'endWith', 'in']:
        for a, b in itertools.product(['1', 'true', "'a'", '[1]', 'nope'], repeat=2):
            c.append('%s %s %s' % (a, op, b))
    c += ['1/0', '5%0', '0/5', '6/3', '1/4', '79228162514264337593543950335+1', '79228162514264337593543950335*2', '(-79228162514264337593543950335)-1', '79228162514264337593543950335 + 0', '0.1 + 0.2 == 0.3', '0.1 + 0.2',
          '9007199254740993 > 9007199254740992', '0.1000000000000000000000000001 > 0.1', '1.10 == 1.1', '1.10', '1.50 * 2', '9223372036854775808', '18446744073709551615', '10000000000000000000 > 1', '123456789012345678901234567 + 1',
          '1<<64', '1<<63', '1<<-1', '1>>64', '(-8)>>1', '(-100)>>2', '1 << 4294967296', 'x = 1; x <<= 4294967296', 'x = 1; x <<= 2; x', 'x = -100; x >>= 2; x', '(1.5*2) << 1', '3.0 | 1', '2.5 | 1', '1 << 1.5', '(7/2) >> 1',
          'min()', 'max()', 'sum()', 'mul()', 'min(1)', 'min(3,1,2)', 'max(3,1,2)', 'min(1, true)', 'sum(1,2,3)', 'mul(2,3,4)', 'sum(79228162514264337593543950335, 1)', 'mul(79228162514264337593543950335, 2)', 'sum(1, \'a\')', 'min(2.50, 2.5)', 'max(-1, -2)',
          '-5', '- (2.5)', '+3', '-true', '!true', '!1', 'not false', 'not 1', 'AND [true, true]', 'AND [true, false]', 'AND []', 'OR []', 'OR [false, true]', 'OR [false, 1]', 'AND [false, 1]', 'AND [1]', 'AND true', 'OR 1',
          '1++', '1--', 'x = 5; x++', '79228162514264337593543950335++', '(-79228162514264337593543950335)--', 'true++', "'a'++",
          "'abc' beginWith 'ab'", "'abc' beginWith 'bc'", "'abc' endWith 'bc'", "'' beginWith ''", "'é日' beginWith 'é'", "'a' beginWith 1",
          '1 in [1, 2]', '3 in [1, 2]', '1.0 in [1]', "'a' in ['a']", '[1] in [[1]]', '1 in 1', 'true in [1, true]', '1 not in [2]', '2 not in [2]',
          'true ? 1 : 2', 'false ? 1 : 2', '1 ? 2 : 3', 'true ? one() : boom()', 'false ? boom() : two()', 'boom() ? 1 : 2', 't() ? one() : two()', 'f() ? one() : two()',
          '[1, 2.50, true, \'s\', [1], {1: 2}]', '{1: 2, \'a\': [3]}', '{one(): two(), t(): f()}', '[one(), two(), t()]', '[t(), boom(), two()]', '{one(): boom(), two(): 1}', '{boom(): one()}',
          'id(one()) + id(two())', 'cnt(one(), two(), t())', 'cnt(one(), boom(), two())', 'one() + boom() + two()', 'boom() + one()', 't() || two()', 't() || boom()', 'f() && boom()', 'f() && t()', 't() || 1/0 > 0', 'one() - two()', 'two() % one()',
          'one', 'one + two', 'nope', 'nope == nope', 'nope()', 'min(one, two())',
          'one += two()', 'one = two()', 'one -= id(two()); one', 'x = 1; one *= cnt(x = 5, two()); [x, one]', 't = f() ? one() : two(); t', 'boom = one()', 'boom += one()', 'one += boom()',
          # statements that are a bare provider name (C06/C07: it is evaluated, its failure stops the program)
          'x = 1; boom; x = 2; x', 'boom; y = 5', 'one; two(); 3', '1; boom', 'boom; 1', 'x = 1; one; x', 'nope; 2', "'s'; boom; 3", 'x = one; boom; x',
          # lists / maps of different lengths under == != in (C01: no index past the shorter one; C03)
          '[1, 2] == [1]', '[1] == [1, 2]', '[1, 2, 3] != []', '[] != [1]', '[] == []', "['a'] in [['a', 'b'], 2]", "['a', 'b'] in [['a'], ['a', 'b']]", '{1: 2, 3: 4} == {1: 2}', '{1: 2} == {1: 2, 3: 4}', '{} == {}', '[[1, 2], [3]] == [[1], [3]]', '[1, [2, 3]] != [1, [2]]',
          '{1: 2, 3: 4} == {3: 4, 1: 2}', '[1, 2] == [2, 1]', '[[]] == []', '[1, 2] in [[1], [1, 2, 3]]', '[] in [[]]', '{} in [{}]', '[{}] == [{1: 1}]',
          # a zero keeps its digits like any other number (C09)
          '0.00', '1.5 - 1.50', '4.50 % 1.5', '0.0 + 0.00', '0.000 * 5', 'z = 0.0; z', '[0.00, 0, 0.0]', '0.10 - 0.1', '2.50 - 2.5 == 0', '-0.00', '0.00 == 0',
          # a string literal whose content is a delimiter, separator, operator or the word EOF is a string like any other (C03 / C05 / C10)
          "']' in ['[', ']']", "['a', ']', 1+1]", "{'}': 1, 'k': 2>1}", "'EOF' == 'EOF'", "1 + 2; 'EOF' beginWith 'E'", "(')')", "id(')')", "[')', '(', ',', ':', ';', '?', '{', '}']", "cnt('(', ')')", "'EOF'", "['EOF', 1]", "x = ']'; x", "true ? ':' : '?'", "{':': ','}", "',' in [',', ';']", "';' == ';'; 2",
          # names are compared exactly: case, length (C06 / C07 / C08)
          'total = 1; Total = 2; total', 'total = 1; TOTAL', 'n = 5; N = 100; n += 1; [n, N]', 'Count = 3; [Count, count]', 'TRUE', 'FALSE ? 1 : 2', '[false, FALSE, tRue]', 'x = TRUE; x', 'True', 'IN', 'Not', 'x = 1; X', 'one; One', 'One()',
          # map entries are evaluated in source order, whatever their keys look like, duplicates included (C07)
          '{two(): one(), one(): two()}', '{t(): 1, one(): 2, cnt(): 3}', '{one(): two(), one(): t()}', '{two(): boom(), one(): t()}', '{t(): f(), id(1): cnt(), f(): one()}', "{'b': one(), 'a': two()}", '{2: two(), 1: one()}', '{two(): 1, boom(): 2, one(): 3}',
          # a chain whose LAST statement has an effect (C07/C06: every statement runs exactly once, the last one included)
          'a = 1; one()', 'x = 10; y = 1; x += 5', 'one(); two()', 'x = 2; x *= x', 'one(); boom()', 't(); cnt(one())', 'x = 1; y = 2; x <<= y', 'one();', 'x = 1; x += 1;', 'x = 1; x += 1; x += 1', 'two(); one(); one()', 'x = 3; x -= 1; x -= 1;', 'x = 5; one(); x %= 3',
          # membership over elements with effects (C07: every element is evaluated, left to right, before the test)
          'one() in [one(), two(), t()]', '2 in [1, 2, boom()]', 'seen = 2 in [1, 2, boom()]; one()', 'two() in [one(), boom()]', 'one() not in [two(), one(), cnt()]', 'x = 1; 1 in [x = 2, x, 1]; x', 'one() in [cnt(one(), two())]',
          't() && boom()', 'f() || boom()', 't() || f()', 'f() && t() && boom()', '[t() && f(), two()]', 'x = t() || (y = 1) == 1; y',
          # numbers that are not plain decimals (C09: rejected, never truncated or routed through floating point)
          '1e5', '1E5', '10e-3', '2e+3', '1.5E6', '1e', '1e+', '1.5e-4294967295', '0.25E-4294967294', '3 + 1.5e-4294967295 * 2', '1e28', '1e-28', '123456789012345678e1 == 1234567890123456780',
          '1.2.3', '1..2', 'x = 1.2.3; x', '1.2.3 + 1', '12abc', '1_000', '1.', '.5', '1.e1', '79228162514264337593543950336', '79228162514264337593543950335', '7922816251426433759354395033.5', '0.0000000000000000000000000001', '1.0000000000000000000000000000',
          '9007199254740993 == 9007199254740992', '0.1 + 0.2 == 0.30000000000000004', '1.000000000000000000000000001 == 1', '0.30000000000000001 != 0.3', '9007199254740993 in [9007199254740992]', "'1' == 1", "1 == '1'", "'1.0' in [1]", '1.0 == 1', '[1.0] == [1]',
          'price = 1.1; price = 1.10; price', 'qty = 3; qty = 3.00; qty', 'r = 0.5; r = 0.500; r = 0.50; r', 'a = 1.0; b = a; a = 1; [a, b]', 'x = 2.50; y = x; y',
          '5 = (y = 2)', 'a = 1; [a = 2] = (a = 3); a', 'n = 10; (n + 1) <<= (m = n)', 'one() = (y = two())', '(x = 1) = 2', 't() ? (u = 1) : (v = 2)', 'x = 1; x = boom(); y = 2',
          '* 3', '1 + / 2', '[1, % 2]', 'x = == 4', '++ 5', ': 1', 'f(? 2)', '-- x', '&& true', 'in [1]', '! ! true', '- - 1', 'not not true', '* * 2', '1 ++ 2',
          'nope(one(), two())', 'nope(boom(), one())', 'nope(x = 5); x', '[one(), nope(two()), t()]', 'nosuch(id(one()))',
          'boomT()', 'boomP()', 'boomT', 'sum(1, boomT())', 'min(boomP(), 1)', '[boomT(), one()]', 'x = boomP(); x', 'boomT() ? 1 : 2', 'max(1, 2) + boomP()',
          'boom', 'cnt(boom, two())', 'id(boom)', '[one, boom, two()]', '{one: boom}', 'boom + one()', 'one() + boom', 'true ? boom : 1', 'false ? boom : two()', 'boom ? 1 : 2', 'x = 1; y = boom; z = two(); 4', 'x = boom', '-boom', 'boom++', 'cnt(one, two, t)', 't ? one : two',
          'x = 1', 'x = 1; x', 'x = 1; y = x + 1; y', 'x = 1; x += 2; x', 'x = 6; x -= 1; x *= 3; x %= 4; x', 'x = 8; x /= 2; x', 'x = 6; x &= 3; x |= 8; x ^= 1; x', 'x = y = 3', 'x = 1; x = true; x', 'x += 1', 'x = 1; x += true', 'x = 1; x += true; x',
          '1 = 2', '(x) = 2; x', 'f() = 1', "x = 1; boom(); y = 2", 'x = 1; y = boom(); x', 'x = one(); y = two(); [y, x]', 'x = 1; x += ((x = 10) == 0 ? 1 : 2); x', 'x = 1; x = x + (x = 5) ; x', 'x = 2; [x, x = 3, x]', 'a = 1; [1/0, a = 2, two()]', 'a = 1; a',
          'nope ? one() : two()', 'nope && true', 'true && nope', 'AND [true, nope]', 'OR [false, nope]', '!nope', '-nope', '+nope', 'nope + 1', 'nope < 1', 'sum(1, 2, nope)', 'min(nope)', 'nope ++', "nope beginWith 'a'", 'nope | 1', 'x = nope; x', 'x = nope; x ? 1 : 2',
          'a = 5.5; a %= 2; a', 'a = 7; a %= 0.2; a', 'a = 1.5; a += 1.5; a |= 4; a', 'a = 2.5; a *= 2; a << 1', 'a = 7.5; a -= 0.5; a & 3', 'a = 9; a /= 2; a', 'a = 1000000000000000000000000007; a %= 10; a', 'x = y = 3; [x, y]', 'y = 1; x = y &= 3; [x, y]', 'y = 6; z = x = y |= 1; [z, x, y]', 'y = 1; x = y <<= 2; [x, y]', 'x = y += 3; [x, y]',
          '', '1; 2', '1; 2;', 'x = 1;', "'a' == 'a'", "'a' != 'b'", '[1, 2] == [1, 2]', '[1, 2] == [1, 2.0]', '{1: 2} == {1: 2}', 'nope == 1', 'true == 1', '1 == true']
    return c

def boundary_exec_cases():
    """every arithmetic / bit operator over the edges of the integer ranges (C04, C03)"""
    B = ['0', '1', '(-1)', '2', '63', '64', '2147483647', '2147483648', '4294967295', '4294967296', '4294967297', '(-4294967296)', '9223372036854775807', '9223372036854775808',
         '(-9223372036854775807)', '(-9223372036854775808)', '18446744073709551615', '18446744073709551616', '79228162514264337593543950335', '(-79228162514264337593543950335)', '0.5', '(-0.5)']
    c = []
    for op in ['+', '-', '*', '/', '%']:
        for a in B:
            for b in B:
                c.append('%s %s %s' % (a, op, b))
    small = ['0', '1', '(-1)', '2', '63', '64', '(-64)', '4294967296', '4294967297', '(-4294967295)', '9223372036854775807', '(-9223372036854775808)', '9223372036854775808', '18446744073709551616', '0.5']
    for op in ['<<', '>>', '&', '|', '^']:
        for a in small:
            for b in small:
                c.append('%s %s %s' % (a, op, b))
    for op in ['+=', '-=', '*=', '/=', '%=', '<<=', '>>=', '&=', '|=', '^=']:
        for a in ['0', '1', '(-1)', '0.5', '(-9223372036854775808)', '9223372036854775807', '79228162514264337593543950335', '5']:
            for b in ['0', '(-1)', '1', '64', '4294967296', '8589934592', '9223372036854775807', '79228162514264337593543950335']:
                c.append('a = %s; a %s %s; a' % (a, op, b))
    for f in ['sum', 'mul', 'min', 'max']:
        c += ['%s(9223372036854775807, 1)' % f, '%s(79228162514264337593543950335, 2)' % f, '%s((-9223372036854775808), (-1))' % f, '%s(0)' % f]
    M = '79228162514264337593543950335'
    for args in [(M, '1', '0'), (M, M, '(-5)'), (M, '1', '(-1)'), ('1', M, '(-%s)' % M), ('0', M, '1', '0', '0'), ('(-%s)' % M, '(-1)', '5')]:
        c.append('sum(%s)' % ', '.join(args))
    for args in [(M, '2', '1'), (M, '2', '0'), (M, M, '0'), ('2', M, '0.5'), ('1', M, '1', '10', '1'), ('(-%s)' % M, '(-2)', '1'), (M, '1.5', '1', '1')]:
        c.append('mul(%s)' % ', '.join(args))
    c += ['a = sum(%s, 1, 0); a > 0' % M, 'min(1, 2, 3)', 'min(5, (-4), 0, 9)', 'min(1, 2)', 'min(2, 2)', 'max(1, 9, 3)', 'max(9, 1, 3, 9)', 'min(3, 1, 2, 1, 5)', 'max((-1), (-9), (-3))', 'min(0.5, 0.50, 0.05)', 'max(0.5, 0.50, 5.0)']
    # size thresholds (C03 / C06 / C07: nothing changes at 16, 24, 32, 64 arguments, elements or bytes)
    for k in (17, 25, 33, 40, 65, 130, 257):
        c.append('max(' + ', '.join(['1'] * (k - 1)) + ', 99)'); c.append('min(' + ', '.join(['5'] * (k - 1)) + ', (-7))'); c.append('max(99, ' + ', '.join(['1'] * (k - 1)) + ')')
        c.append('sum(' + ', '.join(['1'] * k) + ')'); c.append('mul(' + ', '.join(['1'] * (k - 1)) + ', 3)'); c.append('%d in [' % (k - 1) + ', '.join(str(i) for i in range(k)) + ']')
        c.append('[1, boom(), ' + ', '.join(['one()'] * (k - 2)) + ']'); c.append('cnt(1, boom(), ' + ', '.join(['one()'] * (k - 2)) + ')'); c.append('cnt(' + ', '.join(['one()'] * k) + ')')
        c.append('[' + ', '.join(['two()'] * (k - 1)) + ', nope()]'); c.append('{' + ', '.join('%d: one()' % i for i in range(k)) + '}')
    for k in (31, 33, 63, 65, 70, 129, 257):
        V = 'v' * k
        c.append('%s_a = 1; %s_b = 2; %s_a' % (V, V, V)); c.append('%s_a = 1; %s_b' % (V, V)); c.append('%sa = 1; %sb = 2; [%sa, %sb]' % (V, V, V, V))
    c += ['9223372036854775807++', '(-9223372036854775808)--', '79228162514264337593543950335++', '-(-9223372036854775808)', '- 79228162514264337593543950335', '+(-0.5)']
    return c

def long_parse_cases():
    """long flat chains and moderately deep nesting (C01/C02/C05: any chain length, any nesting depth within the stack)"""
    c = []
    c.append(' + '.join(['a'] * 400))
    c.append(' * '.join('v%d++' % i if i % 2 == 0 else 'v%d--' % i for i in range(300)))
    c.append(' + '.join('v%d++ * w%d--' % (i, i) for i in range(150)))
    c.append('; '.join('a = b++ + c * d--' for _ in range(200)))
    c.append('; '.join('x%d = %d' % (i, i) for i in range(300)) + ';')
    c.append('(' * 150 + '1' + ')' * 150)
    c.append('[' * 150 + ']' * 150)
    c.append('f(' * 120 + ')' * 120)
    c.append(' '.join(['-'] * 150) + ' 1')
    c.append(' '.join(['not'] * 100) + ' true')
    c.append(' ? '.join(['a'] * 60) + ' : b' * 59)
    c.append('a = ' * 150 + '1')
    c.append(' '.join('a%d not in' % i for i in range(100)) + ' z')
    c.append('[' + ', '.join(str(i) for i in range(500)) + ']')
    c.append('{' + ', '.join('%d: %d' % (i, i) for i in range(300)) + '}')
    c.append('f(' + ', '.join('g(%d)' % i for i in range(300)) + ')')
    c.append('x' + '++' * 1 + ' + ' + ' + '.join('y%d++' % i for i in range(200)))
    c.append("'" + 'é' * 500 + "'")
    c.append('a' * 2000)
    c.append('1' * 28 + ' + ' + '1' * 27)
    # medium sizes: beyond any plausible small cap (32, 64), far from the stack
    for n in (33, 40, 65, 100):
        c.append(' = '.join('x%d' % i for i in range(n)) + ' = 5')
        c.append('1 + 1 * (' * min(n // 3, 14) + '2 + 3 * 4' + ')' * min(n // 3, 14))      # expr() renders a parenthesised operand twice: exponential in this nesting (DESIGN 6, observation)
        c.append(' + '.join('a%d * b%d' % (i, i) for i in range(n)))
        c.append(' || '.join('a%d && b%d' % (i, i) for i in range(n)))
        c.append('f(' * n + '1' + ')' * n)
        c.append(' ? '.join('c%d' % i for i in range(n)) + ' : z' * (n - 1))
        c.append('[' * n + 'a not in b' + ']' * n)
        c.append("{'k':" * n + 'a not in b' + '}' * n)
    # size thresholds between 8 and 300 (C01/C05/C10/C12: nothing changes at 16, 24, 32, 64, 128, 255/256 elements, bytes or levels)
    for k in (15, 16, 17, 21, 22, 31, 32, 33, 42, 43, 63, 64, 65, 85, 86, 127, 128, 129, 130):
        c.append('é' * k); c.append('中' * k); c.append('1 + a' + 'é' * k); c.append('f' + '中' * k + '(1)')
    for k in (2, 9, 17, 25, 33, 65, 129, 255, 256, 257, 300, 512):
        c.append('[' + ' '.join(['1'] * k) + ']'); c.append('f(' + ' '.join(['1'] * k) + ')'); c.append('{' + ' '.join(['1:1'] * k) + '}')
        c.append('[' + ' '.join(['1'] * k) + ', 2, 3]'); c.append('[' + ', '.join(['1'] * k) + ']'); c.append('{' + ', '.join(['%d:1' % i for i in range(k)]) + '}')
    for k in (30, 100, 127, 128, 129, 200, 254, 255, 256, 257, 300):
        c.append("'" + 'x' * k + '"tail' + "'"); c.append('"' + 'y' * k + "'tail" + '"'); c.append("a + len('" + 'y' * k + "\"') * 2"); c.append("'" + 'a' * k + "'"); c.append("x = '" + 'é' * k + "'; x")
    for n in (8, 16, 24, 31, 32, 33, 40, 64, 65):
        c.append(' = '.join('x%d' % i for i in range(n)) + ' = 1 + 2 * 3')
        c.append(' - '.join('x%d' % i for i in range(n)) + ' * 2')
    c += ["'abc\u2019", 'x = "abc\u201d; x', "'it\u2019s' + 'x'", "\u2019", "'\u2019'", '"\u201d"', "'a' + \u2018b\u2019", '"\u201cq\u201d"']
    # inputs longer than 4 KiB / 64 KiB, with multi-byte characters around the 32nd, 64th, 4096th byte
    c.append("'" + 'é' * 2100 + "'")
    c.append("state == '" + 'Ö' * 20 + "' && city in [" + ', '.join("'Zürich%d'" % i for i in range(400)) + ']')
    c.append("'" + '日本語' * 800 + "' == x")
    c.append(' + '.join(['abcdefghij'] * 700))
    c.append("x = '" + 'a' * 31 + 'é' * 3000 + "'; x")
    c.append(' ' * 5000 + '1' + ' ' * 5000)
    c.append('a' * 70000)
    return c

def conv_cases():
    c = []
    lim = {'i8': (-128, 127), 'i16': (-32768, 32767), 'i32': (-2**31, 2**31 - 1), 'i64': (-2**63, 2**63 - 1), 'i128': (-2**96 + 1, 2**96 - 1),
           'u8': (0, 255), 'u16': (0, 65535), 'u32': (0, 2**32 - 1), 'u64': (0, 2**64 - 1), 'u128': (0, 2**96 - 1)}
    for ty, (lo, hi) in lim.items():
        for n in sorted(set([lo, lo + 1, -1, 0, 1, 42, hi - 1, hi, 2**63 - 1, 2**63, 2**63 + 5, 2**64 - 1])):
            if lo <= n <= hi: c.append('%s:%d' % (ty, n))
    for e in ['0.9999999999999999999999999999', '1.0000000000000000000000000001', '2.9999999999999999999999999', '1/3*3', '(-0.9999999999999999999999999999)', '4.000000000000000000000000000', '3', '3.0', '3.00', '3.5', '-4.0', '9223372036854775807', '9223372036854775808', '(-9223372036854775807) - 1', '(-9223372036854775807) - 2', '18446744073709551615', '18446744073709551621', '0.0', '1.5 * 2', '7 / 2', '10.05', '0.05', '(-1.0025)', '1.005', '100.0001', '5.00000000000000000000000001', '1.10', '20.0', '0.000', '1.0101', '3.0300', '1000000.0000001', '9223372036854775807.01', '(-9223372036854775808.001)', '0.1', '0.01', '2.50', '7.000001', '(-0.000000000000000000000000001)', '120', '1200.00', '0.10'] + ['%d.%s%d' % (i, '0' * z, d) for i in (0, 9, 10, 255) for z in (1, 2, 5) for d in (1, 5, 9)]:
        c.append('dec:' + e)
    return c

SCRIPTS = [
  dict(name='override_function_before_first_use', steps=[('reg_fn', 'min', dict(tag='user')), ('exec', 'min(1, 2)', {})], expect=[None, ('val', 'String("user")')]),
  dict(name='override_function_after_first_use', steps=[('exec', 'min(1, 2)', {}), ('reg_fn', 'min', dict(tag='user')), ('exec', 'min(1, 2)', {})], expect=[('val', 'Number(1)'), None, ('val', 'String("user")')]),
  dict(name='reregister_function', steps=[('reg_fn', 'zz', dict(tag='one')), ('reg_fn', 'zz', dict(tag='two')), ('exec', 'zz()', {})], expect=[None, None, ('val', 'String("two")')]),
  dict(name='override_builtin_infix_before_first_use', steps=[('reg_infix', '+', dict(tag='plus', p='110', assoc='L')), ('exec', '1 + 2', {})], expect=[None, ('val', 'List([String("plus"), Number(1), Number(2)])')]),
  dict(name='override_builtin_prefix_before_first_use', steps=[('reg_prefix', '-', dict(tag='neg')), ('exec', '-1', {})], expect=[None, ('val', 'List([String("neg"), Number(1)])')]),
  dict(name='override_builtin_postfix_before_first_use', steps=[('reg_postfix', '++', dict(tag='inc')), ('exec', '1++', {})], expect=[None, ('val', 'List([String("inc"), Number(1)])')]),
  dict(name='context_function_shadows_global', steps=[('reg_fn', 'one', dict(tag='global')), ('exec', 'one()', {})], expect=[None, ('val', 'Number(1)')]),
  dict(name='failing_context_function_is_not_replaced_by_global', steps=[('reg_fn', 'boom', dict(tag='global')), ('reg_fn', 'boomT', dict(tag='global')), ('reg_fn', 'boomP', dict(tag='global')),
        ('exec', 'boom()', {}), ('exec', 'boomT()', {}), ('exec', 'boomP(1)', {}), ('exec', 'x = [boomT(one()), one()]; y = one(); y', {}), ('exec', 'boomP', {}), ('exec', 'one() + boomT()', {})],
       expect=[None, None, None, ('err',), ('err',), ('err',), ('err',), ('err',), ('err',)]),
  dict(name='global_function_after_context_miss', steps=[('reg_fn', 'gg', dict(tag='global')), ('exec', 'gg(one())', {}), ('exec', 'gg(boom())', {})], expect=[None, ('val', 'String("global")'), ('err',)]),
  # a built-in that the user did not touch keeps its own meaning when a *related* built-in is overridden
  dict(name='compound_assignment_keeps_builtin_meaning', steps=[('reg_infix', '+', dict(tag='plus', p='110', assoc='L')), ('reg_infix', '/', dict(tag='div', p='120', assoc='L')), ('reg_infix', '%', dict(tag='rem', p='120', assoc='L')),
        ('exec', 'a = 1; a += 2; a', {}), ('exec', 'a = 7; a /= 0; a', {}), ('exec', 'a = 7.5; a %= 2; a', {}), ('exec', "a = 'x'; a += 1; a", {}), ('exec', 'a = 79228162514264337593543950335; a += 1; a', {}), ('exec', 'a = 1.10; a *= 1.5; a', {})],
       expect=[None, None, None, ('val', 'Number(3)', ['C03', 'C04', 'C06', 'C09']), ('err',), ('val', 'Number(1.5)', ['C03', 'C04', 'C06', 'C09']), ('err',), ('err',), ('val', 'Number(1.650)', ['C03', 'C06', 'C09'])]),
  dict(name='negative_precedence_registration_does_not_loosen_the_grammar', steps=[('reg_infix', '|>', dict(tag='pipe', p='-3', assoc='L')), ('parse', 'a : b', {}), ('parse', '[1 ! 2]', {}), ('parse', '1 ++ ++ 2', {}), ('parse', 'f(1 : 2)', {})],
       expect=[None, ('reject',), ('reject',), ('reject',), ('reject',)]),
  dict(name='right_associative_calc_operator_evaluates_left_to_right', steps=[('reg_infix', 'rsub', dict(tag='rsub', p='110', assoc='R')), ('exec', 'one() rsub two()', {}), ('exec', 'one() rsub boom() rsub two() rsub t()', {}), ('exec', 'one() rsub two() rsub t()', {})],
       expect=[None, ('trace', 'one();two()'), ('trace', 'one();boom()'), ('trace', 'one();two();t()')]),
  dict(name='describe_by_node_kind_not_by_spelling', steps=[('reg_postfix', '!', dict(tag='fact')), ('reg_prefix', '++', dict(tag='inc')), ('describe', '!b', {}), ('describe', '!n!', {}), ('describe', '++a', {}), ('describe', 'a++', {}), ('describe', '- x --', {})],
       expect=[None, None, ('describe', '!b'), ('describe', '!n!'), ('describe', '++a'), ('describe', 'a++'), ('describe', '-x--')]),
  dict(name='printer_and_parser_share_the_current_table', steps=[('rtreg', 'a * (b + c)', dict(op='+', tag='plus', p='130', assoc='L')), ('rtreg', 'a - (b - c)', dict(op='-', tag='minus', p='110', assoc='R')),
        ('reg_infix', '**', dict(tag='pow', p='120', assoc='R')), ('parse', '(a ** b) * c', {}), ('parse', 'a ** b ** c * d', {}), ('parse', '(a * b) ** c', {}),
        ('reg_infix', 'rminus', dict(tag='rm', p='100', assoc='R')), ('parse', '(a rminus b) << c', {}), ('parse', 'a << (b rminus c)', {})],
       expect=[('roundtrip',), ('roundtrip',), None, ('roundtrip',), ('roundtrip',), ('roundtrip',), None, ('roundtrip',), ('roundtrip',)]),
  dict(name='context_function_shadows_global_and_the_global_is_not_called', steps=[('reg_fn', 'one', dict(tag='global')), ('reg_fn', 'cnt', dict(tag='global')), ('reg_fn', 'gl', dict(tag='global')),
        ('exec', 'one()', {}), ('exec', 'cnt(one(), two())', {}), ('exec', 'gl(one())', {}), ('exec', 'x = one(); y = one(); x + y', {})],
       expect=[None, None, None, ('trace', 'one()'), ('trace', 'one();two();cnt(Number(1),Number(2))'), ('trace', 'one();G:gl(Number(1))'), ('trace', 'one();one()')]),
  dict(name='long_operator_names', steps=[('reg_postfix', 'is_positive_number', dict(tag='pos')), ('reg_prefix', 'absolute_value_of', dict(tag='abs')), ('reg_infix', 'is_divisible_by', dict(tag='divby', p='115', assoc='L')),
        ('parse', '3 is_positive_number', {}), ('parse', 'absolute_value_of 3', {}), ('parse', '6 is_divisible_by 3', {}), ('parse', '(3 is_positive_number)', {}), ('parse', 'f(3 is_positive_number)', {})],
       expect=[None, None, None, ('ast', 'Postfix(Literal(Number(3)), "is_positive_number")'), ('ast', 'Unary("absolute_value_of", Literal(Number(3)))'), ('ast', 'Binary("is_divisible_by", Literal(Number(6)), Literal(Number(3)))'),
               ('ast', 'Postfix(Literal(Number(3)), "is_positive_number")'), ('ast', 'Function("f", [Postfix(Literal(Number(3)), "is_positive_number")])')]),
  dict(name='printer_sees_operators_registered_after_its_first_use', steps=[('parse', 'a + b * c', {}), ('reg_infix', 'pow', dict(tag='pow', p='130', assoc='R')), ('parse', '(a + b) pow c', {}), ('parse', 'a pow (b pow c)', {}), ('parse', '(a pow b) pow c', {}),
        ('reg_infix', 'xor', dict(tag='xor', p='45', assoc='L')), ('parse', 'a xor (b || c)', {}), ('parse', '(a xor b) && c', {})],
       expect=[None, None, ('roundtrip',), ('roundtrip',), ('roundtrip',), None, ('roundtrip',), ('roundtrip',)]),
  dict(name='reregistered_assignment_operator_is_dispatched', steps=[('reg_infix', '=', dict(tag='assign', p='20', assoc='R', ty='SETTER')), ('exec', 'a = 25; a', {}), ('exec', "a = 'text'; a", {})],
       expect=[None, ('val', 'List([String("assign"), None, Number(25)])'), ('val', 'List([String("assign"), None, String("text")])')]),
  dict(name='multi_byte_operator_names', steps=[('reg_infix', '≥', dict(tag='ge', p='60', assoc='L')), ('reg_prefix', '¬', dict(tag='neg')), ('reg_postfix', '°', dict(tag='deg')), ('reg_infix', '×÷', dict(tag='md', p='120', assoc='L')),
        ('exec', '3 ≥ 2', {}), ('exec', '¬ true', {}), ('exec', '370 °', {}), ('parse', '≥', {}), ('exec', '2 ×÷ 3 ≥ 1', {}), ('parse', 'a≥b', {})],
       expect=[None, None, None, None, ('val', 'List([String("ge"), Number(3), Number(2)])'), ('val', 'List([String("neg"), Bool(true)])'), ('val', 'List([String("deg"), Number(370)])'), ('reject',),
               ('val', 'List([String("ge"), List([String("md"), Number(2), Number(3)]), Number(1)])'), None]),
  dict(name='reregistration_replaces_precedence_and_associativity', steps=[('reg_infix', 'rr', dict(tag='rr', p='130', assoc='L')), ('parse', '10 rr 3 + 2', {}), ('reg_infix', 'rr', dict(tag='rr2', p='100', assoc='L')), ('parse', '10 rr 3 + 2', {}), ('parse', '10 rr 3 rr 2', {}),
        ('reg_infix', 'rr', dict(tag='rr3', p='100', assoc='R')), ('parse', '10 rr 3 rr 2', {}), ('exec', '1 rr 2', {}), ('reg_infix', '%', dict(tag='pct', p='109', assoc='L')), ('parse', '1 + 7 % 4', {}), ('parse', '9 - 7 % 4 * 2', {})],
       expect=[None, ('table',), None, ('table',), ('table',), None, ('table',), ('val', 'List([String("rr3"), Number(1), Number(2)])'), None, ('table',), ('table',)]),
  dict(name='multi_byte_operator_followed_directly_by_text', steps=[('reg_infix', '≠', dict(tag='ne', p='60', assoc='L')), ('parse', 'a ≠ bc', {}), ('exec', '10 ≠ 10', {}), ('parse', 'x ≠ "q"', {}), ('parse', 'a ≠b', {}), ('parse', '(a ≠ b)', {})],
       expect=[None, ('ast', 'Binary("≠", Reference("a"), Reference("bc"))'), ('val', 'List([String("ne"), Number(10), Number(10)])'), ('ast', 'Binary("≠", Reference("x"), Literal(String("q")))'), None, ('ast', 'Binary("≠", Reference("a"), Reference("b"))')]),
  dict(name='function_names_with_dots_and_symbols', steps=[('reg_fn', 'str.len', dict(tag='dotted')), ('reg_fn', '$f', dict(tag='dollar')), ('reg_fn', 'a.b.c', dict(tag='abc')), ('reg_fn', '_x9', dict(tag='under')),
        ('exec', "str.len('abcd')", {}), ('exec', '$f(1, 2)', {}), ('exec', 'a.b.c()', {}), ('exec', '_x9(1)', {})],
       expect=[None, None, None, None, ('val', 'String("dotted")'), ('val', 'String("dollar")'), ('val', 'String("abc")'), ('val', 'String("under")')]),
  dict(name='symbolic_operators_continuing_with_other_characters', steps=[('reg_infix', '=~', dict(tag='match', p='60', assoc='L')), ('reg_infix', '!~', dict(tag='nomatch', p='60', assoc='L')), ('reg_infix', '%‰', dict(tag='permil', p='120', assoc='L')), ('reg_infix', '<=>', dict(tag='cmp', p='60', assoc='L')),
        ('parse', 'a =~ b', {}), ('parse', 'a !~ b', {}), ('parse', '5 %‰ 2', {}), ('parse', 'a <=> b', {}), ('parse', 'a =~b', {}), ('exec', "'hello' =~ 'lo'", {})],
       expect=[None, None, None, None, ('ast', 'Binary("=~", Reference("a"), Reference("b"))'), ('ast', 'Binary("!~", Reference("a"), Reference("b"))'), ('ast', 'Binary("%‰", Literal(Number(5)), Literal(Number(2)))'), ('ast', 'Binary("<=>", Reference("a"), Reference("b"))'),
               ('ast', 'Binary("=~", Reference("a"), Reference("b"))'), ('val', 'List([String("match"), String("hello"), String("lo")])')]),
  dict(name='function_names_are_case_sensitive', steps=[('reg_fn', 'MAX', dict(tag='upper')), ('reg_fn', 'Quota', dict(tag='q1')), ('reg_fn', 'QUOTA', dict(tag='q2')),
        ('exec', 'max(1, 5)', {}), ('exec', 'MAX(1, 5)', {}), ('exec', 'Quota()', {}), ('exec', 'QUOTA()', {}), ('exec', 'Mul(2, 3)', {}), ('exec', 'quota()', {})],
       expect=[None, None, None, ('val', 'Number(5)'), ('val', 'String("upper")'), ('val', 'String("q1")'), ('val', 'String("q2")'), ('err',), ('err',)]),
  dict(name='word_operators_made_of_other_characters', steps=[('reg_prefix', '#', dict(tag='h1')), ('reg_prefix', '##', dict(tag='h2')), ('reg_infix', '@@', dict(tag='at', p='115', assoc='L')), ('reg_infix', 'is-not', dict(tag='isnot', p='60', assoc='L')), ('reg_prefix', '~>', dict(tag='arrow')),
        ('exec', '## 5', {}), ('exec', '# 5', {}), ('exec', '7 @@ 2', {}), ('exec', '9 is-not 4', {}), ('exec', '~> 5', {}), ('exec', '# # 5', {})],
       expect=[None, None, None, None, None, ('val', 'List([String("h2"), Number(5)])', ['C10', 'C05']), ('val', 'List([String("h1"), Number(5)])', ['C10', 'C05']), ('val', 'List([String("at"), Number(7), Number(2)])', ['C10', 'C05']), ('val', 'List([String("isnot"), Number(9), Number(4)])', ['C10', 'C05']),
               ('val', 'List([String("arrow"), Number(5)])', ['C10', 'C05']), ('val', 'List([String("h1"), List([String("h1"), Number(5)])])', ['C10', 'C05'])]),
  dict(name='names_that_differ_from_keywords_only_in_case', steps=[('reg_fn', 'TRUE', dict(tag='kT')), ('reg_fn', 'FALSE', dict(tag='kF')), ('reg_fn', 'tRue', dict(tag='kt')), ('reg_fn', 'Not', dict(tag='kN')), ('reg_fn', 'IN', dict(tag='kI')), ('reg_fn', 'and', dict(tag='ka')), ('reg_fn', 'Or', dict(tag='ko')), ('reg_fn', 'BeginWith', dict(tag='kb')),
        ('exec', 'TRUE(1)', {}), ('exec', 'FALSE(21)', {}), ('exec', 'tRue()', {}), ('exec', 'Not(true)', {}), ('exec', 'IN(1, 2)', {}), ('exec', 'and(1)', {}), ('exec', 'Or()', {}), ('exec', 'BeginWith(1)', {}), ('exec', 'True', {}), ('exec', 'false', {}), ('parse', 'TRUE', {}), ('parse', 'fALSE == faLse', {})],
       expect=[None] * 8 + [('val', 'String("kT")', ['C08', 'C10']), ('val', 'String("kF")', ['C08', 'C10']), ('val', 'String("kt")', ['C08', 'C10']), ('val', 'String("kN")', ['C08', 'C10']), ('val', 'String("kI")', ['C08', 'C10']), ('val', 'String("ka")', ['C08', 'C10']), ('val', 'String("ko")', ['C08', 'C10']), ('val', 'String("kb")', ['C08', 'C10']),
               ('val', 'Bool(true)'), ('val', 'Bool(false)'), ('ast', 'Reference("TRUE")'), ('ast', 'Binary("==", Reference("fALSE"), Reference("faLse"))')]),
  # the very first call of a process (each script is a fresh process): the registries are initialised before the first token is read (C10, C03, C02)
  dict(name='first_call_word_prefix', steps=[('exec', 'not true', {}), ('exec', 'not true', {})], expect=[('val', 'Bool(false)', ['C03', 'C10', 'C02', 'C08']), ('val', 'Bool(false)')]),
  dict(name='first_call_parse_word_prefix', steps=[('parse', 'not true', {})], expect=[('ast', 'Unary("not", Literal(Bool(true)))', ['C10', 'C02', 'C05'])]),
  dict(name='first_call_list_prefix', steps=[('exec', 'AND[1<2, false]', {})], expect=[('val', 'Bool(false)', ['C03', 'C10', 'C02'])]),
  dict(name='first_call_symbolic_prefix', steps=[('parse', '-5', {})], expect=[('ast', 'Unary("-", Literal(Number(5)))', ['C10', 'C02', 'C05'])]),
  dict(name='first_call_double_prefix', steps=[('parse', '--5', {})], expect=[('reject',)]),
  dict(name='first_call_call', steps=[('exec', 'min(3, 1, 2)', {})], expect=[('val', 'Number(1)', ['C03', 'C08'])]),
  dict(name='first_call_infix', steps=[('exec', '1 + 2 * 3', {})], expect=[('val', 'Number(7)', ['C03', 'C02', 'C10'])]),
  dict(name='first_call_postfix', steps=[('parse', 'x++', {})], expect=[('ast', 'Postfix(Reference("x"), "++")', ['C10', 'C02', 'C05'])]),
  dict(name='first_call_describe', steps=[('describe', 'not a ? [b] : {c: d}', {})], expect=[('describe', 'nota?[b]:{c:d}')]),
  # registered operators that begin like the conditional markers or like a built-in (C08, C10): the registered operator wins as a whole
  dict(name='operators_that_begin_like_conditional_markers', steps=[('reg_infix', '??', dict(tag='coalesce', p='45', assoc='R')), ('reg_infix', '?-', dict(tag='qm', p='121', assoc='L')), ('reg_infix', '::', dict(tag='cons', p='105', assoc='R')), ('reg_infix', ':=', dict(tag='walrus', p='20', assoc='R')),
        ('exec', 'missing ?? 5', {}), ('exec', '10 ?- 3', {}), ('exec', '1 :: 2', {}), ('exec', '7 := 8', {}), ('exec', 'true ? 1 : 2', {}), ('parse', 'a ?? b ? c : d', {}), ('parse', 'a ? b :: c : d', {})],
       expect=[None, None, None, None, ('val', 'List([String("coalesce"), None, Number(5)])', ['C08', 'C10', 'C05']), ('val', 'List([String("qm"), Number(10), Number(3)])', ['C08', 'C10', 'C05']), ('val', 'List([String("cons"), Number(1), Number(2)])', ['C08', 'C10', 'C05']),
               ('val', 'List([String("walrus"), Number(7), Number(8)])', ['C08', 'C10', 'C05']), ('val', 'Number(1)'), ('table',), ('table',)]),
  dict(name='adjacent_precedences_round_trip', steps=[('reg_infix', 'lo', dict(tag='lo', p='131', assoc='L')), ('reg_infix', 'mid', dict(tag='mid', p='132', assoc='L')), ('reg_infix', 'hi', dict(tag='hi', p='133', assoc='L')), ('reg_infix', 'rr', dict(tag='rr', p='132', assoc='R')),
        ('parse', 'a lo ((b mid c) hi d)', {}), ('parse', '(a lo b) mid c', {}), ('parse', 'a hi (b mid c)', {}), ('parse', '(a hi b) mid (c lo d)', {}), ('parse', 'a rr (b mid c)', {}), ('parse', '(a rr b) rr c', {}), ('parse', 'a lo b mid c hi d', {}), ('parse', '(a rr b) hi c', {})],
       expect=[None, None, None, None, ('roundtrip',), ('roundtrip',), ('roundtrip',), ('roundtrip',), ('roundtrip',), ('roundtrip',), ('roundtrip',), ('roundtrip',)]),
  dict(name='postfix_registered_after_use', steps=[('parse', '5!!', {}), ('reg_postfix', '!!', dict(tag='ff')), ('parse', '5!!', {})], expect=[('reject',), None, ('ast', 'Postfix(Literal(Number(5)), "!!")')]),
  dict(name='word_postfix_registered_after_use', steps=[('parse', '3 squared', {}), ('reg_postfix', 'squared', dict(tag='sq')), ('parse', '3 squared', {})],
       expect=[('ast', 'Stmt([Literal(Number(3)), Reference("squared")])'), None, ('ast', 'Postfix(Literal(Number(3)), "squared")')]),
  dict(name='infix_registered_after_use', steps=[('parse', '1 ~~ 2', {}), ('reg_infix', '~~', dict(tag='t', p='115', assoc='L')), ('parse', '1 + 2 ~~ 3', {})], expect=[None, None, ('table',)]),
]
def _many_registrations():
    steps = []; exp = []
    for i in range(45):
        steps += [('reg_fn', 'zz', dict(tag='z%d' % i)), ('reg_fn', 'pad%d' % i, dict(tag='p%d' % i)), ('exec', 'zz()', {})]
        exp += [None, None, ('val', 'String("z%d")' % i)]
    steps += [('exec', 'pad0()', {}), ('exec', 'pad44()', {}), ('exec', 'min(2, 1)', {})]; exp += [('val', 'String("p0")'), ('val', 'String("p44")'), ('val', 'Number(1)')]
    return dict(name='many_registrations_latest_wins', steps=steps, expect=exp)
SCRIPTS.append(_many_registrations())
def adjacency_scripts():
    out = []
    for (pa, aa, pb, ab) in [(300, 'L', 301, 'L'), (300, 'L', 301, 'R'), (300, 'R', 301, 'L'), (301, 'L', 300, 'L'), (300, 'L', 300, 'L'), (300, 'R', 300, 'R'), (300, 'L', 300, 'R'),
                             (999999999, 'L', 1000000000, 'L'), (999999999, 'R', 1000000000, 'R'), (1, 'L', 2, 'L'), (121, 'L', 120, 'L'), (119, 'L', 120, 'L'), (111, 'L', 110, 'L')]:
        names = [('lowA', pa, aa), ('highA', pb, ab)]
        steps = [('reg_infix', n, dict(tag=n, p=str(p), assoc=a)) for (n, p, a) in names]
        for src in ['1 lowA 2 highA 3', '1 highA 2 lowA 3', '1 lowA 2 lowA 3', '1 highA 2 highA 3', '1 * 2 lowA 3', '1 lowA 2 * 3', '1 + 2 highA 3 * 4', '1 lowA 2 not highA 3']:
            steps.append(('parse', src, {}))
        out.append(dict(name='adjacent_%d%s_%d%s' % (pa, aa, pb, ab), steps=steps, expect=[None, None] + [('table',)] * 8, table={'lowA': (pa, aa, 'CALC'), 'highA': (pb, ab, 'CALC')}))
    return out

# ------------------------------------------------------------------------------------------------ random generation (seeded)
_INFIX_ALL = ['=', '+=', '-=', '*=', '%=', '<<=', '&=', '||', '&&', '<', '<=', '>', '>=', '==', '!=', '|', '^', '&', '<<', '>>', '+', '-', '*', '/', '%', 'beginWith', 'endWith', 'in']
def gen_expr(rnd, depth, names=('a', 'b', 'c', 'x', 'y')):
    """a random well-formed expression (source text); shape is random, spacing is random"""
    def sp(): return rnd.choice(['', ' ', ' ', '  ', '\t'])
    def atom():
        r = rnd.random()
        if r < 0.25: return rnd.choice(['0', '1', '2', '7', '10', '2.5', '0.50', '100'])
        if r < 0.45: return rnd.choice(names)
        if r < 0.55: return rnd.choice(['true', 'false', 'True', 'False'])
        if r < 0.65: return rnd.choice(["'s'", '"t"', "''", "'a b'", "'é'"])
        if r < 0.75 and depth > 0: return 'f(' + ', '.join(gen_expr(rnd, depth - 1) for _ in range(rnd.randint(0, 3))) + ')'
        if r < 0.85 and depth > 0: return '[' + ','.join(gen_expr(rnd, depth - 1) for _ in range(rnd.randint(0, 3))) + rnd.choice(['', '', ',']) * (1 if rnd.random() < 0.3 else 0) + ']'
        if r < 0.90 and depth > 0: return '{' + ','.join(gen_expr(rnd, depth - 1) + ':' + gen_expr(rnd, depth - 1) for _ in range(rnd.randint(0, 2))) + '}'
        if depth > 0: return '(' + sp() + gen_expr(rnd, depth - 1) + sp() + ')'
        return rnd.choice(names)
    def primary():
        r = rnd.random()
        if r < 0.12 and depth > 0: return rnd.choice(['-', '+', '!', 'not ', 'AND ', 'OR ']) + sp() + primary()
        a = atom()
        if rnd.random() < 0.08: a = a + sp() + rnd.choice(['++', '--'])
        return a
    if depth <= 0: return primary()
    r = rnd.random()
    if r < 0.15:
        return gen_expr(rnd, depth - 1) + ' ? ' + gen_expr(rnd, depth - 1) + ' : ' + gen_expr(rnd, depth - 1)
    n = rnd.randint(0, 3)
    s = primary()
    for _ in range(n):
        op = rnd.choice(_INFIX_ALL)
        neg = 'not ' if rnd.random() < 0.08 else ''
        wordy = op[0].isalpha()
        l = ' ' if (wordy or neg or rnd.random() < 0.7) else ''
        s = s + l + neg + op + (' ' if wordy else sp()) + (gen_expr(rnd, depth - 1) if rnd.random() < 0.3 else primary())
    return s

def random_parse_cases(seed, n=1500):
    rnd = random.Random(seed * 7919 + 13)
    out = []
    for _ in range(n):
        k = rnd.randint(1, 3)
        stmts = [gen_expr(rnd, rnd.randint(0, 3)) for _ in range(k)]
        out.append(rnd.choice([';', '; ', ' ', ';\n']).join(stmts) + rnd.choice(['', '', ';']))
    # corruptions of random valid programs
    base = out[:300]
    out += corrupt(base, rnd, 700)
    return out

_VALS = ['0', '1', '2', '3', '-4', '2.5', '0.1', '1.10', '7', 'true', 'false', "'ab'", "'a'", "''", '[1, 2]', '[]', '[true, false]', 'nope', 'one()', 'two()', 't()', 'f()']
def gen_val_expr(rnd, depth):
    if depth <= 0 or rnd.random() < 0.3:
        v = rnd.choice(_VALS)
        return '(%s)' % v if v.startswith('-') else v
    r = rnd.random()
    if r < 0.1: return '(%s ? %s : %s)' % (gen_val_expr(rnd, depth - 1), gen_val_expr(rnd, depth - 1), gen_val_expr(rnd, depth - 1))
    if r < 0.2: return rnd.choice(['-', '!', 'not ', '+']) + '(%s)' % gen_val_expr(rnd, depth - 1)
    if r < 0.28: return rnd.choice(['min', 'max', 'sum', 'mul', 'cnt', 'id']) + '(' + ', '.join(gen_val_expr(rnd, depth - 1) for _ in range(rnd.randint(0, 3))) + ')'
    if r < 0.34: return '[' + ', '.join(gen_val_expr(rnd, depth - 1) for _ in range(rnd.randint(0, 3))) + ']'
    if r < 0.38: return rnd.choice(['AND ', 'OR ']) + '[' + ', '.join(gen_val_expr(rnd, depth - 1) for _ in range(rnd.randint(0, 3))) + ']'
    op = rnd.choice(['+', '-', '*', '%', '/', '<', '<=', '>', '>=', '==', '!=', '&&', '||', '|', '^', '&', '<<', '>>', 'in', 'beginWith', 'endWith'])
    return '(%s %s %s)' % (gen_val_expr(rnd, depth - 1), op, gen_val_expr(rnd, depth - 1))

def random_exec_cases(seed, n=1500):
    rnd = random.Random(seed * 104729 + 7)
    out = []
    for _ in range(n):
        if rnd.random() < 0.35:
            # a small program with assignments
            names = ['x', 'y', 'z']
            st = []
            for _ in range(rnd.randint(1, 4)):
                nm = rnd.choice(names)
                op = rnd.choice(['=', '=', '+=', '-=', '*=', '%=', '|=', '&=', '^=', '<<=', '>>='])
                st.append('%s %s %s' % (nm, op, gen_val_expr(rnd, 1).replace('nope', rnd.choice(names))))
            st.append(rnd.choice(['[x, y, z]', 'x', 'x + y']))
            out.append('; '.join(st))
        else:
            out.append(gen_val_expr(rnd, rnd.randint(1, 3)))
    return out
