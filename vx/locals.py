"""Rule 27 (alpha-renaming): the overlay's hints and contracts name parameters and local variables. When a function binds the same number of
names in the same order as on the pinned tree but under different names (a pure rename), the extracted text is alpha-renamed back to the
pinned names before splicing - meaning-preserving, counted, and any failure in a renamed function is *not* reported by the verifier alone."""
import os, sys, json
VERIF = os.path.dirname(os.path.dirname(os.path.abspath(__file__)))
_KW = set('if while match return in for loop let mut ref move else break continue as fn self Self Some None Ok Err Box Vec String true false'.split())

def binding_seq(f, fn):
    """ordered list of distinct names bound in fn: parameters (without self), then let / for / closure / match-arm pattern bindings in token order"""
    t = f.toks
    out = []
    def add(n):
        if n not in out and n not in _KW and n != '_' and not n[0].isupper(): out.append(n)
    for i in range(fn.i_po + 1, fn.i_pc):
        if t[i].k == 'id' and t[i + 1].s == ':' and t[i - 1].s in ('(', ',', 'mut'): add(t[i].s)
    i = fn.i_bo
    while i < fn.i_bc:
        s = t[i].s
        if s == 'let':
            j = i + 1
            while j < fn.i_bc and t[j].s not in ('=', ';') and not (t[j].s == ':' and t[j + 1].s != ':'):
                if t[j].k == 'id' and t[j + 1].s not in ('(', '::', '{') and t[j - 1].s != '::': add(t[j].s)
                j += 1
        elif s == 'for' and t[i].k == 'id':
            j = i + 1
            while t[j].s != 'in':
                if t[j].k == 'id': add(t[j].s)
                j += 1
        elif s == '=>':
            j = i - 1
            while j > fn.i_bo and t[j].s not in (',', '{'):
                if t[j].s in (')', ']', '}'): j = t[j].mate
                j -= 1
            for k in range(j + 1, i):
                if t[k].k == 'id' and t[k + 1].s not in ('(', '::', '{') and t[k - 1].s != '::': add(t[k].s)
        elif s == '|' and t[i - 1].s in ('(', ',', '=', 'move'):
            j = i + 1
            while j < fn.i_bc and t[j].s != '|':
                if t[j].k == 'id' and t[j + 1].s != '::': add(t[j].s)
                j += 1
            i = j
        i += 1
    return out

def load():
    p = os.path.join(VERIF, 'contracts', 'locals.json')
    return json.load(open(p)) if os.path.exists(p) else {}

def plan(f, fn, expected):
    """-> mapping actual -> pinned name, or None when the function is not a pure rename of the pinned one"""
    seq = binding_seq(f, fn)
    if seq == expected: return None
    if len(seq) != len(expected):
        # locals were added or removed: only the parameters (which the contract names) can be matched by position
        t_ = f.toks
        k = len([i for i in range(fn.i_po + 1, fn.i_pc) if t_[i].k == 'id' and t_[i + 1].s == ':' and t_[i - 1].s in ('(', ',', 'mut') and t_[i].s != 'self'])
        if k == 0 or k > len(expected) or k > len(seq): return None
        seq, expected = seq[:k], expected[:k]
        if seq == expected: return None
    if set(seq) == set(expected): return None            # the same names bound in another order: not a rename, the text is verified as it stands
    m = {a: e for a, e in zip(seq, expected) if a != e}
    if len(set(m.values())) != len(m): return None
    t = f.toks
    used = set(t[i].s for i in range(fn.i_attr, fn.i_bc) if t[i].k == 'id')
    for a, e in m.items():
        if e in used and e not in m: return None          # the pinned name is in use for something else: would capture
    return m

def apply(f, fn, m, ed):
    t = f.toks
    n = 0
    for i in range(fn.i_po, fn.i_bc):
        if t[i].k == 'id' and t[i].s in m and t[i - 1].s not in ('.', '::'):
            if t[i + 1].s == ':' and t[i - 1].s in ('{', ',') and t[i + 2].s != ':' and i > fn.i_bo and not (t[i - 1].s == ',' and False):
                # `field: value` inside a struct literal / pattern: the identifier before `:` is a field name unless we are in the parameter list
                if i > fn.i_pc: continue
            if i > fn.i_bo and t[i - 1].s in ('{', ',') and t[i + 1].s in (',', '}') and _in_struct_literal(t, i):
                ed.replace(t[i].a, t[i].b, '%s: %s' % (t[i].s, m[t[i].s])); n += 1      # field shorthand keeps the field name
                continue
            ed.replace(t[i].a, t[i].b, m[t[i].s]); n += 1
    return n

def _in_struct_literal(t, i):
    j = i
    while j > 0 and t[j].s != '{':
        if t[j].s in (')', ']', '}'): j = t[j].mate
        j -= 1
    return j > 0 and t[j - 1].k == 'id' and t[j - 1].s[0].isupper()

if __name__ == '__main__':
    sys.path.insert(0, VERIF)
    import importlib
    from vx.unit import generate, Src
    from vx.rustsrc import File
    from vx import expected
    out = {}
    src = sys.argv[1] if len(sys.argv) > 1 else '/repo/src'
    for u in expected.UNITS:
        unit = importlib.import_module('contracts.' + u).UNIT
        g = generate(unit, src)
        out[u] = g.binding_seqs
    json.dump(out, open(os.path.join(VERIF, 'contracts', 'locals.json'), 'w'), indent=1, sort_keys=True)
    print({k: len(v) for k, v in out.items()})
