"""Reference semantics of the expression language, written from README.md and the property statements (not from the code).

Used only by the bounded differential stand-in and to attach failing inputs to obligations the verifier has failed:
a reference tokenizer + parser (-> the AST in Rust's derived-Debug spelling, or Reject) and a reference evaluator on a
safe fragment (small exact decimals, booleans, strings, lists, assignments, observable context functions).
"""
from decimal import Decimal, getcontext, InvalidOperation
getcontext().prec = 80

# ---- the documented operator table (README "BinaryExpression" table; associativity and the rest from properties C02/C03)
INFIX = {}
for op in ['=', '+=', '-=', '*=', '/=', '%=', '<<=', '>>=', '&=', '^=', '|=']: INFIX[op] = (20, 'R', 'SETTER')
INFIX['||'] = (40, 'L', 'CALC'); INFIX['&&'] = (50, 'L', 'CALC')
for op in ['<', '<=', '>', '>=', '==', '!=']: INFIX[op] = (60, 'L', 'CALC')
INFIX['|'] = (70, 'L', 'CALC'); INFIX['^'] = (80, 'L', 'CALC'); INFIX['&'] = (90, 'L', 'CALC')
INFIX['<<'] = (100, 'L', 'CALC'); INFIX['>>'] = (100, 'L', 'CALC')
INFIX['+'] = (110, 'L', 'CALC'); INFIX['-'] = (110, 'L', 'CALC')
for op in ['*', '/', '%']: INFIX[op] = (120, 'L', 'CALC')
for op in ['beginWith', 'endWith', 'in']: INFIX[op] = (200, 'L', 'CALC')
PREFIX = {'-', '+', '!', 'not', 'AND', 'OR'}
POSTFIX = {'++', '--'}
SYM = set('+-*/^%&!=?:><|')
DELIM = set('()[]{}')
WS = set(' \t\r\n')

class Reject(Exception):
    pass

class Table:
    def __init__(self, infix=None, prefix=None, postfix=None):
        self.infix = dict(INFIX if infix is None else infix)
        self.prefix = set(PREFIX if prefix is None else prefix)
        self.postfix = set(POSTFIX if postfix is None else postfix)
    def is_op(self, s):
        return s in self.infix or s in self.prefix or s in self.postfix or s in ('?', ':')

def is_param(c):
    return c.isascii() and (c.isalnum() or c in '._')
def is_digitish(c):
    return ('0' <= c <= '9') or c in '.-eE+'

def dec_ok(text):
    """rust_decimal's from_str on the fragment we generate: digits with at most one '.', at least one digit, <= 28 significant digits"""
    if not text or any(c not in '0123456789.' for c in text) or text.count('.') > 1: return False
    digits = text.replace('.', '')
    if not digits: return False
    if text.endswith('.') or text.startswith('.'): return None    # outside the fragment the oracle speaks about
    if len(digits.lstrip('0')) > 28:
        # 29 digits: an integer up to 2^96 - 1 is exactly representable (scale 0); anything else is rounded or rejected by rust_decimal - outside the fragment
        if '.' in text or int(digits) > 2**96 - 1: return None
    if '.' in text and len(text.split('.')[1]) > 28: return None
    return True

def tokenize(src, T):
    """-> list of (kind, text, start, end) ; kinds: op delim num str bool ref fn comma semi ; raises Reject"""
    toks = []
    i, n = 0, len(src)
    while True:
        while i < n and src[i] in WS: i += 1
        if i >= n: break
        c = src[i]; st = i
        if c in SYM:
            j = i + 1
            while j < n and T.is_op(src[st:j + 1]): j += 1
            toks.append(('op', src[st:j], st, j)); i = j
        elif c in DELIM:
            toks.append(('delim', c, st, st + 1)); i += 1
        elif '0' <= c <= '9':
            j = i + 1
            while j < n:
                ch = src[j]
                if ch in '+-' and src[j - 1] not in 'eE': break
                if not is_digitish(ch): break
                j += 1
            text = src[st:j]
            ok = dec_ok(text)
            if ok is None: raise Unknown('number literal outside the oracle fragment: ' + text)
            if not ok: raise Reject('invalid number ' + text)
            toks.append(('num', text, st, j)); i = j
        elif c in '"\'':
            j = src.find(c, i + 1)
            if j < 0: raise Reject('unterminated string')
            toks.append(('str', src[i + 1:j], st, j + 1)); i = j + 1
        elif c == ';':
            toks.append(('semi', c, st, st + 1)); i += 1
        elif c == ',':
            toks.append(('comma', c, st, st + 1)); i += 1
        else:
            # a word operator only as a whole word (up to whitespace / delimiter)
            j = i + 1
            while j < n and src[j] not in WS and src[j] not in DELIM: j += 1
            if T.is_op(src[st:j]):
                toks.append(('op', src[st:j], st, j)); i = j
                continue
            j = i + 1
            while j < n and is_param(src[j]): j += 1
            atom = src[st:j]
            if atom in ('true', 'True'): toks.append(('bool', 'true', st, j))
            elif atom in ('false', 'False'): toks.append(('bool', 'false', st, j))
            else: toks.append(('id', atom, st, j))
            i = j
    # function vs reference: a name directly followed (after whitespace) by `(`
    out = []
    for k, t in enumerate(toks):
        if t[0] == 'id':
            nxt = toks[k + 1] if k + 1 < len(toks) else None
            out.append(('fn' if (nxt and nxt[0] == 'delim' and nxt[1] == '(') else 'ref', t[1], t[2], t[3]))
        else:
            out.append(t)
    return out

class Unknown(Exception):
    """the oracle does not pronounce on this input"""
    pass

def rs_str(s):
    o = '"'
    for c in s:
        if c == '"': o += '\\"'
        elif c == '\\': o += '\\\\'
        elif c == '\n': o += '\\n'
        elif c == '\r': o += '\\r'
        elif c == '\t': o += '\\t'
        elif c == "'": o += "'"
        elif ord(c) < 0x20 or ord(c) == 0x7f: o += '\\u{%x}' % ord(c)
        else: o += c
    return o + '"'

def num_text(t):
    # Display of rust_decimal for a literal: digits kept, leading zeros of the integer part dropped
    if '.' in t:
        a, b = t.split('.')
        a = a.lstrip('0') or '0'
        return a + '.' + b
    return t.lstrip('0') or '0'

def dbg(a):
    k = a[0]
    if k == 'num': return 'Literal(Number(%s))' % num_text(a[1])
    if k == 'bool': return 'Literal(Bool(%s))' % a[1]
    if k == 'str': return 'Literal(String(%s))' % rs_str(a[1])
    if k == 'ref': return 'Reference(%s)' % rs_str(a[1])
    if k == 'un': return 'Unary(%s, %s)' % (rs_str(a[1]), dbg(a[2]))
    if k == 'bin': return 'Binary(%s, %s, %s)' % (rs_str(a[1]), dbg(a[2]), dbg(a[3]))
    if k == 'post': return 'Postfix(%s, %s)' % (dbg(a[1]), rs_str(a[2]))
    if k == 'cond': return 'Ternary(%s, %s, %s)' % (dbg(a[1]), dbg(a[2]), dbg(a[3]))
    if k == 'call': return 'Function(%s, [%s])' % (rs_str(a[1]), ', '.join(dbg(x) for x in a[2]))
    if k == 'list': return 'List([%s])' % ', '.join(dbg(x) for x in a[1])
    if k == 'map': return 'Map([%s])' % ', '.join('(%s, %s)' % (dbg(x), dbg(y)) for x, y in a[1])
    if k == 'stmt': return 'Stmt([%s])' % ', '.join(dbg(x) for x in a[1])
    raise ValueError(k)

def describe(a):
    """describe() with the documented default descriptors (descriptor.rs defaults; literals render as expr())"""
    k = a[0]
    if k == 'num': return num_text(a[1])
    if k == 'bool': return a[1]
    if k == 'str': return ("'" + a[1] + "'") if '"' in a[1] else ('"' + a[1] + '"')
    if k == 'ref': return a[1]
    if k == 'un': return a[1] + describe(a[2])
    if k == 'bin': return describe(a[2]) + a[1] + describe(a[3])
    if k == 'post': return describe(a[1]) + a[2]
    if k == 'cond': return describe(a[1]) + '?' + describe(a[2]) + ':' + describe(a[3])
    if k == 'call': return a[1] + '(' + ','.join(describe(x) for x in a[2]) + ')'
    if k == 'list': return '[' + ','.join(describe(x) for x in a[1]) + ']'
    if k == 'map': return '{' + ','.join(describe(x) + ':' + describe(y) for x, y in a[1]) + '}'
    if k == 'stmt': return ';'.join(describe(x) for x in a[1])
    raise ValueError(k)

class P:
    def __init__(self, toks, T):
        self.t, self.i, self.T = toks, 0, T
    def cur(self): return self.t[self.i] if self.i < len(self.t) else ('eof', '', 0, 0)
    def peek(self): return self.t[self.i + 1] if self.i + 1 < len(self.t) else ('eof', '', 0, 0)
    def adv(self): self.i += 1
    def is_(self, kind, text=None):
        c = self.cur()
        return c[0] == kind and (text is None or c[1] == text)
    def program(self):
        out = []
        while not self.is_('eof'):
            out.append(self.expr())
            if self.is_('semi'): self.adv()
        return out[0] if len(out) == 1 else ('stmt', out)
    def bp(self, op):
        p, assoc, _ = self.T.infix[op]
        return (2 * p, 2 * p + 1 if assoc == 'L' else 2 * p - 1)
    def expr(self, minbp=0):
        lhs = self.primary()
        return self.ops(lhs, minbp)
    def ops(self, lhs, minbp):
        while True:
            c = self.cur()
            if c[0] != 'op': return lhs
            if c[1] == '?':
                if minbp > 0: return lhs
                self.adv()
                a = self.expr(0)
                if not self.is_('op', ':'): raise Reject('expected :')
                self.adv()
                b = self.expr(0)
                return ('cond', lhs, a, b)
            neg = c[1] == 'not'
            optok = self.peek() if neg else c
            if neg and not (optok[0] == 'op' and optok[1] in self.T.infix): raise Reject('not without a binary operator')
            if not (optok[0] == 'op' and optok[1] in self.T.infix): return lhs     # not an infix operator here: the caller decides
            l, r = self.bp(optok[1])
            if l < minbp: return lhs
            if neg: self.adv()
            self.adv()
            rhs = self.primary()
            rhs = self.ops(rhs, r)
            lhs = ('bin', optok[1], lhs, rhs)
            if neg: lhs = ('un', 'not', lhs)
    def primary(self):
        c = self.cur()
        k = c[0]
        if k == 'op':
            if c[1] not in self.T.prefix: raise Reject('operator without operand / not a prefix operator: ' + c[1])
            self.adv()
            return ('un', c[1], self.primary())
        atom = self.atom()
        c = self.cur()
        if c[0] == 'op' and c[1] in self.T.postfix:
            self.adv()
            return ('post', atom, c[1])
        return atom
    def atom(self):
        c = self.cur(); k = c[0]
        if k in ('num', 'bool', 'str', 'ref'):
            self.adv(); return (k, c[1])
        if k == 'fn':
            self.adv()
            if not self.is_('delim', '('): raise Reject('call without (')
            self.adv()
            args = []
            if self.is_('delim', ')'):
                self.adv(); return ('call', c[1], args)
            while True:
                args.append(self.expr())
                if self.is_('delim', ')'):
                    self.adv(); return ('call', c[1], args)
                if not self.is_('comma'): raise Reject('expected , or ) in call')
                self.adv()
        if k == 'delim':
            if c[1] == '(':
                self.adv()
                e = self.expr()
                if not self.is_('delim', ')'): raise Reject('expected )')
                self.adv(); return e
            if c[1] == '[':
                self.adv(); items = []
                while not self.is_('delim', ']'):
                    if self.is_('eof'): raise Reject('unclosed [')
                    items.append(self.expr())
                    if self.is_('delim', ']'): break
                    if not self.is_('comma'): raise Reject('expected , in list')
                    self.adv()
                self.adv(); return ('list', items)
            if c[1] == '{':
                self.adv(); items = []
                while not self.is_('delim', '}'):
                    if self.is_('eof'): raise Reject('unclosed {')
                    kx = self.expr()
                    if not self.is_('op', ':'): raise Reject('expected : in map')
                    self.adv()
                    vx = self.expr()
                    items.append((kx, vx))
                    if self.is_('delim', '}'): break
                    if not self.is_('comma'): raise Reject('expected , in map')
                    self.adv()
                self.adv(); return ('map', items)
            raise Reject('closing delimiter in operand position')
        raise Reject('unexpected token %s' % (c,))

def parse(src, T=None):
    """-> AST tuple; raises Reject (not a sentence of the grammar) or Unknown (oracle silent)"""
    T = T or Table()
    toks = tokenize(src, T)
    p = P(toks, T)
    if not toks: return ('stmt', [])
    return p.program()

# ------------------------------------------------------------------------------------------------ evaluation (safe fragment)
class EvalErr(Exception):
    pass

MAXM = (1 << 96) - 1
def fits(d):
    """representable as a rust_decimal (96-bit mantissa, scale <= 28) without rounding"""
    if not d.is_finite(): return False
    sign, digits, exp = d.as_tuple()
    if exp > 0:
        digits = digits + (0,) * exp; exp = 0
    if -exp > 28: return False
    m = int(''.join(map(str, digits)) or '0')
    return m <= MAXM

def as_int(d):
    if d != d.to_integral_value(): return None
    n = int(d)
    if not (-(1 << 63) <= n < (1 << 63)): return None
    return n

class Ev:
    """values: ('num', Decimal) ('bool', b) ('str', s) ('list', [..]) ('map', [(k,v)..]) ('none',)"""
    def __init__(self):
        self.vars = {}
        self.trace = []
        self.funcs = {'t': lambda a: ('bool', True), 'f': lambda a: ('bool', False), 'one': lambda a: ('num', Decimal(1)), 'two': lambda a: ('num', Decimal(2)),
                      'boom': None, 'boomT': None, 'boomP': None, 'id': lambda a: a[0] if a else ('none',), 'cnt': lambda a: ('num', Decimal(len(a)))}
    def call(self, name, args):
        if name in self.funcs:
            self.trace.append('%s(%s)' % (name, ','.join(vdbg(a) for a in args)))
            f = self.funcs[name]
            if f is None: raise EvalErr('boom')
            return f(args)
        return builtin_fn(name, args)
    def ev(self, a):
        k = a[0]
        if k == 'num': return ('num', Decimal(a[1]))
        if k == 'bool': return ('bool', a[1] == 'true')
        if k == 'str': return ('str', a[1])
        if k == 'ref':
            if a[1] in self.funcs: return self.call(a[1], [])
            return self.vars.get(a[1], ('none',))
        if k == 'call':
            args = [self.ev(x) for x in a[2]]
            return self.call(a[1], args)
        if k == 'un': return prefix(a[1], self.ev(a[2]))
        if k == 'post': return postfix(a[2], self.ev(a[1]))
        if k == 'bin':
            op = a[1]
            if op not in INFIX: raise EvalErr('unknown operator')
            l = self.ev(a[2]); r = self.ev(a[3])
            if INFIX[op][2] == 'SETTER':
                if a[2][0] != 'ref': raise EvalErr('assignment target')
                v = r if op == '=' else infix(op[:-1], l, r)
                self.vars[a[2][1]] = v
                self.funcs.pop(a[2][1], None)     # one map of names: the binding replaces a context function of that name
                return ('none',)
            return infix(op, l, r)
        if k == 'cond':
            c = self.ev(a[1])
            if c[0] != 'bool': raise EvalErr('condition')
            return self.ev(a[2]) if c[1] else self.ev(a[3])
        if k == 'list': return ('list', [self.ev(x) for x in a[1]])
        if k == 'map': return ('map', [(self.ev(x), self.ev(y)) for x, y in a[1]])
        if k == 'stmt':
            v = ('none',)
            for x in a[1]: v = self.ev(x)
            return v
        raise Unknown(k)

def num(v):
    if v[0] != 'num': raise EvalErr('number expected')
    return v[1]
def chk(d):
    if not fits(d): raise Unknown('result not exactly representable: the oracle is silent')
    return ('num', d)
def veq(a, b):
    if a[0] != b[0]: return False
    if a[0] == 'num': return a[1] == b[1]
    if a[0] == 'list': return len(a[1]) == len(b[1]) and all(veq(x, y) for x, y in zip(a[1], b[1]))
    if a[0] == 'map': return len(a[1]) == len(b[1]) and all(veq(x[0], y[0]) and veq(x[1], y[1]) for x, y in zip(a[1], b[1]))
    return a == b
def infix(op, l, r):
    if op in ('+', '-', '*', '/', '%'):
        a, b = num(l), num(r)
        if op == '+': return ovf(a + b)
        if op == '-': return ovf(a - b)
        if op == '*': return ovf(a * b)
        if op == '/':
            if b == 0: raise EvalErr('division by zero')
            q = a / b
            if q == q.quantize(Decimal(1).scaleb(-20)) and fits(q): return ('num', q)
            raise Unknown('inexact quotient')
        if b == 0: raise EvalErr('remainder by zero')
        return ovf(a - b * (a / b).to_integral_value(rounding='ROUND_DOWN'))
    if op in ('<', '<=', '>', '>='):
        a, b = num(l), num(r)
        return ('bool', {'<': a < b, '<=': a <= b, '>': a > b, '>=': a >= b}[op])
    if op == '==': return ('bool', veq(l, r))
    if op == '!=': return ('bool', not veq(l, r))
    if op in ('||', '&&'):
        if l[0] != 'bool' or r[0] != 'bool': raise EvalErr('bool expected')
        return ('bool', (l[1] or r[1]) if op == '||' else (l[1] and r[1]))
    if op in ('|', '^', '&', '<<', '>>'):
        a, b = as_int(num(l)), as_int(num(r))
        if a is None or b is None: raise EvalErr('integer expected')
        if op in ('<<', '>>'):
            if not (0 <= b <= 63): raise EvalErr('shift count')
            z = ((a << b) if op == '<<' else (a >> b))
        else:
            z = {'|': a | b, '^': a ^ b, '&': a & b}[op]
        z &= (1 << 64) - 1
        if z >= 1 << 63: z -= 1 << 64
        return ('num', Decimal(z))
    if op in ('beginWith', 'endWith'):
        if l[0] != 'str' or r[0] != 'str': raise EvalErr('string expected')
        return ('bool', l[1].startswith(r[1]) if op == 'beginWith' else l[1].endswith(r[1]))
    if op == 'in':
        if r[0] != 'list': raise EvalErr('list expected')
        return ('bool', any(veq(x, l) for x in r[1]))
    raise Unknown(op)
def ovf(d):
    if abs(d) > MAXM: raise EvalErr('overflow')
    if not fits(d): raise Unknown('rounding')
    return ('num', d)
def prefix(op, v):
    if op == '-': return ('num', -num(v))
    if op == '+': return ('num', num(v))
    if op in ('!', 'not'):
        if v[0] != 'bool': raise EvalErr('bool expected')
        return ('bool', not v[1])
    if op in ('AND', 'OR'):
        if v[0] != 'list': raise EvalErr('list expected')
        for x in v[1]:
            if x[0] != 'bool': raise EvalErr('bool expected')
            if op == 'AND' and not x[1]: return ('bool', False)
            if op == 'OR' and x[1]: return ('bool', True)
        return ('bool', op == 'AND')
    raise Unknown(op)
def postfix(op, v):
    if op == '++': return ovf(num(v) + 1)
    if op == '--': return ovf(num(v) - 1)
    raise Unknown(op)
def builtin_fn(name, args):
    if name in ('min', 'max'):
        xs = [num(a) for a in args]
        if not xs: raise EvalErr('no arguments')
        return ('num', min(xs) if name == 'min' else max(xs))
    if name == 'sum':
        acc = Decimal(0)
        for a in args: acc = ovf(acc + num(a))[1]
        return ('num', acc)
    if name == 'mul':
        acc = Decimal(1)
        for a in args: acc = ovf(acc * num(a))[1]
        return ('num', acc)
    raise EvalErr('unknown function')

def vdbg(v):
    """Rust Debug of a Value; numbers are compared numerically elsewhere, here printed plainly (trace only)"""
    k = v[0]
    if k == 'num':
        d = v[1]
        s = format(d, 'f')
        return 'Number(%s)' % s
    if k == 'bool': return 'Bool(%s)' % ('true' if v[1] else 'false')
    if k == 'str': return 'String(%s)' % rs_str(v[1])
    if k == 'list': return 'List([%s])' % ', '.join(vdbg(x) for x in v[1])
    if k == 'map': return 'Map([%s])' % ', '.join('(%s, %s)' % (vdbg(x), vdbg(y)) for x, y in v[1])
    return 'None'
