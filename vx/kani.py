"""Kani runs (thorough tier only): validation of assumed dependency contracts (A3) by complete, loop-free, full-domain harnesses
over the real rust_decimal code. A failure here means an *assumption* of the Verus units is wrong (self-test failure), not a
violation of a property of /repo."""
import os, re, json, subprocess, shutil, tempfile, time
VERIF = os.path.dirname(os.path.dirname(os.path.abspath(__file__)))
HARNESSES = ['from_i64_is_exact', 'from_u64_is_exact', 'from_i32_is_exact', 'from_u32_is_exact', 'from_i128_some_iff_fits_96_bits', 'from_u128_some_iff_fits_96_bits']

def run_dependency_validation(timeout=300):
    d = tempfile.mkdtemp(prefix='vxkani_')
    out = []
    try:
        os.makedirs(os.path.join(d, 'src'))
        shutil.copy(os.path.join(VERIF, 'kani', 'dep_harness.rs'), os.path.join(d, 'src', 'main.rs'))
        open(os.path.join(d, 'Cargo.toml'), 'w').write('[package]\nname = "vxkdep"\nversion = "0.0.0"\nedition = "2021"\n[dependencies]\nrust_decimal = "1.31.0"\n[workspace]\n')
        if os.path.exists('/repo/Cargo.lock'): shutil.copy('/repo/Cargo.lock', os.path.join(d, 'Cargo.lock'))
        env = dict(os.environ, CARGO_NET_OFFLINE='true')
        for h in HARNESSES:
            t0 = time.time()
            try:
                p = subprocess.run(['cargo', 'kani', '--harness', h], cwd=d, env=env, capture_output=True, text=True, timeout=timeout)
                txt = p.stdout + p.stderr
                if 'VERIFICATION:- SUCCESSFUL' in txt: st = 'ok'
                elif 'VERIFICATION:- FAILED' in txt: st = 'failed'
                else: st = 'undecided'
                m = re.search(r'(\d+) of (\d+) failed', txt)
                out.append(dict(harness=h, status=st, wall_s=round(time.time() - t0, 1), checks=(m.group(0) if m else ''), tail=txt[-300:] if st != 'ok' else ''))
            except subprocess.TimeoutExpired:
                out.append(dict(harness=h, status='undecided', wall_s=timeout, tail='timeout'))
    finally:
        shutil.rmtree(d, ignore_errors=True)
    return out

def run_harnesses(hs, repo_src):
    return []
