"""Structural reader for Rust source text (no external parser available offline).

Lexes a file into tokens that keep their byte offsets (so every edit is an edit of the original text and
everything not edited stays byte-for-byte what /repo contains), finds items (impl blocks, fns), and parses
function bodies into a statement tree that the splicer addresses with *structural* anchors
(k-th call of NAME, `let` binding NAME, k-th loop, k-th return, tail expression, ...), never by statement text.
"""
import re

class Tok:
    __slots__ = ('k', 's', 'a', 'b', 'mate')
    def __init__(self, k, s, a, b):
        self.k, self.s, self.a, self.b, self.mate = k, s, a, b, -1
    def __repr__(self):
        return '%s(%r@%d)' % (self.k, self.s, self.a)

_PUNCT3 = ('<<=', '>>=', '...', '..=')
_PUNCT2 = ('::', '->', '=>', '==', '!=', '<=', '>=', '&&', '||', '+=', '-=', '*=', '/=', '%=', '^=', '&=', '|=', '<<', '>>', '..')

class LexError(Exception):
    pass

def lex(src):
    """-> list of significant tokens (comments/whitespace dropped; offsets kept)."""
    toks = []
    i, n = 0, len(src)
    while i < n:
        c = src[i]
        if c.isspace():
            i += 1
            continue
        if src.startswith('//', i):
            j = src.find('\n', i)
            i = n if j < 0 else j
            continue
        if src.startswith('/*', i):
            d, j = 1, i + 2
            while j < n and d:
                if src.startswith('/*', j): d += 1; j += 2
                elif src.startswith('*/', j): d -= 1; j += 2
                else: j += 1
            i = j
            continue
        if c == '"' or (c == 'b' and src.startswith('b"', i)):
            j = i + (2 if c == 'b' else 1)
            while j < n and src[j] != '"':
                if src[j] == '\\': j += 1
                j += 1
            if j >= n: raise LexError('unterminated string at %d' % i)
            toks.append(Tok('str', src[i:j + 1], i, j + 1)); i = j + 1
            continue
        if c == 'r' and re.match(r'r#*"', src[i:i + 8]):
            m = re.match(r'r(#*)"', src[i:])
            close = '"' + m.group(1)
            j = src.find(close, i + m.end())
            if j < 0: raise LexError('unterminated raw string at %d' % i)
            toks.append(Tok('str', src[i:j + len(close)], i, j + len(close))); i = j + len(close)
            continue
        if c == "'":
            m = re.match(r"'(\\(x[0-9a-fA-F]{2}|u\{[0-9a-fA-F_]+\}|.)|[^\\'\n])'", src[i:])
            if m:
                toks.append(Tok('char', m.group(0), i, i + m.end())); i += m.end()
                continue
            m = re.match(r"'[A-Za-z_][A-Za-z0-9_]*", src[i:])
            if m:
                toks.append(Tok('life', m.group(0), i, i + m.end())); i += m.end()
                continue
            raise LexError('bad quote at %d' % i)
        if c.isalpha() or c == '_':
            m = re.match(r'[A-Za-z_][A-Za-z0-9_]*', src[i:])
            toks.append(Tok('id', m.group(0), i, i + m.end())); i += m.end()
            continue
        if c.isdigit():
            m = re.match(r'[0-9][0-9A-Za-z_]*(\.[0-9][0-9A-Za-z_]*)?', src[i:])
            toks.append(Tok('num', m.group(0), i, i + m.end())); i += m.end()
            continue
        for p in _PUNCT3:
            if src.startswith(p, i):
                toks.append(Tok('p', p, i, i + 3)); i += 3
                break
        else:
            for p in _PUNCT2:
                if src.startswith(p, i):
                    toks.append(Tok('p', p, i, i + 2)); i += 2
                    break
            else:
                toks.append(Tok('p', c, i, i + 1)); i += 1
    # bracket matching (angle brackets are not matched: ambiguous without a parser)
    st = []
    pairs = {')': '(', ']': '[', '}': '{'}
    for idx, t in enumerate(toks):
        if t.k != 'p': continue
        if t.s in '([{':
            st.append(idx)
        elif t.s in ')]}':
            if not st or toks[st[-1]].s != pairs[t.s]:
                raise LexError('unbalanced %s at %d' % (t.s, t.a))
            o = st.pop(); toks[o].mate = idx; t.mate = o
    if st: raise LexError('unclosed %s at %d' % (toks[st[-1]].s, toks[st[-1]].a))
    return toks

# ------------------------------------------------------------------------------------------------ items

class Fn:
    """One `fn` item: token indices into File.toks."""
    def __init__(self, f, key, name, i_attr, i_fn, i_name, i_po, i_pc, i_bo, i_bc, owner):
        self.f, self.key, self.name = f, key, name
        self.i_attr, self.i_fn, self.i_name = i_attr, i_fn, i_name      # first token of attrs/vis ; `fn` ; name
        self.i_po, self.i_pc, self.i_bo, self.i_bc = i_po, i_pc, i_bo, i_bc
        self.owner = owner
    @property
    def a(self): return self.f.toks[self.i_attr].a
    @property
    def b(self): return self.f.toks[self.i_bc].b
    def text(self): return self.f.src[self.a:self.b]
    def line(self): return self.f.line_of(self.f.toks[self.i_fn].a)

class Impl:
    def __init__(self, f, header, i0, i_bo, i_bc, ty, trait):
        self.f, self.header, self.i0, self.i_bo, self.i_bc, self.ty, self.trait = f, header, i0, i_bo, i_bc, ty, trait

class File:
    def __init__(self, path, src=None, name=None):
        self.path = path
        self.name = name or path.rsplit('/', 1)[-1]
        self.src = open(path).read() if src is None else src
        self.toks = lex(self.src)
        self._nl = [m.start() for m in re.finditer('\n', self.src)]
        self.fns = {}
        self.impls = []
        self.items = []          # (kind, name, i0, i1) top-level items
        self._scan_items(0, len(self.toks), None)
    def line_of(self, off):
        import bisect
        return bisect.bisect_left(self._nl, off) + 1
    def _skip_attrs(self, i, end):
        """index of first token after attributes `#[...]`/`#![...]` starting at i"""
        t = self.toks
        while i < end and t[i].s == '#':
            j = i + 1
            if t[j].s == '!': j += 1
            i = t[j].mate + 1
        return i
    def _scan_items(self, i, end, owner):
        t = self.toks
        while i < end:
            i0 = i
            i = self._skip_attrs(i, end)
            if i >= end: break
            # visibility / qualifiers
            while t[i].s in ('pub', 'const', 'unsafe', 'async', 'default', 'extern') and not (t[i].s == 'const' and t[i + 1].k == 'id' and t[i + 2].s == ':'):
                if t[i].s == 'pub' and t[i + 1].s == '(':
                    i = t[i + 1].mate + 1
                elif t[i].s == 'extern' and t[i + 1].k == 'str':
                    i += 2
                else:
                    i += 1
            kw = t[i].s
            if kw == 'fn':
                name = t[i + 1].s
                j = i + 2
                while t[j].s != '(': j += 1          # generics contain no parens in this code base
                po, pc = j, t[j].mate
                j = pc + 1
                while t[j].s not in ('{', ';'):
                    j = t[j].mate + 1 if t[j].s in '([' else j + 1
                if t[j].s == ';':
                    i = j + 1
                    continue
                bo, bc = j, t[j].mate
                key = (owner.key_prefix + '::' + name) if owner else name
                fn = Fn(self, key, name, i0, i, i + 1, po, pc, bo, bc, owner)
                if key in self.fns:
                    raise LexError('duplicate fn key ' + key)
                self.fns[key] = fn
                self.items.append(('fn', key, i0, bc + 1))
                i = bc + 1
            elif kw == 'impl':
                j = i + 1
                while t[j].s != '{':
                    j = t[j].mate + 1 if t[j].s in '([' else j + 1
                bo, bc = j, t[j].mate
                header = self.src[t[i].a:t[bo].a].strip()
                h = re.sub(r"^impl\s*(<[^>]*>)?\s*", '', header)
                if ' for ' in h:
                    trait, ty = [x.strip() for x in h.split(' for ', 1)]
                else:
                    trait, ty = None, h.strip()
                tyname = re.sub(r"<.*", '', ty).strip()
                im = Impl(self, header, i0, bo, bc, tyname, trait)
                im.key_prefix = tyname if trait is None else '<%s as %s>' % (tyname, re.sub(r"\s+", '', trait))
                self.impls.append(im)
                self.items.append(('impl', im.key_prefix, i0, bc + 1))
                self._scan_items(bo + 1, bc, im)
                i = bc + 1
            elif kw == 'mod':
                name = t[i + 1].s
                if t[i + 2].s == ';':
                    self.items.append(('moddecl', name, i0, i + 3)); i += 3
                else:
                    bc = t[i + 2].mate
                    self.items.append(('mod', name, i0, bc + 1)); i = bc + 1
            elif kw in ('struct', 'enum', 'union', 'trait'):
                name = t[i + 1].s
                j = i + 2
                while t[j].s not in ('{', ';', '('):
                    j += 1
                if t[j].s == '(':
                    j = t[j].mate + 1
                    while t[j].s != ';': j += 1
                    e = j + 1
                elif t[j].s == '{':
                    e = t[j].mate + 1
                else:
                    e = j + 1
                self.items.append((kw, name, i0, e)); i = e
            elif kw == 'macro_rules':
                name = t[i + 2].s
                j = i + 3
                e = t[j].mate + 1
                if e < end and t[e].s == ';': e += 1
                self.items.append(('macro_rules', name, i0, e)); i = e
            elif kw in ('use', 'type', 'static', 'const'):
                j = i
                while t[j].s != ';':
                    j = t[j].mate + 1 if t[j].s in '([{' else j + 1
                self.items.append((kw, t[i + 1].s, i0, j + 1)); i = j + 1
            elif t[i].k == 'id' and t[i + 1].s == '!':
                # item-position macro invocation
                j = i + 2
                if t[j].k == 'id': j += 1
                e = t[j].mate + 1
                if e < end and t[e].s == ';': e += 1
                self.items.append(('macrocall', t[i].s, i0, e)); i = e
            else:
                raise LexError('%s: unrecognised item at line %d: %r' % (self.name, self.line_of(t[i].a), t[i].s))
    def item_text(self, it):
        return self.src[self.toks[it[2]].a:self.toks[it[3] - 1].b]

# ------------------------------------------------------------------------------------------------ statements

BLOCKLIKE = ('if', 'match', 'loop', 'while', 'for', 'unsafe')

class Stmt:
    """A statement (or tail expression) of a block: tokens [i0, i1) ; i1 excludes nothing (includes `;`)."""
    def __init__(self, i0, i1, kind, tail, depth, parent):
        self.i0, self.i1, self.kind, self.tail, self.depth, self.parent = i0, i1, kind, tail, depth, parent
        self.blocks = []      # nested statement blocks: (role, i_bo, i_bc, [Stmt])
        self.arms = []        # for match: (i_pat0, i_arrow, i_body0, i_body1, block_or_None)
        self.loop_bo = None   # for loops: index of the body `{`
        self.loop_kw = None

def parse_block(t, bo, bc, depth=0, parent=None):
    """statements of the block whose braces are tokens bo..bc -> [Stmt] (nested blocks parsed recursively)."""
    out = []
    i = bo + 1
    while i < bc:
        if t[i].s == ';':            # empty statement
            i += 1
            continue
        i0 = i
        # skip attributes on statements
        while t[i].s == '#':
            i = t[i + 1].mate + 1
        first = t[i].s
        kind = 'expr'
        if first == 'let': kind = 'let'
        elif first == 'return': kind = 'return'
        elif first in ('loop', 'while', 'for'): kind = 'loop'
        elif first == 'if': kind = 'if'
        elif first == 'match': kind = 'match'
        elif first in ('break', 'continue'): kind = first
        elif first == 'use': kind = 'use'
        elif first == '{': kind = 'block'
        elif first == 'unsafe': kind = 'block'
        st = Stmt(i0, None, kind, False, depth, parent)
        j = i
        blocklike_start = first in BLOCKLIKE or first == '{'
        # walk the expression to its end, collecting nested statement blocks
        end = None
        while j < bc:
            s = t[j].s
            if s == ';':
                end = j + 1
                break
            if s in ('(', '['):
                _scan_group(t, j, st, depth)
                j = t[j].mate + 1
                continue
            if s == '{':
                # a brace at this level that was not consumed by a keyword handler: struct literal / macro body / bare block
                if j == i and first == '{':
                    st.blocks.append(('block', j, t[j].mate, parse_block(t, j, t[j].mate, depth + 1, st)))
                else:
                    _scan_group(t, j, st, depth)
                j = t[j].mate + 1
                if blocklike_start and j - 1 > i and _ends_blocklike(t, j, bc):
                    end = j
                    break
                continue
            if s in ('loop', 'while', 'for') and t[j].k == 'id':
                k = j + 1
                while t[k].s != '{':
                    k = t[k].mate + 1 if t[k].s in '([' else k + 1
                if s != 'loop':
                    _scan_range(t, j + 1, k, st, depth)
                body = parse_block(t, k, t[k].mate, depth + 1, st)
                st.blocks.append(('loop', k, t[k].mate, body))
                if j == i:
                    st.loop_bo, st.loop_kw = k, j
                j = t[k].mate + 1
                if blocklike_start and _ends_blocklike(t, j, bc):
                    end = j
                    break
                continue
            if s == 'if' and t[j].k == 'id':
                k = j + 1
                while t[k].s != '{':
                    k = t[k].mate + 1 if t[k].s in '([' else k + 1
                _scan_range(t, j + 1, k, st, depth)
                st.blocks.append(('then', k, t[k].mate, parse_block(t, k, t[k].mate, depth + 1, st)))
                j = t[k].mate + 1
                while j < bc and t[j].s == 'else':
                    if t[j + 1].s == 'if':
                        k = j + 2
                        while t[k].s != '{':
                            k = t[k].mate + 1 if t[k].s in '([' else k + 1
                        _scan_range(t, j + 2, k, st, depth)
                        st.blocks.append(('then', k, t[k].mate, parse_block(t, k, t[k].mate, depth + 1, st)))
                        j = t[k].mate + 1
                    else:
                        k = j + 1
                        st.blocks.append(('else', k, t[k].mate, parse_block(t, k, t[k].mate, depth + 1, st)))
                        j = t[k].mate + 1
                if blocklike_start and _ends_blocklike(t, j, bc):
                    end = j
                    break
                continue
            if s == 'match' and t[j].k == 'id':
                k = j + 1
                while t[k].s != '{':
                    k = t[k].mate + 1 if t[k].s in '([' else k + 1
                _scan_range(t, j + 1, k, st, depth)
                _parse_arms(t, k, t[k].mate, st, depth)
                j = t[k].mate + 1
                if blocklike_start and _ends_blocklike(t, j, bc):
                    end = j
                    break
                continue
            if s == '|' or s == '||' or s == 'move':
                # possible closure: `|params| body` / `move |params| body` — only in expression-start positions
                if _closure_start(t, j):
                    j = _scan_closure(t, j, st, depth, bc)
                    continue
            j += 1
        if end is None:
            end = j            # ran to the closing brace: tail expression
            st.tail = True
        st.i1 = end
        if kind == 'expr':
            # assignment?
            k = i
            d = 0
            while k < end:
                if t[k].s in '([{' and t[k].mate > k:
                    k = t[k].mate + 1
                    continue
                if t[k].s in ('=', '+=', '-=', '*=', '/=', '%=', '^=', '&=', '|=', '<<=', '>>='):
                    st.kind = 'assign'
                    st.assign_op = k
                    break
                k += 1
        out.append(st)
        i = end
    return out

def _ends_blocklike(t, j, bc):
    """after a block-like expression statement ended at token j-1 == `}`: does the statement end here?"""
    if j >= bc: return True
    return t[j].s not in ('.', '?', 'else', 'as', ';') and not (t[j].k == 'p' and t[j].s in ('==', '!=', '&&', '||', '+', '-', '*', '/', '%', '<', '>', '<=', '>='))

def _closure_start(t, j):
    if t[j].s == 'move':
        return t[j + 1].s in ('|', '||')
    p = t[j - 1]
    return p.s in ('(', ',', '=', '=>', '{', ';', 'return') or (p.k == 'p' and p.s in ('&&',))

def _scan_closure(t, j, st, depth, limit):
    """t[j] starts a closure; register its block body (if any) as a nested block; return index after the closure."""
    if t[j].s == 'move': j += 1
    if t[j].s == '||':
        k = j + 1
    else:
        k = j + 1
        while t[k].s != '|':
            k = t[k].mate + 1 if t[k].s in '([' else k + 1
        k += 1
    if t[k].s == '->':
        while t[k].s != '{': k += 1
    if t[k].s == '{':
        st.blocks.append(('closure', k, t[k].mate, parse_block(t, k, t[k].mate, depth + 1, st)))
        return t[k].mate + 1
    return k     # expression-bodied closure: keep scanning normally

def _scan_group(t, o, st, depth):
    """scan inside a bracket group for nested statement blocks (closures, block expressions, if/match/loop)."""
    _scan_range(t, o + 1, t[o].mate, st, depth)

def _scan_range(t, a, b, st, depth):
    j = a
    while j < b:
        s = t[j].s
        if s in ('(', '['):
            _scan_range(t, j + 1, t[j].mate, st, depth)
            j = t[j].mate + 1
        elif s == '{':
            # block expression or struct literal inside an expression: a struct literal follows a path
            p = t[j - 1]
            if p.k == 'id' and p.s not in ('else', 'loop', 'unsafe', 'move', 'in', 'return') and not (t[j + 1].k == 'id' and False):
                _scan_range(t, j + 1, t[j].mate, st, depth)       # struct literal / macro braces: look inside for closures only
            else:
                st.blocks.append(('block', j, t[j].mate, parse_block(t, j, t[j].mate, depth + 1, st)))
            j = t[j].mate + 1
        elif s in ('loop', 'while', 'for') and t[j].k == 'id':
            k = j + 1
            while t[k].s != '{':
                k = t[k].mate + 1 if t[k].s in '([' else k + 1
            st.blocks.append(('loop', k, t[k].mate, parse_block(t, k, t[k].mate, depth + 1, st)))
            j = t[k].mate + 1
        elif s == 'if' and t[j].k == 'id':
            k = j + 1
            while t[k].s != '{':
                k = t[k].mate + 1 if t[k].s in '([' else k + 1
            _scan_range(t, j + 1, k, st, depth)
            st.blocks.append(('then', k, t[k].mate, parse_block(t, k, t[k].mate, depth + 1, st)))
            j = t[k].mate + 1
            while j < b and t[j].s == 'else':
                if t[j + 1].s == 'if':
                    k = j + 2
                    while t[k].s != '{':
                        k = t[k].mate + 1 if t[k].s in '([' else k + 1
                    st.blocks.append(('then', k, t[k].mate, parse_block(t, k, t[k].mate, depth + 1, st)))
                else:
                    k = j + 1
                    st.blocks.append(('else', k, t[k].mate, parse_block(t, k, t[k].mate, depth + 1, st)))
                j = t[k].mate + 1
        elif s == 'match' and t[j].k == 'id':
            k = j + 1
            while t[k].s != '{':
                k = t[k].mate + 1 if t[k].s in '([' else k + 1
            _scan_range(t, j + 1, k, st, depth)
            _parse_arms(t, k, t[k].mate, st, depth)
            j = t[k].mate + 1
        elif (s in ('|', '||') or s == 'move') and _closure_start(t, j):
            j = _scan_closure(t, j, st, depth, b)
        else:
            j += 1

def _parse_arms(t, bo, bc, st, depth):
    i = bo + 1
    while i < bc:
        p0 = i
        while t[i].s != '=>':
            i = t[i].mate + 1 if t[i].s in '([{' else i + 1
        arrow = i
        i += 1
        if t[i].s == '{':
            blk = parse_block(t, i, t[i].mate, depth + 1, st)
            st.blocks.append(('arm', i, t[i].mate, blk))
            st.arms.append((p0, arrow, i, t[i].mate + 1, True))
            i = t[i].mate + 1
            if i < bc and t[i].s == ',': i += 1
        else:
            b0 = i
            while i < bc and t[i].s != ',':
                if t[i].s in ('(', '['):
                    _scan_range(t, i + 1, t[i].mate, st, depth); i = t[i].mate + 1
                elif t[i].s == '{':
                    _scan_range(t, i, i + 1, st, depth) if False else None
                    # match/if/struct-literal inside an arm expression
                    i = t[i].mate + 1
                elif t[i].s == 'match' and t[i].k == 'id':
                    k = i + 1
                    while t[k].s != '{':
                        k = t[k].mate + 1 if t[k].s in '([' else k + 1
                    _parse_arms(t, k, t[k].mate, st, depth)
                    i = t[k].mate + 1
                elif t[i].s == 'if' and t[i].k == 'id':
                    sub = Stmt(i, None, 'if', False, depth + 1, st)
                    _scan_range(t, i, _expr_end_if(t, i, bc), st, depth)
                    i = _expr_end_if(t, i, bc)
                else:
                    i += 1
            st.arms.append((p0, arrow, b0, i, False))
            if i < bc and t[i].s == ',': i += 1

def _expr_end_if(t, i, bc):
    k = i + 1
    while t[k].s != '{':
        k = t[k].mate + 1 if t[k].s in '([' else k + 1
    j = t[k].mate + 1
    while j < bc and t[j].s == 'else':
        if t[j + 1].s == 'if':
            k = j + 2
            while t[k].s != '{':
                k = t[k].mate + 1 if t[k].s in '([' else k + 1
        else:
            k = j + 1
        j = t[k].mate + 1
    return j

def walk(stmts):
    """pre-order traversal of a statement tree"""
    for s in stmts:
        yield s
        for (_, _, _, sub) in s.blocks:
            yield from walk(sub)
