"""records, per unit, the functions that are verified without a contract on the unchanged tree (contracts/expected_fns.json).
A function that is neither contracted nor listed there is *unknown to the overlay* (e.g. a helper introduced by a refactoring):
failures in a unit that contains unknown functions are not reported as violations by the verifier alone (vx/check.py)."""
import os, sys, json, importlib
VERIF = os.path.dirname(os.path.dirname(os.path.abspath(__file__)))
sys.path.insert(0, VERIF)
UNITS = ['tp', 'ev', 'hv', 'pr', 'lb', 'ds', 'dd']
def load():
    p = os.path.join(VERIF, 'contracts', 'expected_fns.json')
    return json.load(open(p)) if os.path.exists(p) else {}
if __name__ == '__main__':
    from vx.unit import generate
    out = {}
    for u in UNITS:
        g = generate(importlib.import_module('contracts.' + u).UNIT, '/repo/src')
        out[u] = sorted(g.uncontracted)
    json.dump(out, open(os.path.join(VERIF, 'contracts', 'expected_fns.json'), 'w'), indent=1)
    print({k: len(v) for k, v in out.items()})
