"""Replay files: the failed obligation, the verifier's output and - when one of the witness candidates stored with the
obligation demonstrates it on the real crate - a failing input."""
import os, json, subprocess

def build_replay(pid, failure, repo_src):
    rep = dict(property=pid, obligation=failure.get('obligation'), kind=failure.get('kind'),
               function=failure.get('function'), repo_location=failure.get('repo_location'),
               clause=failure.get('clause'), verifier_output=failure.get('verifier_output'),
               generated_line=failure.get('generated_line'), generated_text=failure.get('generated_text'),
               failing_input=None, candidates_tried=0)
    if failure.get('counterexample'):
        rep['failing_input'] = failure['counterexample']
        return rep
    try:
        from vx import witness
        found, tried = witness.search(pid, failure, repo_src)
        rep['candidates_tried'] = tried
        if found: rep['failing_input'] = found
    except Exception as e:   # the witness search is best effort; the verdict does not depend on it
        rep['witness_search_error'] = '%s: %s' % (type(e).__name__, e)
    return rep

def replay_file(path, repo_src):
    rep = json.load(open(path))
    fi = rep.get('failing_input')
    if not fi:
        print('replay: obligation %s has no failing input recorded; verifier output:\n%s' % (rep.get('obligation'), rep.get('verifier_output')))
        return 0
    from vx import witness
    obs = witness.run_cases([fi], repo_src)
    print(json.dumps(dict(input=fi, observed=obs), indent=1))
    return 1 if witness.violates(fi, obs[0]) else 0
