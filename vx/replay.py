"""Replay files: the failed obligation, the verifier's output and - when one of the witness candidates stored with the
obligation demonstrates it on the real crate - a failing input."""
import os, json, subprocess

def build_replay(pid, failure, repo_src, seed=0):
    rep = dict(property=pid, obligation=failure.get('obligation'), kind=failure.get('kind'),
               function=failure.get('function'), repo_location=failure.get('repo_location'),
               clause=failure.get('clause'), verifier_output=failure.get('verifier_output'),
               generated_line=failure.get('generated_line'), generated_text=failure.get('generated_text'),
               failing_input=None, candidates_tried=0)
    if failure.get('counterexample'):
        rep['failing_input'] = failure['counterexample']
        return rep
    try:
        from vx import witness
        found, tried = witness.search(pid, failure, repo_src, seed)
        rep['candidates_tried'] = tried
        if found: rep['failing_input'] = dict(case=found['case'], expected=found['expected'], observed=found['observed'], explanation=found['why'])
    except Exception as e:   # the witness search is best effort; the verdict does not depend on it
        rep['witness_search_error'] = '%s: %s' % (type(e).__name__, e)
    return rep

def replay_file(path, repo_src):
    rep = json.load(open(path))
    fi = rep.get('failing_input')
    if not fi:
        print('replay: obligation %s has no failing input recorded; verifier output:\n%s' % (rep.get('obligation'), rep.get('verifier_output')))
        return 0
    from vx import witness
    case = fi.get('case', fi)
    if 'steps' in case:
        obs = witness.run_cases(case['steps'], repo_src, script=True)
    else:
        obs = witness.run_cases([case], repo_src)
    print(json.dumps(dict(input=case, expected=fi.get('expected'), recorded=fi.get('observed'), observed_now=obs), indent=1, ensure_ascii=False))
    return 0
