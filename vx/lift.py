"""Normalisation rule 8: lift the closures registered in the four `init()` functions into named functions + the built-in table.

    for PAT in vec![ITEMS] { self.register(ARGS.., Arc::new(move |p..| BODY)); }
becomes, per `register` call n of manager M:
    pub fn M_handler_n(<loop pattern variables>, p..: <handler parameter types>) -> Result<Value> BODY     (BODY byte for byte)
and a table row per loop item: (operator/function name, precedence, type, associativity, handler n).

The result is a *virtual source file* (text + per-line origin in the real file) that the splicer treats like any other.
"""
import re
from .rustsrc import File, Tok, LexError
from .splice import AnchorLost

def _split_args(t, po):
    """token ranges of the top-level comma separated arguments of the group opened at token po"""
    out = []; i = po + 1; pc = t[po].mate; a = i
    while i < pc:
        if t[i].s in '([{' and t[i].mate > i:
            i = t[i].mate + 1; continue
        if t[i].s == ',':
            out.append((a, i)); a = i + 1
        i += 1
    if a < pc: out.append((a, pc))
    return out

def _txt(f, rng):
    a, b = rng
    return f.src[f.toks[a].a:f.toks[b - 1].b]

def lift_init(f, key, mgr, ptypes):
    """-> (functions text lines with origin, table rows)"""
    fn = f.fns.get(key)
    if fn is None: raise AnchorLost('%s not found' % key)
    t = f.toks
    out_lines = []; origin = []; rows = []; names = []
    n = 0
    # enclosing `for` loops: (for_tok, in_tok, vec_open, body_open)
    loops = []
    i = fn.i_bo
    while i < fn.i_bc:
        if t[i].s == 'for' and t[i].k == 'id':
            j = i + 1
            while t[j].s != 'in': j += 1
            k = j + 1
            while t[k].s != '{':
                k = t[k].mate + 1 if t[k].s in '([' else k + 1
            loops.append((i, j, k, t[k].mate))
        i += 1
    for i in range(fn.i_bo, fn.i_bc):
        if not (t[i].s == 'register' and t[i - 1].s == '.' and t[i - 2].s == 'self' and t[i + 1].s == '('):
            continue
        args = _split_args(t, i + 1)
        ca, cb = args[-1]
        # Arc::new( closure )
        if not (t[ca].s == 'Arc' and t[ca + 1].s == '::' and t[ca + 2].s == 'new' and t[ca + 3].s == '('):
            raise AnchorLost('%s: register call #%d: last argument is not Arc::new(closure)' % (key, n))
        q = ca + 4
        if t[q].s == 'move': q += 1
        if t[q].s != '|': raise AnchorLost('%s: register call #%d: closure expected' % (key, n))
        r = q + 1; params = []
        while t[r].s != '|':
            if t[r].k == 'id' or t[r].s == '_': params.append(t[r].s)
            r += 1
        body0 = r + 1
        body1 = t[ca + 3].mate      # closing paren of Arc::new(
        if len(params) != len(ptypes): raise AnchorLost('%s: register call #%d: closure arity %d, expected %d' % (key, n, len(params), len(ptypes)))
        # loop context
        loop = None
        for (lf, lin, lbo, lbc) in loops:
            if lbo < i < lbc: loop = (lf, lin, lbo, lbc)
        lvars = []; items = [()]
        if loop:
            lf, lin, lbo, lbc = loop
            pat = [t[x].s for x in range(lf + 1, lin) if t[x].k == 'id']
            # iterable must be vec![ ... ]
            x = lin + 1
            if not (t[x].s == 'vec' and t[x + 1].s == '!' and t[x + 2].s == '['):
                raise AnchorLost('%s: loop around register call #%d does not iterate over a vec![] literal' % (key, n))
            its = _split_args(t, x + 2)
            items = []
            for rng in its:
                if t[rng[0]].s == '(':
                    sub = _split_args(t, rng[0])
                    items.append(tuple(_txt(f, s) for s in sub))
                else:
                    items.append((_txt(f, rng),))
            first = items[0]
            for nm, val in zip(pat, first):
                ty = '&str' if val.startswith('"') else 'i32'
                lvars.append((nm, ty))
        pnames = [p if p != '_' else '_unused%d' % k for k, p in enumerate(params)]
        sig = ', '.join(['%s: %s' % (nm, ty) for nm, ty in lvars] + ['%s: %s' % (nm, ty) for nm, ty in zip(pnames, ptypes)])
        name = '%s_handler_%d' % (mgr, n)
        body_txt = f.src[t[body0].a:t[body1 - 1].b]
        bl = f.line_of(t[body0].a)
        braced = t[body0].s == '{'
        hdr = 'pub fn %s(%s) -> Result<Value> ' % (name, sig)
        out_lines.append('// lifted from %s:%d (register call #%d of %s)' % (f.name, bl, n, key)); origin.append(None)
        if braced:
            lines = body_txt.split('\n')
            out_lines.append(hdr + lines[0]); origin.append(bl)
            for k, ln in enumerate(lines[1:]):
                out_lines.append(ln); origin.append(bl + 1 + k)
        else:
            out_lines.append(hdr + '{'); origin.append(None)
            for k, ln in enumerate(body_txt.split('\n')):
                out_lines.append('        ' + ln if k == 0 else ln); origin.append(bl + k)
            out_lines.append('}'); origin.append(None)
        out_lines.append(''); origin.append(None)
        # table rows
        reg_args = [_txt(f, a) for a in args[:-1]]
        for it in items:
            env = {nm: val for (nm, _), val in zip(lvars, it)}
            row = [env.get(a, a) for a in reg_args]
            rows.append(dict(args=row, handler=name, line=f.line_of(t[i].a), loop_vars=env))
        names.append(name)
        n += 1
    return out_lines, origin, rows, names

class Lifted(File):
    """virtual source file holding the lifted handlers of one or more managers"""
    def __init__(self, name, text, line_origin, real_name):
        File.__init__(self, '<lifted>', src=text, name=name)
        self.line_origin = line_origin      # 1-based lifted line -> real line or None
        self.real_name = real_name
    def real_line(self, lifted_line):
        k = lifted_line - 1
        while k >= 0 and (k >= len(self.line_origin) or self.line_origin[k] is None): k -= 1
        return self.line_origin[k] if k >= 0 else 0

def lift_file(path, specs):
    """specs: [(fn key, manager tag, [param types])] -> (Lifted, table {tag: rows}, {tag: [names]})"""
    f = File(path)
    lines = []; origin = []; table = {}; names = {}
    for key, mgr, ptypes in specs:
        l, o, rows, nm = lift_init(f, key, mgr, ptypes)
        lines += l; origin += o; table[mgr] = rows; names[mgr] = nm
    text = '\n'.join(lines) + '\n'
    return Lifted(f.name + '(lifted)', text, origin, f.name), table, names

def expand_simple_macro(text, counters, macro='impl_value_from_for_number'):
    """rule 11: expand `macro!([a, b], ...)` by its own macro_rules definition
       ($([$x:tt, $y: ident]),+) => { $( BODY )+ }   (one repetition group, two metavariables)"""
    m = re.search(r'macro_rules!\s*%s\s*\{' % macro, text)
    if not m: raise AnchorLost('macro_rules! %s not found' % macro)
    # definition
    i = m.end() - 1
    depth = 0; j = i
    while True:
        if text[j] == '{': depth += 1
        elif text[j] == '}':
            depth -= 1
            if depth == 0: break
        j += 1
    definition = text[i + 1:j]
    pm = re.match(r'\s*\(\$\(\[\$(\w+):\s*\w+,\s*\$(\w+):\s*\w+\]\),\+\)\s*=>\s*\{\s*\$\((.*)\)\+\s*\};?\s*$', definition, re.S)
    if not pm: raise AnchorLost('macro_rules! %s has an unexpected shape' % macro)
    v1, v2, body = pm.group(1), pm.group(2), pm.group(3)
    cm = re.search(r'\n%s!\s*\((.*?)\);' % macro, text[j:], re.S)
    if not cm: raise AnchorLost('invocation of %s! not found' % macro)
    pairs = re.findall(r'\[\s*(\w+)\s*,\s*(\w+)\s*\]', cm.group(1))
    out = []
    for a, b in pairs:
        out.append(body.replace('$' + v1, a).replace('$' + v2, b).strip('\n'))
        counters['rule11_macro_expansion'] = counters.get('rule11_macro_expansion', 0) + 1
    def_line_count = text[m.start():j + 1].count('\n')
    new = text[:m.start()] + '\n' * def_line_count + text[j + 1:j + cm.start()] + '\n' + '\n'.join(out) + '\n' + text[j + cm.end():]
    return new
