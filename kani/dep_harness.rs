//! Kani harnesses validating the *assumed* contracts of rust_decimal's loop-free conversions (DESIGN.md A3) against the dependency's real code.
//! Loop-free, full-domain symbolic inputs: a complete proof, not a bounded stand-in. Run by the thorough tier of C17 (vx/kani.py).
use rust_decimal::prelude::*;
const LIM: i128 = 1i128 << 96;

#[cfg(kani)]
#[kani::proof]
fn from_i64_is_exact() {
    let n: i64 = kani::any();
    let r = Decimal::from_i64(n);
    assert!(r.is_some());
    let d = r.unwrap();
    assert!(d.scale() == 0 && d.mantissa() == n as i128);
}
#[cfg(kani)]
#[kani::proof]
fn from_u64_is_exact() {
    let n: u64 = kani::any();
    let r = Decimal::from_u64(n);
    assert!(r.is_some());
    let d = r.unwrap();
    assert!(d.scale() == 0 && d.mantissa() == n as i128);
}
#[cfg(kani)]
#[kani::proof]
fn from_i32_is_exact() {
    let n: i32 = kani::any();
    let d = Decimal::from_i32(n).unwrap();
    assert!(d.scale() == 0 && d.mantissa() == n as i128);
}
#[cfg(kani)]
#[kani::proof]
fn from_u32_is_exact() {
    let n: u32 = kani::any();
    let d = Decimal::from_u32(n).unwrap();
    assert!(d.scale() == 0 && d.mantissa() == n as i128);
}
#[cfg(kani)]
#[kani::proof]
fn from_i128_some_iff_fits_96_bits() {
    let n: i128 = kani::any();
    kani::assume(n != i128::MIN);          // i128::MIN overflows inside the dependency in debug builds (known finding D12)
    let r = Decimal::from_i128(n);
    assert!(r.is_some() == (n > -LIM && n < LIM));
    if let Some(d) = r { assert!(d.scale() == 0 && d.mantissa() == n); }
}
#[cfg(kani)]
#[kani::proof]
fn from_u128_some_iff_fits_96_bits() {
    let n: u128 = kani::any();
    let r = Decimal::from_u128(n);
    assert!(r.is_some() == (n < LIM as u128));
    if let Some(d) = r { assert!(d.scale() == 0 && d.mantissa() == n as i128); }
}
fn main() {}
