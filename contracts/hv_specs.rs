// ======================= documented meaning of the built-in operators and functions (README / properties C03, C04, C09) =======================
// String-literal `match` arms are value equality on &str in Verus, so the specs are keyed by the &str value.
pub open spec fn sv_num(o: Option<Decimal>) -> Option<SV> { match o { Some(d) => Some(SV::Num(d)), None => None } }
pub open spec fn spec_arith(op: &str, a: Decimal, b: Decimal) -> Option<Decimal> {
    if op == "+" || op == "+=" { dec_add(a, b) } else if op == "-" || op == "-=" { dec_sub(a, b) }
    else if op == "*" || op == "*=" { dec_mul(a, b) } else if op == "/" || op == "/=" { dec_div(a, b) }
    else if op == "%" || op == "%=" { dec_rem(a, b) } else { None }
}
pub open spec fn spec_cmp(op: &str, a: Decimal, b: Decimal) -> bool {
    if op == "<" { dec_lt(a, b) } else if op == "<=" { dec_le(a, b) } else if op == ">" { dec_gt(a, b) } else { dec_ge(a, b) }
}
// 64-bit two's complement; a shift count outside 0..=63 is an error
pub open spec fn spec_bits(op: &str, x: i64, y: i64) -> Option<i64> {
    if op == "|" || op == "|=" { Some(x | y) } else if op == "^" || op == "^=" { Some(x ^ y) } else if op == "&" || op == "&=" { Some(x & y) }
    else if op == "<<" || op == "<<=" { if 0 <= y <= 63 { Some(x << y) } else { None } }
    else if op == ">>" || op == ">>=" { if 0 <= y <= 63 { Some(x >> y) } else { None } }
    else { None }
}
pub open spec fn is_arith_op(op: &str) -> bool { op == "+" || op == "-" || op == "*" || op == "/" || op == "%" || op == "+=" || op == "-=" || op == "*=" || op == "/=" || op == "%=" }
pub open spec fn is_bits_op(op: &str) -> bool { op == "|" || op == "^" || op == "&" || op == "<<" || op == ">>" || op == "|=" || op == "^=" || op == "&=" || op == "<<=" || op == ">>=" }
pub open spec fn is_cmp_op(op: &str) -> bool { op == "<" || op == "<=" || op == ">" || op == ">=" }
pub open spec fn seq_has(l: Seq<SV>, x: SV) -> bool { exists|i: int| 0 <= i < l.len() && sv_eq(#[trigger] l[i], x) }
pub open spec fn spec_infix(op: &str, l: SV, r: SV) -> Option<SV> {
    if op == "=" { Some(r) }
    else if is_arith_op(op) { match (l, r) { (SV::Num(a), SV::Num(b)) => sv_num(spec_arith(op, a, b)), _ => None } }
    else if is_bits_op(op) { match (l, r) { (SV::Num(a), SV::Num(b)) => match (dec_to_i64(a), dec_to_i64(b)) {
            (Some(x), Some(y)) => match spec_bits(op, x, y) { Some(z) => Some(SV::Num(dec_of_int(z as int))), None => None },
            _ => None }, _ => None } }
    else if op == "||" { match (l, r) { (SV::Bool(a), SV::Bool(b)) => Some(SV::Bool(a || b)), _ => None } }
    else if op == "&&" { match (l, r) { (SV::Bool(a), SV::Bool(b)) => Some(SV::Bool(a && b)), _ => None } }
    else if is_cmp_op(op) { match (l, r) { (SV::Num(a), SV::Num(b)) => Some(SV::Bool(spec_cmp(op, a, b))), _ => None } }
    else if op == "==" { Some(SV::Bool(sv_eq(l, r))) }
    else if op == "!=" { Some(SV::Bool(!sv_eq(l, r))) }
    else if op == "beginWith" { match (l, r) { (SV::Str(a), SV::Str(b)) => Some(SV::Bool(b.is_prefix_of(a))), _ => None } }
    else if op == "endWith" { match (l, r) { (SV::Str(a), SV::Str(b)) => Some(SV::Bool(b.is_suffix_of(a))), _ => None } }
    else if op == "in" { match r { SV::List(items) => Some(SV::Bool(seq_has(items, l))), _ => None } }
    else { None }
}
// AND / OR scan left to right: a non-boolean element is an error unless the result was already decided
pub open spec fn spec_and(l: Seq<SV>) -> Option<bool> decreases l.len() {
    if l.len() == 0 { Some(true) } else { match l[0] { SV::Bool(b) => if !b { Some(false) } else { spec_and(l.drop_first()) }, _ => None } }
}
pub open spec fn spec_or(l: Seq<SV>) -> Option<bool> decreases l.len() {
    if l.len() == 0 { Some(false) } else { match l[0] { SV::Bool(b) => if b { Some(true) } else { spec_or(l.drop_first()) }, _ => None } }
}
pub open spec fn spec_prefix(op: &str, v: SV) -> Option<SV> {
    if op == "-" { match v { SV::Num(a) => Some(SV::Num(dec_neg(a))), _ => None } }
    else if op == "+" { match v { SV::Num(a) => Some(SV::Num(a)), _ => None } }
    else if op == "!" || op == "not" { match v { SV::Bool(b) => Some(SV::Bool(!b)), _ => None } }
    else if op == "AND" { match v { SV::List(l) => match spec_and(l) { Some(b) => Some(SV::Bool(b)), None => None }, _ => None } }
    else if op == "OR" { match v { SV::List(l) => match spec_or(l) { Some(b) => Some(SV::Bool(b)), None => None }, _ => None } }
    else { None }
}
pub open spec fn spec_postfix(op: &str, v: SV) -> Option<SV> {
    if op == "++" { match v { SV::Num(a) => sv_num(dec_add(a, dec_one())), _ => None } }
    else if op == "--" { match v { SV::Num(a) => sv_num(dec_sub(a, dec_one())), _ => None } }
    else { None }
}
// aggregates: folds over the argument list, left to right; a non-number or an overflow is an error; min/max of nothing is an error
pub open spec fn all_nums(l: Seq<SV>) -> bool { forall|i: int| 0 <= i < l.len() ==> #[trigger] l[i] is Num }
pub open spec fn fold_min(l: Seq<SV>) -> Option<Decimal> decreases l.len() {
    if l.len() == 0 { None } else { match l.last() { SV::Num(x) => match fold_min(l.drop_last()) { None => if l.len() == 1 { Some(x) } else { None }, Some(m) => Some(if dec_lt(x, m) { x } else { m }) }, _ => None } }
}
pub open spec fn fold_max(l: Seq<SV>) -> Option<Decimal> decreases l.len() {
    if l.len() == 0 { None } else { match l.last() { SV::Num(x) => match fold_max(l.drop_last()) { None => if l.len() == 1 { Some(x) } else { None }, Some(m) => Some(if dec_gt(x, m) { x } else { m }) }, _ => None } }
}
pub open spec fn fold_sum(l: Seq<SV>) -> Option<Decimal> decreases l.len() {
    if l.len() == 0 { Some(dec_zero()) } else { match (fold_sum(l.drop_last()), l.last()) { (Some(acc), SV::Num(x)) => dec_add(acc, x), _ => None } }
}
pub open spec fn fold_mul(l: Seq<SV>) -> Option<Decimal> decreases l.len() {
    if l.len() == 0 { Some(dec_one()) } else { match (fold_mul(l.drop_last()), l.last()) { (Some(acc), SV::Num(x)) => dec_mul(acc, x), _ => None } }
}
pub open spec fn spec_func(name: &str, args: Seq<SV>) -> Option<SV> {
    if name == "min" { sv_num(fold_min(args)) } else if name == "max" { sv_num(fold_max(args)) }
    else if name == "sum" { sv_num(fold_sum(args)) } else if name == "mul" { sv_num(fold_mul(args)) } else { None }
}

// ---------- lemmas for the handler loops ----------
pub proof fn lemma_and_prefix(l: Seq<SV>, k: int)
    requires 0 <= k <= l.len(), forall|j: int| 0 <= j < k ==> l[j] == SV::Bool(true),
    ensures spec_and(l) == spec_and(l.skip(k)),
    decreases k
{
    if k == 0 { assert(l.skip(0) =~= l); } else {
        lemma_and_prefix(l.drop_first(), k - 1);
        assert(l.drop_first().skip(k - 1) =~= l.skip(k));
    }
}
pub proof fn lemma_or_prefix(l: Seq<SV>, k: int)
    requires 0 <= k <= l.len(), forall|j: int| 0 <= j < k ==> l[j] == SV::Bool(false),
    ensures spec_or(l) == spec_or(l.skip(k)),
    decreases k
{
    if k == 0 { assert(l.skip(0) =~= l); } else {
        lemma_or_prefix(l.drop_first(), k - 1);
        assert(l.drop_first().skip(k - 1) =~= l.skip(k));
    }
}
pub proof fn lemma_fold_step(l: Seq<SV>, k: int)
    requires 0 <= k < l.len(),
    ensures l.take(k + 1).drop_last() == l.take(k), l.take(k + 1).last() == l[k], l.take(k + 1).len() == k + 1,
{ assert(l.take(k + 1).drop_last() =~= l.take(k)); }
pub proof fn lemma_min_none(l: Seq<SV>, j: int) requires 1 <= j <= l.len(), fold_min(l.take(j)) is None ensures fold_min(l) is None decreases l.len() - j
{ if j < l.len() { lemma_fold_step(l, j); lemma_min_none(l, j + 1); } else { assert(l.take(j) =~= l); } }
pub proof fn lemma_max_none(l: Seq<SV>, j: int) requires 1 <= j <= l.len(), fold_max(l.take(j)) is None ensures fold_max(l) is None decreases l.len() - j
{ if j < l.len() { lemma_fold_step(l, j); lemma_max_none(l, j + 1); } else { assert(l.take(j) =~= l); } }
pub proof fn lemma_sum_none(l: Seq<SV>, j: int) requires 0 <= j <= l.len(), fold_sum(l.take(j)) is None ensures fold_sum(l) is None decreases l.len() - j
{ if j < l.len() { lemma_fold_step(l, j); lemma_sum_none(l, j + 1); } else { assert(l.take(j) =~= l); } }
pub proof fn lemma_mul_none(l: Seq<SV>, j: int) requires 0 <= j <= l.len(), fold_mul(l.take(j)) is None ensures fold_mul(l) is None decreases l.len() - j
{ if j < l.len() { lemma_fold_step(l, j); lemma_mul_none(l, j + 1); } else { assert(l.take(j) =~= l); } }
