pub assume_specification[<InfixOpAssociativity as PartialEq>::eq](a: &InfixOpAssociativity, b: &InfixOpAssociativity) -> (r: bool) ensures r == (*a == *b);
pub assume_specification[<InfixOpConfig as Clone>::clone](a: &InfixOpConfig) -> (r: InfixOpConfig) ensures r == *a;
pub assume_specification[<ContextValue as Clone>::clone](a: &ContextValue) -> (r: ContextValue) ensures r == *a;
// binding powers derived from the registered precedence and associativity: (2p, 2p+1) LEFT, (2p, 2p-1) RIGHT
pub open spec fn lbp(op: Seq<char>) -> int { match reg_cfg(op) { Some(c) => 2 * c.0, None => -1 } }
pub open spec fn rbp(op: Seq<char>) -> int { match reg_cfg(op) { Some(c) => if c.2 == InfixOpAssociativity::LEFT { 2 * c.0 + 1 } else { 2 * c.0 - 1 }, None => -1 } }
// b binds tighter than a (a's right operand is captured by b): higher precedence, or equal precedence and a right-associative
pub open spec fn tighter(pa: int, a_left: bool, pb: int) -> bool { pb > pa || (pb == pa && !a_left) }
// C08/C02: the recursion gate `r_bp(a) < l_bp(b)` and the loop test `l_bp(b) >= min` agree with the registered order for every pair of
// operators at any precedences in the documented domain, adjacent ones included; powers have the parity the parser theorem relies on
pub proof fn lemma_bp_gate(pa: int, a_left: bool, pb: int)
    requires 0 < pa <= 1_000_000_000, 0 < pb <= 1_000_000_000,
    ensures ({
        let ra = if a_left { 2 * pa + 1 } else { 2 * pa - 1 };
        let lb = 2 * pb;
        &&& (ra < lb) == tighter(pa, a_left, pb)     // @C02,C08 bp_gate.recursion_gate
        &&& (lb >= ra) == tighter(pa, a_left, pb)    // @C02,C08 bp_gate.loop_test
        &&& lb % 2 == 0 && lb >= 2 && ra % 2 == 1 && ra >= 1
    }),
{ }
// this is TP's axiom_bp, proved from the definition of lbp/rbp and the domain of registered precedences
pub proof fn lemma_bp(op: Seq<char>)
    requires reg_infix(op)
    ensures lbp(op) >= 2, lbp(op) % 2 == 0, rbp(op) >= 1, rbp(op) % 2 == 1,   // @C02,C08 bp.parity
{ broadcast use axiom_domain; }
pub proof fn lemma_registered_order(a: Seq<char>, b: Seq<char>)
    requires reg_infix(a), reg_infix(b),
    ensures (rbp(a) < lbp(b)) == tighter(reg_cfg(a).unwrap().0 as int, reg_cfg(a).unwrap().2 == InfixOpAssociativity::LEFT, reg_cfg(b).unwrap().0 as int),  // @C02,C08 bp.registered_order
{ broadcast use axiom_domain; lemma_bp_gate(reg_cfg(a).unwrap().0 as int, reg_cfg(a).unwrap().2 == InfixOpAssociativity::LEFT, reg_cfg(b).unwrap().0 as int); }

// context view
pub enum CV { Var(Value), Func(Arc<InnerFunction>) }
pub type St = Map<Seq<char>, ContextValue>;
impl View for Context { type V = St; uninterp spec fn view(&self) -> St; }
