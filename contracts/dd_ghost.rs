// ---------- A4: the descriptor store is frozen during one describe() ----------
pub uninterp spec fn dstore() -> DS;
pub assume_specification<'a>[<ExprAST<'a> as Clone>::clone](v: &ExprAST<'a>) -> (r: ExprAST<'a>) ensures r == *v;
// A2: Display of a str is its content; clone of a String is the same text
pub broadcast axiom fn axiom_str_to_string(s: &str, r: String) ensures #[trigger] to_string_from_display_ensures(s, r) ==> r@ == s@;
pub broadcast axiom fn axiom_refstr_to_string(s: &&str, r: String) ensures #[trigger] to_string_from_display_ensures(s, r) ==> r@ == (*s)@;
// A3: Display of a Decimal
pub uninterp spec fn dec_text(d: Decimal) -> Seq<char>;
pub open spec fn render_lit(l: Literal) -> Seq<char> {
    match l {
        Literal::Number(d) => dec_text(d),
        Literal::Bool(b) => if b { "true"@ } else { "false"@ },
        Literal::String(s) => if s@.contains('"') { "'"@ + s@ + "'"@ } else { "\""@ + s@ + "\""@ },
    }
}
// rule 7 for descriptors: the application of a descriptor value is an uninterpreted function of the descriptor and the argument texts
pub open spec fn strs(v: Seq<String>) -> Seq<Seq<char>> { Seq::new(v.len(), |i: int| v[i]@) }
pub open spec fn pairs(v: Seq<(String, String)>) -> Seq<(Seq<char>, Seq<char>)> { Seq::new(v.len(), |i: int| (v[i].0@, v[i].1@)) }
pub uninterp spec fn app1(d: Arc<ReferenceDescriptor>, a: Seq<char>) -> Seq<char>;
pub uninterp spec fn app2(d: Arc<UnaryDescriptor>, a: Seq<char>, b: Seq<char>) -> Seq<char>;
pub uninterp spec fn app3(d: Arc<BinaryDescriptor>, a: Seq<char>, b: Seq<char>, c: Seq<char>) -> Seq<char>;
pub uninterp spec fn app_nv(d: Arc<FunctionDescriptor>, a: Seq<char>, v: Seq<Seq<char>>) -> Seq<char>;
pub uninterp spec fn app_v(d: Arc<ListDescriptor>, v: Seq<Seq<char>>) -> Seq<char>;
pub uninterp spec fn app_m(d: Arc<MapDescriptor>, v: Seq<(Seq<char>, Seq<char>)>) -> Seq<char>;
pub trait VxDesc<A>: Sized {
    spec fn app(self, a: A) -> Seq<char>;
    fn vx_call(self, a: A) -> (r: String) ensures r@ == self.app(a);
}
impl VxDesc<(String,)> for Arc<ReferenceDescriptor> { open spec fn app(self, a: (String,)) -> Seq<char> { app1(self, a.0@) } #[verifier::external_body] fn vx_call(self, a: (String,)) -> (r: String) { unimplemented!() } }
impl VxDesc<(String, String)> for Arc<UnaryDescriptor> { open spec fn app(self, a: (String, String)) -> Seq<char> { app2(self, a.0@, a.1@) } #[verifier::external_body] fn vx_call(self, a: (String, String)) -> (r: String) { unimplemented!() } }
impl VxDesc<(String, String, String)> for Arc<BinaryDescriptor> { open spec fn app(self, a: (String, String, String)) -> Seq<char> { app3(self, a.0@, a.1@, a.2@) } #[verifier::external_body] fn vx_call(self, a: (String, String, String)) -> (r: String) { unimplemented!() } }
impl VxDesc<(String, Vec<String>)> for Arc<FunctionDescriptor> { open spec fn app(self, a: (String, Vec<String>)) -> Seq<char> { app_nv(self, a.0@, strs(a.1@)) } #[verifier::external_body] fn vx_call(self, a: (String, Vec<String>)) -> (r: String) { unimplemented!() } }
impl VxDesc<(Vec<String>,)> for Arc<ListDescriptor> { open spec fn app(self, a: (Vec<String>,)) -> Seq<char> { app_v(self, strs(a.0@)) } #[verifier::external_body] fn vx_call(self, a: (Vec<String>,)) -> (r: String) { unimplemented!() } }
impl VxDesc<(Vec<(String, String)>,)> for Arc<MapDescriptor> { open spec fn app(self, a: (Vec<(String, String)>,)) -> Seq<char> { app_m(self, pairs(a.0@)) } #[verifier::external_body] fn vx_call(self, a: (Vec<(String, String)>,)) -> (r: String) { unimplemented!() } }
pub fn vx_apply<A, H: VxDesc<A>>(h: H, a: A) -> (r: String) ensures r@ == h.app(a) { h.vx_call(a) }

// ======================= what describe() must produce (property C18) =======================
pub open spec fn dsc_unary(s: DS, n: Seq<char>) -> Arc<UnaryDescriptor> { match look(s, 0, n) { Some(Descriptor::UNARY(f)) => f, _ => dflt_unary() } }
pub open spec fn dsc_binary(s: DS, n: Seq<char>) -> Arc<BinaryDescriptor> { match look(s, 1, n) { Some(Descriptor::BINARY(f)) => f, _ => dflt_binary() } }
pub open spec fn dsc_postfix(s: DS, n: Seq<char>) -> Arc<UnaryDescriptor> { match look(s, 2, n) { Some(Descriptor::POSTFIX(f)) => f, _ => dflt_postfix() } }
pub open spec fn dsc_ternary(s: DS) -> Arc<TernaryDescriptor> { match look(s, 3, Seq::empty()) { Some(Descriptor::TERNARY(f)) => f, _ => dflt_ternary() } }
pub open spec fn dsc_function(s: DS, n: Seq<char>) -> Arc<FunctionDescriptor> { match look(s, 4, n) { Some(Descriptor::FUNCTION(f)) => f, _ => dflt_function() } }
pub open spec fn dsc_reference(s: DS, n: Seq<char>) -> Arc<ReferenceDescriptor> { match look(s, 5, n) { Some(Descriptor::REFERENCE(f)) => f, _ => dflt_reference() } }
pub open spec fn dsc_list(s: DS) -> Arc<ListDescriptor> { match look(s, 6, Seq::empty()) { Some(Descriptor::LIST(f)) => f, _ => dflt_list() } }
pub open spec fn dsc_map(s: DS) -> Arc<MapDescriptor> { match look(s, 7, Seq::empty()) { Some(Descriptor::MAP(f)) => f, _ => dflt_map() } }
pub open spec fn dsc_chain(s: DS) -> Arc<ChainDescriptor> { match look(s, 8, Seq::empty()) { Some(Descriptor::CHAIN(f)) => f, _ => dflt_chain() } }
// every node is rendered by the descriptor registered for its kind (and name), applied to the renderings of its children in order
pub open spec fn sdesc(t: ExprAST, s: DS) -> Seq<char> decreases t {
    match t {
        ExprAST::Literal(l) => render_lit(l),
        ExprAST::Unary(op, rhs) => app2(dsc_unary(s, op@), op@, sdesc(*rhs, s)),
        ExprAST::Binary(op, l, r) => app3(dsc_binary(s, op@), op@, sdesc(*l, s), sdesc(*r, s)),
        ExprAST::Postfix(l, op) => app2(dsc_postfix(s, op@), sdesc(*l, s), op@),
        ExprAST::Ternary(c, a, b) => app3(dsc_ternary(s), sdesc(*c, s), sdesc(*a, s), sdesc(*b, s)),
        ExprAST::Function(name, args) => app_nv(dsc_function(s, name@), name@, sdesc_seq(args@, s)),
        ExprAST::Reference(name) => app1(dsc_reference(s, name@), name@),
        ExprAST::List(items) => app_v(dsc_list(s), sdesc_seq(items@, s)),
        ExprAST::Map(m) => app_m(dsc_map(s), sdesc_pairs(m@, s)),
        ExprAST::Stmt(items) => app_v(dsc_chain(s), sdesc_seq(items@, s)),
        ExprAST::None => Seq::empty(),
    }
}
pub open spec fn sdesc_seq(items: Seq<ExprAST>, s: DS) -> Seq<Seq<char>> decreases items {
    if items.len() == 0 { Seq::empty() } else { sdesc_seq(items.drop_last(), s).push(sdesc(items.last(), s)) }
}
pub open spec fn sdesc_pairs(items: Seq<(ExprAST, ExprAST)>, s: DS) -> Seq<(Seq<char>, Seq<char>)> decreases items {
    if items.len() == 0 { Seq::empty() } else { sdesc_pairs(items.drop_last(), s).push((sdesc(items.last().0, s), sdesc(items.last().1, s))) }
}
pub proof fn lemma_sdesc_seq(items: Seq<ExprAST>, s: DS)
    ensures sdesc_seq(items, s).len() == items.len(), forall|i: int| 0 <= i < items.len() ==> #[trigger] sdesc_seq(items, s)[i] == sdesc(items[i], s),
    decreases items.len()
{
    if items.len() > 0 {
        lemma_sdesc_seq(items.drop_last(), s);
        assert forall|i: int| 0 <= i < items.len() implies #[trigger] sdesc_seq(items, s)[i] == sdesc(items[i], s) by { if i < items.len() - 1 { assert(items.drop_last()[i] == items[i]); } }
    }
}
pub proof fn lemma_sdesc_pairs(items: Seq<(ExprAST, ExprAST)>, s: DS)
    ensures sdesc_pairs(items, s).len() == items.len(), forall|i: int| 0 <= i < items.len() ==> #[trigger] sdesc_pairs(items, s)[i] == (sdesc(items[i].0, s), sdesc(items[i].1, s)),
    decreases items.len()
{
    if items.len() > 0 {
        lemma_sdesc_pairs(items.drop_last(), s);
        assert forall|i: int| 0 <= i < items.len() implies #[trigger] sdesc_pairs(items, s)[i] == (sdesc(items[i].0, s), sdesc(items[i].1, s)) by { if i < items.len() - 1 { assert(items.drop_last()[i] == items[i]); } }
    }
}
