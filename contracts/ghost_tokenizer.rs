
// ---------- ghost vocabulary for tokenizer contracts ----------
pub open spec fn is_ws_byte(b: u8) -> bool { b == 32 || b == 9 || b == 13 || b == 10 }
pub open spec fn all_ws(bytes: Seq<u8>, lo: int, hi: int) -> bool {
    forall|i: int| lo <= i < hi ==> is_ws_byte(#[trigger] bytes[i])
}
pub open spec fn span_ok(bytes: Seq<u8>, p: int, a: int, b: int, q: int) -> bool {
    &&& 0 <= p <= a < b <= bytes.len()
    &&& b == q
    &&& all_ws(bytes, p, a)
    &&& is_char_boundary(bytes, a)
    &&& is_char_boundary(bytes, b)
}
pub open spec fn tok_post(bytes: Seq<u8>, p: int, t: Token, q: int) -> bool {
    match t {
        Token::EOF => q == bytes.len() && p <= q && all_ws(bytes, p, q),
        Token::Operator(s, Span(a, b)) => span_ok(bytes, p, a as int, b as int, q) && s.spec_bytes() == bytes.subrange(a as int, b as int),
        Token::Comma(s, Span(a, b)) => span_ok(bytes, p, a as int, b as int, q) && s.spec_bytes() == bytes.subrange(a as int, b as int),
        Token::Semicolon(s, Span(a, b)) => span_ok(bytes, p, a as int, b as int, q) && s.spec_bytes() == bytes.subrange(a as int, b as int),
        Token::Reference(s, Span(a, b)) => span_ok(bytes, p, a as int, b as int, q) && s.spec_bytes() == bytes.subrange(a as int, b as int),
        Token::Function(s, Span(a, b)) => span_ok(bytes, p, a as int, b as int, q) && s.spec_bytes() == bytes.subrange(a as int, b as int),
        Token::Delim(ty, Span(a, b)) => span_ok(bytes, p, a as int, b as int, q) && b == a + 1,
        Token::Number(d, Span(a, b)) => span_ok(bytes, p, a as int, b as int, q) && dec_parse(bytes.subrange(a as int, b as int)) == Some(d),
        Token::Bool(v, Span(a, b)) => span_ok(bytes, p, a as int, b as int, q),
        Token::String(s, Span(a, b)) => {
            &&& span_ok(bytes, p, a as int, b as int, q)
            &&& b >= a + 2
            &&& s.spec_bytes() == bytes.subrange(a as int + 1, b as int - 1)
            &&& (bytes[a as int] == 34 || bytes[a as int] == 39)
            &&& bytes[b as int - 1] == bytes[a as int]
            &&& forall|i: int| a < i < b - 1 ==> #[trigger] bytes[i] != bytes[a as int]
        },
    }
}
impl<'a> Tokenizer<'a> {
    pub closed spec fn bytes(&self) -> Seq<u8> { self.input.spec_bytes() }
    pub closed spec fn len(&self) -> int { self.input.spec_bytes().len() as int }
    pub closed spec fn off(&self) -> int { ci_off(&self.chars) }
    pub closed spec fn wf(&self) -> bool {
        &&& ci_bytes(&self.chars) == self.input.spec_bytes()
        &&& ci_wf(&self.chars)
    }
    // the tokenizer has just consumed the char that starts at `start`
    pub closed spec fn in_token(&self, start: int) -> bool {
        &&& self.wf()
        &&& 0 <= start < self.off()
        &&& is_char_boundary(self.bytes(), start)
    }
}
pub assume_specification<'a>[<Tokenizer<'a> as Clone>::clone](t: &Tokenizer<'a>) -> (r: Tokenizer<'a>)
    ensures r == *t;

pub open spec fn delim_of_byte(b: u8) -> DelimTokenType {
    if b == 40 { DelimTokenType::OpenParen } else if b == 41 { DelimTokenType::CloseParen }
    else if b == 91 { DelimTokenType::OpenBracket } else if b == 93 { DelimTokenType::CloseBracket }
    else if b == 123 { DelimTokenType::OpenBrace } else if b == 125 { DelimTokenType::CloseBrace }
    else { DelimTokenType::Unknown }
}
impl vstd::std_specs::convert::FromSpecImpl<char> for DelimTokenType {
    open spec fn obeys_from_spec() -> bool { false }
    open spec fn from_spec(v: char) -> Self { DelimTokenType::Unknown }
}
impl<'b> vstd::std_specs::convert::FromSpecImpl<&'b str> for DelimTokenType {
    open spec fn obeys_from_spec() -> bool { true }
    open spec fn from_spec(v: &'b str) -> Self { delim_of_chars(v@) }
}
impl<'a> Tokenizer<'a> {
    // frame shared by all scanners: same input, same token registers, cursor only moves forward, still inside the token
    pub closed spec fn scan_frame(&self, old: &Tokenizer<'a>, start: int) -> bool {
        &&& self.in_token(start)
        &&& self.inp() == old.inp()
        &&& self.cur_token == old.cur_token
        &&& self.prev_token == old.prev_token
        &&& old.off() <= self.off() <= self.len()
    }
    pub closed spec fn cur(&self) -> Token<'a> { self.cur_token }
    pub closed spec fn prev(&self) -> Token<'a> { self.prev_token }
    pub closed spec fn inp(&self) -> &'a str { self.input }
    pub closed spec fn text(&self, a: int, b: int) -> Seq<u8> { self.input.spec_bytes().subrange(a, b) }
}

pub open spec fn tok_start(t: Token, len: int) -> int {
    match t {
        Token::EOF => len,
        Token::Operator(_, Span(a, _)) => a as int, Token::Delim(_, Span(a, _)) => a as int, Token::Number(_, Span(a, _)) => a as int,
        Token::Comma(_, Span(a, _)) => a as int, Token::Bool(_, Span(a, _)) => a as int, Token::String(_, Span(a, _)) => a as int,
        Token::Reference(_, Span(a, _)) => a as int, Token::Function(_, Span(a, _)) => a as int, Token::Semicolon(_, Span(a, _)) => a as int,
    }
}
pub open spec fn tok_end(t: Token, len: int) -> int {
    match t {
        Token::EOF => len,
        Token::Operator(_, Span(_, b)) => b as int, Token::Delim(_, Span(_, b)) => b as int, Token::Number(_, Span(_, b)) => b as int,
        Token::Comma(_, Span(_, b)) => b as int, Token::Bool(_, Span(_, b)) => b as int, Token::String(_, Span(_, b)) => b as int,
        Token::Reference(_, Span(_, b)) => b as int, Token::Function(_, Span(_, b)) => b as int, Token::Semicolon(_, Span(_, b)) => b as int,
    }
}

// ======================= classification of tokens (C10 (v)): which token a position yields, by the documented rules =======================
pub open spec fn is_sym_b(c: u8) -> bool { c == 43 || c == 45 || c == 42 || c == 47 || c == 94 || c == 37 || c == 38 || c == 33 || c == 61 || c == 63 || c == 58 || c == 62 || c == 60 || c == 124 }   // + - * / ^ % & ! = ? : > < |
pub open spec fn is_delim_b(c: u8) -> bool { c == 40 || c == 41 || c == 91 || c == 93 || c == 123 || c == 125 }
pub open spec fn is_digit_b(c: u8) -> bool { 48 <= c <= 57 }
pub open spec fn is_digitish_b(c: u8) -> bool { is_digit_b(c) || c == 46 || c == 45 || c == 101 || c == 69 || c == 43 }
pub open spec fn is_param_b(c: u8) -> bool { is_digit_b(c) || (97 <= c <= 122) || (65 <= c <= 90) || c == 46 || c == 95 }
// a character that starts none of the dedicated token kinds: an identifier, keyword or word operator starts here
pub open spec fn other_start(c: u8) -> bool { !is_sym_b(c) && !is_delim_b(c) && !is_digit_b(c) && c != 34 && c != 39 && c != 59 && c != 44 && !is_ws_byte(c) }
pub open spec fn word_stop(bytes: Seq<u8>, i: int) -> bool { i >= bytes.len() || is_ws_byte(bytes[i]) || is_delim_b(bytes[i]) }
pub open spec fn no_stop_inside(bytes: Seq<u8>, a: int, b: int) -> bool { forall|i: int| a <= i < b ==> !is_ws_byte(#[trigger] bytes[i]) && !is_delim_b(bytes[i]) }
pub open spec fn all_param(bytes: Seq<u8>, a: int, b: int) -> bool { forall|i: int| a <= i < b ==> is_param_b(#[trigger] bytes[i]) }
// the byte at i continues a number literal whose previous byte is at i - 1 (a sign only right after an exponent marker)
pub open spec fn num_continues(bytes: Seq<u8>, i: int) -> bool {
    0 < i < bytes.len() && is_digitish_b(bytes[i]) && !((bytes[i] == 43 || bytes[i] == 45) && !(bytes[i - 1] == 101 || bytes[i - 1] == 69))
}
pub open spec fn num_run(bytes: Seq<u8>, a: int, b: int) -> bool { forall|i: int| a < i < b ==> #[trigger] num_continues(bytes, i) }
// registry predicate on the bytes of a candidate (keyword::is_op answers by the text, hence by its bytes)
pub uninterp spec fn reg_opb(s: Seq<u8>) -> bool;
// greedy symbolic operator: every extension (one character at a time) was a registered operator ...
pub open spec fn sym_run(bytes: Seq<u8>, a: int, b: int) -> bool decreases b - a {
    if b <= a + 1 { b == a + 1 } else {
        exists|p: int| a + 1 <= p < b && b == p + (#[trigger] char_at(bytes, p)).len_utf8() && sym_run(bytes, a, p) && reg_opb(bytes.subrange(a, b))
    }
}
// ... and the next one is not
pub open spec fn sym_stop(bytes: Seq<u8>, a: int, b: int) -> bool { b >= bytes.len() || !reg_opb(bytes.subrange(a, b + char_at(bytes, b).len_utf8())) }
// the word starting at a (up to whitespace / delimiter / end) is a registered operator
pub open spec fn word_is_op(bytes: Seq<u8>, a: int, from: int) -> bool {
    exists|e: int| from <= e <= bytes.len() && no_stop_inside(bytes, from, e) && word_stop(bytes, e) && #[trigger] reg_opb(bytes.subrange(a, e))
}
pub proof fn lemma_word_end_unique(bytes: Seq<u8>, from: int, e1: int, e2: int)
    requires from <= e1 <= bytes.len(), from <= e2 <= bytes.len(), no_stop_inside(bytes, from, e1), word_stop(bytes, e1), no_stop_inside(bytes, from, e2), word_stop(bytes, e2),
    ensures e1 == e2,
{
    if e1 < e2 { assert(!is_ws_byte(bytes[e1]) && !is_delim_b(bytes[e1])); }
    if e2 < e1 { assert(!is_ws_byte(bytes[e2]) && !is_delim_b(bytes[e2])); }
}
pub open spec fn delim_of_chars(s: Seq<char>) -> DelimTokenType {
    if s == "("@ { DelimTokenType::OpenParen } else if s == ")"@ { DelimTokenType::CloseParen } else if s == "["@ { DelimTokenType::OpenBracket }
    else if s == "]"@ { DelimTokenType::CloseBracket } else if s == "{"@ { DelimTokenType::OpenBrace } else if s == "}"@ { DelimTokenType::CloseBrace } else { DelimTokenType::Unknown }
}
// A2: Display of a str is its content
pub broadcast axiom fn axiom_str_to_string(s: &str, r: String) ensures #[trigger] to_string_from_display_ensures(s, r) ==> r@ == s@;
// A8: a &str is determined by its characters
pub broadcast axiom fn axiom_str_ext(a: &str, b: &str) ensures #[trigger] a@ == #[trigger] b@ ==> a == b;
// A2 (UTF-8): a one-byte string below 128 is that ASCII character
pub broadcast axiom fn axiom_ascii_singleton(s: &str) ensures s.spec_bytes().len() == 1 && s.spec_bytes()[0] < 128 ==> (#[trigger] s@) == seq![s.spec_bytes()[0] as char];
pub open spec fn is_bool_kw(s: &str) -> bool { s == "True" || s == "true" || s == "False" || s == "false" }
pub open spec fn tok_class(bytes: Seq<u8>, t: Token) -> bool {
    match t {
        Token::EOF => true,
        Token::Delim(ty, Span(a, b)) => is_delim_b(bytes[a as int]) && ty == delim_of_byte(bytes[a as int]),
        Token::Comma(_, Span(a, b)) => bytes[a as int] == 44,
        Token::Semicolon(_, Span(a, b)) => bytes[a as int] == 59,
        Token::String(_, Span(a, b)) => bytes[a as int] == 34 || bytes[a as int] == 39,
        // a number: a digit, then the maximal run of digit / dot / exponent characters
        Token::Number(_, Span(a, b)) => is_digit_b(bytes[a as int]) && num_run(bytes, a as int, b as int) && !num_continues(bytes, b as int),
        // true / True / false / False as whole identifiers
        Token::Bool(v, Span(a, b)) => other_start(bytes[a as int]) && !word_is_op(bytes, a as int, a + char_at(bytes, a as int).len_utf8())
            && all_param(bytes, a + char_at(bytes, a as int).len_utf8(), b as int) && (b >= bytes.len() || !is_param_b(bytes[b as int]))
            && (if v { bytes.subrange(a as int, b as int) == "True".spec_bytes() || bytes.subrange(a as int, b as int) == "true".spec_bytes() }
                else { bytes.subrange(a as int, b as int) == "False".spec_bytes() || bytes.subrange(a as int, b as int) == "false".spec_bytes() }),
        // an operator: greedy symbolic run, or a whole word (up to whitespace / delimiter) that is a registered operator
        Token::Operator(_, Span(a, b)) => if is_sym_b(bytes[a as int]) { sym_run(bytes, a as int, b as int) && sym_stop(bytes, a as int, b as int) }
            else { other_start(bytes[a as int]) && reg_opb(bytes.subrange(a as int, b as int))
                   && no_stop_inside(bytes, a + char_at(bytes, a as int).len_utf8(), b as int) && word_stop(bytes, b as int) },
        // a name: first character, then the maximal run of [0-9A-Za-z._]; not a word operator, not a boolean keyword; a function name iff the next token is `(`
        Token::Reference(s, Span(a, b)) => name_class(bytes, s, a as int, b as int) && !tok_is(tk(bytes, b as int), "("@),
        Token::Function(s, Span(a, b)) => name_class(bytes, s, a as int, b as int) && tok_is(tk(bytes, b as int), "("@),
    }
}
pub open spec fn name_class(bytes: Seq<u8>, s: &str, a: int, b: int) -> bool {
    &&& other_start(bytes[a]) &&& !word_is_op(bytes, a, a + char_at(bytes, a).len_utf8())
    &&& all_param(bytes, a + char_at(bytes, a).len_utf8(), b) &&& (b >= bytes.len() || !is_param_b(bytes[b]))
    &&& !is_bool_kw(s)
}
