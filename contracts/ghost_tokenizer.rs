
// ---------- ghost vocabulary for tokenizer contracts ----------
pub open spec fn is_ws_byte(b: u8) -> bool { b == 32 || b == 9 || b == 13 || b == 10 }
pub open spec fn all_ws(bytes: Seq<u8>, lo: int, hi: int) -> bool {
    forall|i: int| lo <= i < hi ==> is_ws_byte(#[trigger] bytes[i])
}
pub open spec fn span_ok(bytes: Seq<u8>, p: int, a: int, b: int, q: int) -> bool {
    &&& 0 <= p <= a < b <= bytes.len()
    &&& b == q
    &&& all_ws(bytes, p, a)
    &&& is_char_boundary(bytes, a)
    &&& is_char_boundary(bytes, b)
}
pub open spec fn tok_post(bytes: Seq<u8>, p: int, t: Token, q: int) -> bool {
    match t {
        Token::EOF => q == bytes.len() && p <= q && all_ws(bytes, p, q),
        Token::Operator(s, Span(a, b)) => span_ok(bytes, p, a as int, b as int, q) && s.spec_bytes() == bytes.subrange(a as int, b as int),
        Token::Comma(s, Span(a, b)) => span_ok(bytes, p, a as int, b as int, q) && s.spec_bytes() == bytes.subrange(a as int, b as int),
        Token::Semicolon(s, Span(a, b)) => span_ok(bytes, p, a as int, b as int, q) && s.spec_bytes() == bytes.subrange(a as int, b as int),
        Token::Reference(s, Span(a, b)) => span_ok(bytes, p, a as int, b as int, q) && s.spec_bytes() == bytes.subrange(a as int, b as int),
        Token::Function(s, Span(a, b)) => span_ok(bytes, p, a as int, b as int, q) && s.spec_bytes() == bytes.subrange(a as int, b as int),
        Token::Delim(ty, Span(a, b)) => span_ok(bytes, p, a as int, b as int, q) && b == a + 1,
        Token::Number(d, Span(a, b)) => span_ok(bytes, p, a as int, b as int, q) && dec_parse(bytes.subrange(a as int, b as int)) == Some(d),
        Token::Bool(v, Span(a, b)) => span_ok(bytes, p, a as int, b as int, q),
        Token::String(s, Span(a, b)) => {
            &&& span_ok(bytes, p, a as int, b as int, q)
            &&& b >= a + 2
            &&& s.spec_bytes() == bytes.subrange(a as int + 1, b as int - 1)
            &&& (bytes[a as int] == 34 || bytes[a as int] == 39)
            &&& bytes[b as int - 1] == bytes[a as int]
            &&& forall|i: int| a < i < b - 1 ==> #[trigger] bytes[i] != bytes[a as int]
        },
    }
}
impl<'a> Tokenizer<'a> {
    pub closed spec fn bytes(&self) -> Seq<u8> { self.input.spec_bytes() }
    pub closed spec fn len(&self) -> int { self.input.spec_bytes().len() as int }
    pub closed spec fn off(&self) -> int { ci_off(&self.chars) }
    pub closed spec fn wf(&self) -> bool {
        &&& ci_bytes(&self.chars) == self.input.spec_bytes()
        &&& ci_wf(&self.chars)
    }
    // the tokenizer has just consumed the char that starts at `start`
    pub closed spec fn in_token(&self, start: int) -> bool {
        &&& self.wf()
        &&& 0 <= start < self.off()
        &&& is_char_boundary(self.bytes(), start)
    }
}
pub assume_specification<'a>[<Tokenizer<'a> as Clone>::clone](t: &Tokenizer<'a>) -> (r: Tokenizer<'a>)
    ensures r == *t;

pub open spec fn delim_of_byte(b: u8) -> DelimTokenType {
    if b == 40 { DelimTokenType::OpenParen } else if b == 41 { DelimTokenType::CloseParen }
    else if b == 91 { DelimTokenType::OpenBracket } else if b == 93 { DelimTokenType::CloseBracket }
    else if b == 123 { DelimTokenType::OpenBrace } else if b == 125 { DelimTokenType::CloseBrace }
    else { DelimTokenType::Unknown }
}
impl vstd::std_specs::convert::FromSpecImpl<char> for DelimTokenType {
    open spec fn obeys_from_spec() -> bool { false }
    open spec fn from_spec(v: char) -> Self { DelimTokenType::Unknown }
}
impl<'b> vstd::std_specs::convert::FromSpecImpl<&'b str> for DelimTokenType {
    open spec fn obeys_from_spec() -> bool { false }
    open spec fn from_spec(v: &'b str) -> Self { DelimTokenType::Unknown }
}
impl<'a> Tokenizer<'a> {
    // frame shared by all scanners: same input, same token registers, cursor only moves forward, still inside the token
    pub closed spec fn scan_frame(&self, old: &Tokenizer<'a>, start: int) -> bool {
        &&& self.in_token(start)
        &&& self.inp() == old.inp()
        &&& self.cur_token == old.cur_token
        &&& self.prev_token == old.prev_token
        &&& old.off() <= self.off() <= self.len()
    }
    pub closed spec fn cur(&self) -> Token<'a> { self.cur_token }
    pub closed spec fn prev(&self) -> Token<'a> { self.prev_token }
    pub closed spec fn inp(&self) -> &'a str { self.input }
    pub closed spec fn text(&self, a: int, b: int) -> Seq<u8> { self.input.spec_bytes().subrange(a, b) }
}

pub open spec fn tok_start(t: Token, len: int) -> int {
    match t {
        Token::EOF => len,
        Token::Operator(_, Span(a, _)) => a as int, Token::Delim(_, Span(a, _)) => a as int, Token::Number(_, Span(a, _)) => a as int,
        Token::Comma(_, Span(a, _)) => a as int, Token::Bool(_, Span(a, _)) => a as int, Token::String(_, Span(a, _)) => a as int,
        Token::Reference(_, Span(a, _)) => a as int, Token::Function(_, Span(a, _)) => a as int, Token::Semicolon(_, Span(a, _)) => a as int,
    }
}
pub open spec fn tok_end(t: Token, len: int) -> int {
    match t {
        Token::EOF => len,
        Token::Operator(_, Span(_, b)) => b as int, Token::Delim(_, Span(_, b)) => b as int, Token::Number(_, Span(_, b)) => b as int,
        Token::Comma(_, Span(_, b)) => b as int, Token::Bool(_, Span(_, b)) => b as int, Token::String(_, Span(_, b)) => b as int,
        Token::Reference(_, Span(_, b)) => b as int, Token::Function(_, Span(_, b)) => b as int, Token::Semicolon(_, Span(_, b)) => b as int,
    }
}
