
// ---------- ghost vocabulary for tokenizer contracts ----------
pub open spec fn is_ws_byte(b: u8) -> bool { b == 32 || b == 9 || b == 13 || b == 10 }
pub open spec fn all_ws(bytes: Seq<u8>, lo: int, hi: int) -> bool {
    forall|i: int| lo <= i < hi ==> is_ws_byte(#[trigger] bytes[i])
}
pub open spec fn span_ok(bytes: Seq<u8>, p: int, a: int, b: int, q: int) -> bool {
    &&& 0 <= p <= a < b <= bytes.len()
    &&& b == q
    &&& all_ws(bytes, p, a)
    &&& is_char_boundary(bytes, a)
    &&& is_char_boundary(bytes, b)
}
pub open spec fn tok_post(bytes: Seq<u8>, p: int, t: Token, q: int) -> bool {
    match t {
        Token::EOF => q == bytes.len() && p <= q && all_ws(bytes, p, q),
        Token::Operator(s, Span(a, b)) => span_ok(bytes, p, a as int, b as int, q) && s.spec_bytes() == bytes.subrange(a as int, b as int),
        Token::Comma(s, Span(a, b)) => span_ok(bytes, p, a as int, b as int, q) && s.spec_bytes() == bytes.subrange(a as int, b as int),
        Token::Semicolon(s, Span(a, b)) => span_ok(bytes, p, a as int, b as int, q) && s.spec_bytes() == bytes.subrange(a as int, b as int),
        Token::Reference(s, Span(a, b)) => span_ok(bytes, p, a as int, b as int, q) && s.spec_bytes() == bytes.subrange(a as int, b as int),
        Token::Function(s, Span(a, b)) => span_ok(bytes, p, a as int, b as int, q) && s.spec_bytes() == bytes.subrange(a as int, b as int),
        Token::Delim(ty, Span(a, b)) => span_ok(bytes, p, a as int, b as int, q) && b == a + 1,
        Token::Number(d, Span(a, b)) => span_ok(bytes, p, a as int, b as int, q) && dec_parse(bytes.subrange(a as int, b as int)) == Some(d),
        Token::Bool(v, Span(a, b)) => span_ok(bytes, p, a as int, b as int, q),
        Token::String(s, Span(a, b)) => {
            &&& span_ok(bytes, p, a as int, b as int, q)
            &&& b >= a + 2
            &&& s.spec_bytes() == bytes.subrange(a as int + 1, b as int - 1)
            &&& (bytes[a as int] == 34 || bytes[a as int] == 39)
            &&& bytes[b as int - 1] == bytes[a as int]
            &&& forall|i: int| a < i < b - 1 ==> #[trigger] bytes[i] != bytes[a as int]
        },
    }
}
impl<'a> Tokenizer<'a> {
    pub closed spec fn bytes(&self) -> Seq<u8> { self.input.spec_bytes() }
    pub closed spec fn len(&self) -> int { self.input.spec_bytes().len() as int }
    pub closed spec fn off(&self) -> int { ci_off(&self.chars) }
    pub closed spec fn wf(&self) -> bool {
        &&& ci_bytes(&self.chars) == self.input.spec_bytes()
        &&& ci_wf(&self.chars)
    }
    // the tokenizer has just consumed the char that starts at `start`
    pub closed spec fn in_token(&self, start: int) -> bool {
        &&& self.wf()
        &&& 0 <= start < self.off()
        &&& is_char_boundary(self.bytes(), start)
    }
}
pub assume_specification<'a>[<Tokenizer<'a> as Clone>::clone](t: &Tokenizer<'a>) -> (r: Tokenizer<'a>)
    ensures r == *t;

pub open spec fn delim_of_byte(b: u8) -> DelimTokenType {
    if b == 40 { DelimTokenType::OpenParen } else if b == 41 { DelimTokenType::CloseParen }
    else if b == 91 { DelimTokenType::OpenBracket } else if b == 93 { DelimTokenType::CloseBracket }
    else if b == 123 { DelimTokenType::OpenBrace } else if b == 125 { DelimTokenType::CloseBrace }
    else { DelimTokenType::Unknown }
}
impl vstd::std_specs::convert::FromSpecImpl<char> for DelimTokenType {
    open spec fn obeys_from_spec() -> bool { false }
    open spec fn from_spec(v: char) -> Self { DelimTokenType::Unknown }
}
impl<'b> vstd::std_specs::convert::FromSpecImpl<&'b str> for DelimTokenType {
    open spec fn obeys_from_spec() -> bool { true }
    open spec fn from_spec(v: &'b str) -> Self { delim_of_chars(v@) }
}
impl<'a> Tokenizer<'a> {
    // frame shared by all scanners: same input, same token registers, cursor only moves forward, still inside the token
    pub closed spec fn scan_frame(&self, old: &Tokenizer<'a>, start: int) -> bool {
        &&& self.in_token(start)
        &&& self.inp() == old.inp()
        &&& self.cur_token == old.cur_token
        &&& self.prev_token == old.prev_token
        &&& old.off() <= self.off() <= self.len()
    }
    pub closed spec fn cur(&self) -> Token<'a> { self.cur_token }
    pub closed spec fn prev(&self) -> Token<'a> { self.prev_token }
    pub closed spec fn inp(&self) -> &'a str { self.input }
    pub closed spec fn text(&self, a: int, b: int) -> Seq<u8> { self.input.spec_bytes().subrange(a, b) }
}

pub open spec fn tok_start(t: Token, len: int) -> int {
    match t {
        Token::EOF => len,
        Token::Operator(_, Span(a, _)) => a as int, Token::Delim(_, Span(a, _)) => a as int, Token::Number(_, Span(a, _)) => a as int,
        Token::Comma(_, Span(a, _)) => a as int, Token::Bool(_, Span(a, _)) => a as int, Token::String(_, Span(a, _)) => a as int,
        Token::Reference(_, Span(a, _)) => a as int, Token::Function(_, Span(a, _)) => a as int, Token::Semicolon(_, Span(a, _)) => a as int,
    }
}
pub open spec fn tok_end(t: Token, len: int) -> int {
    match t {
        Token::EOF => len,
        Token::Operator(_, Span(_, b)) => b as int, Token::Delim(_, Span(_, b)) => b as int, Token::Number(_, Span(_, b)) => b as int,
        Token::Comma(_, Span(_, b)) => b as int, Token::Bool(_, Span(_, b)) => b as int, Token::String(_, Span(_, b)) => b as int,
        Token::Reference(_, Span(_, b)) => b as int, Token::Function(_, Span(_, b)) => b as int, Token::Semicolon(_, Span(_, b)) => b as int,
    }
}

// ======================= classification of tokens (C10 (v)): which token a position yields, by the documented rules =======================
pub open spec fn is_sym_b(c: u8) -> bool { c == 43 || c == 45 || c == 42 || c == 47 || c == 94 || c == 37 || c == 38 || c == 33 || c == 61 || c == 63 || c == 58 || c == 62 || c == 60 || c == 124 }   // + - * / ^ % & ! = ? : > < |
pub open spec fn is_delim_b(c: u8) -> bool { c == 40 || c == 41 || c == 91 || c == 93 || c == 123 || c == 125 }
pub open spec fn is_digit_b(c: u8) -> bool { 48 <= c <= 57 }
pub open spec fn is_digitish_b(c: u8) -> bool { is_digit_b(c) || c == 46 || c == 45 || c == 101 || c == 69 || c == 43 }
pub open spec fn is_param_b(c: u8) -> bool { is_digit_b(c) || (97 <= c <= 122) || (65 <= c <= 90) || c == 46 || c == 95 }
// a character that starts none of the dedicated token kinds: an identifier, keyword or word operator starts here
pub open spec fn other_start(c: u8) -> bool { !is_sym_b(c) && !is_delim_b(c) && !is_digit_b(c) && c != 34 && c != 39 && c != 59 && c != 44 && !is_ws_byte(c) }
pub open spec fn word_stop(bytes: Seq<u8>, i: int) -> bool { i >= bytes.len() || is_ws_byte(bytes[i]) || is_delim_b(bytes[i]) }
pub open spec fn no_stop_inside(bytes: Seq<u8>, a: int, b: int) -> bool { forall|i: int| a <= i < b ==> !is_ws_byte(#[trigger] bytes[i]) && !is_delim_b(bytes[i]) }
pub open spec fn all_param(bytes: Seq<u8>, a: int, b: int) -> bool { forall|i: int| a <= i < b ==> is_param_b(#[trigger] bytes[i]) }
// the byte at i continues a number literal whose previous byte is at i - 1 (a sign only right after an exponent marker)
pub open spec fn num_continues(bytes: Seq<u8>, i: int) -> bool {
    0 < i < bytes.len() && is_digitish_b(bytes[i]) && !((bytes[i] == 43 || bytes[i] == 45) && !(bytes[i - 1] == 101 || bytes[i - 1] == 69))
}
pub open spec fn num_run(bytes: Seq<u8>, a: int, b: int) -> bool { forall|i: int| a < i < b ==> #[trigger] num_continues(bytes, i) }
// registry predicate on the bytes of a candidate (keyword::is_op answers by the text, hence by its bytes)
pub uninterp spec fn reg_opb(s: Seq<u8>) -> bool;
// greedy symbolic operator: every extension (one character at a time) was a registered operator ...
pub open spec fn sym_run(bytes: Seq<u8>, a: int, b: int) -> bool decreases b - a {
    if b <= a + 1 { b == a + 1 } else {
        exists|p: int| a + 1 <= p < b && b == p + (#[trigger] char_at(bytes, p)).len_utf8() && sym_run(bytes, a, p) && reg_opb(bytes.subrange(a, b))
    }
}
// ... and the next one is not
pub open spec fn sym_stop(bytes: Seq<u8>, a: int, b: int) -> bool { b >= bytes.len() || !reg_opb(bytes.subrange(a, b + char_at(bytes, b).len_utf8())) }
// the word starting at a (up to whitespace / delimiter / end) is a registered operator
pub open spec fn word_is_op(bytes: Seq<u8>, a: int, from: int) -> bool {
    exists|e: int| from <= e <= bytes.len() && no_stop_inside(bytes, from, e) && word_stop(bytes, e) && #[trigger] reg_opb(bytes.subrange(a, e))
}
pub proof fn lemma_word_end_unique(bytes: Seq<u8>, from: int, e1: int, e2: int)
    requires from <= e1 <= bytes.len(), from <= e2 <= bytes.len(), no_stop_inside(bytes, from, e1), word_stop(bytes, e1), no_stop_inside(bytes, from, e2), word_stop(bytes, e2),
    ensures e1 == e2,
{
    if e1 < e2 { assert(!is_ws_byte(bytes[e1]) && !is_delim_b(bytes[e1])); }
    if e2 < e1 { assert(!is_ws_byte(bytes[e2]) && !is_delim_b(bytes[e2])); }
}
pub open spec fn delim_of_chars(s: Seq<char>) -> DelimTokenType {
    if s == "("@ { DelimTokenType::OpenParen } else if s == ")"@ { DelimTokenType::CloseParen } else if s == "["@ { DelimTokenType::OpenBracket }
    else if s == "]"@ { DelimTokenType::CloseBracket } else if s == "{"@ { DelimTokenType::OpenBrace } else if s == "}"@ { DelimTokenType::CloseBrace } else { DelimTokenType::Unknown }
}
// A2: Display of a str is its content
pub broadcast axiom fn axiom_str_to_string(s: &str, r: String) ensures #[trigger] to_string_from_display_ensures(s, r) ==> r@ == s@;
// A8: a &str is determined by its characters
pub broadcast axiom fn axiom_str_ext(a: &str, b: &str) ensures #[trigger] a@ == #[trigger] b@ ==> a == b;
// A2 (UTF-8): a one-byte string below 128 is that ASCII character
pub broadcast axiom fn axiom_ascii_singleton(s: &str) ensures s.spec_bytes().len() == 1 && s.spec_bytes()[0] < 128 ==> (#[trigger] s@) == seq![s.spec_bytes()[0] as char];
// the token after offset b is `(`: nothing but whitespace up to a `(` byte (a name directly followed by `(` is a function name)
pub open spec fn la_open(bytes: Seq<u8>, b: int) -> bool { exists|j: int| b <= j < bytes.len() && all_ws(bytes, b, j) && #[trigger] bytes[j] == 40 }
pub open spec fn is_bool_kw(s: &str) -> bool { s == "True" || s == "true" || s == "False" || s == "false" }
pub open spec fn tok_class(bytes: Seq<u8>, t: Token) -> bool {
    match t {
        Token::EOF => true,
        Token::Delim(ty, Span(a, b)) => is_delim_b(bytes[a as int]) && ty == delim_of_byte(bytes[a as int]),
        Token::Comma(_, Span(a, b)) => bytes[a as int] == 44 && b == a + 1,
        Token::Semicolon(_, Span(a, b)) => bytes[a as int] == 59 && b == a + 1,
        Token::String(_, Span(a, b)) => bytes[a as int] == 34 || bytes[a as int] == 39,
        // a number: a digit, then the maximal run of digit / dot / exponent characters
        Token::Number(_, Span(a, b)) => is_digit_b(bytes[a as int]) && num_run(bytes, a as int, b as int) && !num_continues(bytes, b as int),
        // true / True / false / False as whole identifiers
        Token::Bool(v, Span(a, b)) => other_start(bytes[a as int]) && !word_is_op(bytes, a as int, a + char_at(bytes, a as int).len_utf8())
            && a + char_at(bytes, a as int).len_utf8() <= b
            && all_param(bytes, a + char_at(bytes, a as int).len_utf8(), b as int) && (b >= bytes.len() || !is_param_b(bytes[b as int]))
            && (if v { bytes.subrange(a as int, b as int) == "True".spec_bytes() || bytes.subrange(a as int, b as int) == "true".spec_bytes() }
                else { bytes.subrange(a as int, b as int) == "False".spec_bytes() || bytes.subrange(a as int, b as int) == "false".spec_bytes() }),
        // an operator: greedy symbolic run, or a whole word (up to whitespace / delimiter) that is a registered operator
        Token::Operator(_, Span(a, b)) => if is_sym_b(bytes[a as int]) { sym_run(bytes, a as int, b as int) && sym_stop(bytes, a as int, b as int) }
            else { other_start(bytes[a as int]) && reg_opb(bytes.subrange(a as int, b as int)) && a + char_at(bytes, a as int).len_utf8() <= b
                   && no_stop_inside(bytes, a + char_at(bytes, a as int).len_utf8(), b as int) && word_stop(bytes, b as int) },
        // a name: first character, then the maximal run of [0-9A-Za-z._]; not a word operator, not a boolean keyword; a function name iff the next token is `(`
        Token::Reference(s, Span(a, b)) => name_class(bytes, s, a as int, b as int) && !la_open(bytes, b as int),
        Token::Function(s, Span(a, b)) => name_class(bytes, s, a as int, b as int) && la_open(bytes, b as int),
    }
}
pub open spec fn name_class(bytes: Seq<u8>, s: &str, a: int, b: int) -> bool {
    &&& other_start(bytes[a]) &&& !word_is_op(bytes, a, a + char_at(bytes, a).len_utf8())
    &&& a + char_at(bytes, a).len_utf8() <= b
    &&& all_param(bytes, a + char_at(bytes, a).len_utf8(), b) &&& (b >= bytes.len() || !is_param_b(bytes[b]))
    &&& !is_bool_kw(s)
}

// ======================= the scanner is a function (was assumption A7): tok_post and tok_class determine the token =======================
// A8b: a &str is determined by its bytes; A8c: the UTF-8 encoding of one ASCII character is that byte
pub broadcast axiom fn axiom_str_bytes_ext(a: &str, b: &str) ensures #[trigger] a.spec_bytes() == #[trigger] b.spec_bytes() ==> a == b;
pub broadcast axiom fn axiom_ascii_char_bytes(s: &str) ensures s@.len() == 1 && (s@[0] as u32) < 128 ==> (#[trigger] s.spec_bytes()) == seq![s@[0] as u8];
pub open spec fn tok_at(bytes: Seq<u8>, p: int, t: Token) -> bool { tok_post(bytes, p, t, tok_end(t, bytes.len() as int)) && tok_class(bytes, t) }
// the token the tokenizer produces when scanning from offset p
#[verifier::opaque]
pub open spec fn tk<'a>(b: Seq<u8>, p: int) -> Token<'a> { choose|t: Token<'a>| tok_at(b, p, t) }
pub open spec fn tok_kind(t: Token) -> int {
    match t { Token::EOF => 0, Token::Operator(..) => 1, Token::Comma(..) => 2, Token::Semicolon(..) => 3, Token::Reference(..) => 4, Token::Function(..) => 5,
              Token::Delim(..) => 6, Token::Number(..) => 7, Token::Bool(..) => 8, Token::String(..) => 9 }
}
pub proof fn lemma_first_byte(bytes: Seq<u8>, p: int, t: Token)
    requires tok_at(bytes, p, t), !(t is EOF),
    ensures ({ let a = tok_start(t, bytes.len() as int); let c = bytes[a];
        &&& p <= a < tok_end(t, bytes.len() as int) <= bytes.len() && all_ws(bytes, p, a) && !is_ws_byte(c)
        &&& (t is Delim <==> is_delim_b(c)) && (t is Comma <==> c == 44) && (t is Semicolon <==> c == 59) && (t is String <==> (c == 34 || c == 39)) && (t is Number <==> is_digit_b(c))
        &&& (is_sym_b(c) ==> t is Operator) && (other_start(c) <==> !(t is Delim || t is Comma || t is Semicolon || t is String || t is Number) && !is_sym_b(c))
    }),
{ }
pub proof fn lemma_start_unique(bytes: Seq<u8>, p: int, a1: int, a2: int)
    requires p <= a1 < bytes.len(), p <= a2 < bytes.len(), all_ws(bytes, p, a1), all_ws(bytes, p, a2), !is_ws_byte(bytes[a1]), !is_ws_byte(bytes[a2]),
    ensures a1 == a2,
{
    if a1 < a2 { assert(is_ws_byte(bytes[a1])); }
    if a2 < a1 { assert(is_ws_byte(bytes[a2])); }
}
// positions of a greedy symbolic run form one chain: the step after x is x + len(char at x)
pub proof fn lemma_sym_chain(bytes: Seq<u8>, a: int, x: int, y: int)
    requires sym_run(bytes, a, x), sym_run(bytes, a, y), x < y,
    ensures x + char_at(bytes, x).len_utf8() <= y,
    decreases x + y - 2 * a,
{
    assert(x >= a + 1) by { if x <= a + 1 { } else { let p = choose|p: int| a + 1 <= p < x && x == p + (#[trigger] char_at(bytes, p)).len_utf8() && sym_run(bytes, a, p) && reg_opb(bytes.subrange(a, x)); } }
    assert(y > a + 1);
    let py = choose|p: int| a + 1 <= p < y && y == p + (#[trigger] char_at(bytes, p)).len_utf8() && sym_run(bytes, a, p) && reg_opb(bytes.subrange(a, y));
    if x == py { }
    else if x < py { lemma_sym_chain(bytes, a, x, py); }
    else {
        assert(x > a + 1);
        let px = choose|p: int| a + 1 <= p < x && x == p + (#[trigger] char_at(bytes, p)).len_utf8() && sym_run(bytes, a, p) && reg_opb(bytes.subrange(a, x));
        if px == py { }
        else if px < py { lemma_sym_chain(bytes, a, px, py); }
        else { lemma_sym_chain(bytes, a, py, px); }
    }
}
pub proof fn lemma_sym_next(bytes: Seq<u8>, a: int, x: int, y: int)
    requires sym_run(bytes, a, x), sym_run(bytes, a, y), x < y,
    ensures reg_opb(bytes.subrange(a, x + char_at(bytes, x).len_utf8())),
    decreases y - a,
{
    lemma_sym_chain(bytes, a, x, y);
    assert(x >= a + 1) by { if x <= a + 1 { } else { let p = choose|p: int| a + 1 <= p < x && x == p + (#[trigger] char_at(bytes, p)).len_utf8() && sym_run(bytes, a, p) && reg_opb(bytes.subrange(a, x)); } }
    let py = choose|p: int| a + 1 <= p < y && y == p + (#[trigger] char_at(bytes, p)).len_utf8() && sym_run(bytes, a, p) && reg_opb(bytes.subrange(a, y));
    if x == py { }
    else if x < py { lemma_sym_next(bytes, a, x, py); }
    else { lemma_sym_chain(bytes, a, py, x); }
}
pub proof fn lemma_end_unique(bytes: Seq<u8>, p: int, t1: Token, t2: Token)
    requires tok_at(bytes, p, t1), tok_at(bytes, p, t2), !(t1 is EOF), !(t2 is EOF),
        tok_start(t1, bytes.len() as int) == tok_start(t2, bytes.len() as int),
        tok_kind(t1) == tok_kind(t2) || (tok_kind(t1) != 1 && tok_kind(t2) != 1 && other_start(bytes[tok_start(t1, bytes.len() as int)])),
    ensures tok_end(t1, bytes.len() as int) == tok_end(t2, bytes.len() as int),
{
    let n = bytes.len() as int;
    let a = tok_start(t1, n); let b1 = tok_end(t1, n); let b2 = tok_end(t2, n);
    lemma_first_byte(bytes, p, t1); lemma_first_byte(bytes, p, t2);
    if t1 is String {
        if b1 < b2 { assert(bytes[b1 - 1] != bytes[a]); }
        if b2 < b1 { assert(bytes[b2 - 1] != bytes[a]); }
    } else if t1 is Number {
        if b1 < b2 { assert(num_continues(bytes, b1)); }
        if b2 < b1 { assert(num_continues(bytes, b2)); }
    } else if t1 is Operator {
        if is_sym_b(bytes[a]) {
            if b1 < b2 { lemma_sym_next(bytes, a, b1, b2); }
            if b2 < b1 { lemma_sym_next(bytes, a, b2, b1); }
        } else {
            lemma_word_end_unique(bytes, a + char_at(bytes, a).len_utf8(), b1, b2);
        }
    } else if t1 is Delim || t1 is Comma || t1 is Semicolon {
    } else {
        // Bool / Reference / Function: the maximal run of name characters after the first character
        let f = a + char_at(bytes, a).len_utf8();
        if b1 < b2 { assert(is_param_b(bytes[b1])); }
        if b2 < b1 { assert(is_param_b(bytes[b2])); }
    }
}
pub proof fn lemma_bool_kw_distinct()
    ensures "True".spec_bytes() != "False".spec_bytes(), "True".spec_bytes() != "false".spec_bytes(), "true".spec_bytes() != "False".spec_bytes(), "true".spec_bytes() != "false".spec_bytes(),
{
    broadcast use axiom_str_bytes_ext;
    reveal_strlit("True"); reveal_strlit("true"); reveal_strlit("False"); reveal_strlit("false");
    assert("True"@.len() == 4 && "true"@.len() == 4 && "False"@.len() == 5 && "false"@.len() == 5);
}
// the theorem: at most one token satisfies the scanner's postcondition and classification at a position
pub proof fn lemma_tok_unique(bytes: Seq<u8>, p: int, t1: Token, t2: Token)
    requires tok_at(bytes, p, t1), tok_at(bytes, p, t2),
    ensures t1 == t2,   // @C10 scanner.deterministic
{
    broadcast use axiom_str_bytes_ext;
    let n = bytes.len() as int;
    if t1 is EOF || t2 is EOF {
        if !(t1 is EOF) { lemma_first_byte(bytes, p, t1); assert(is_ws_byte(bytes[tok_start(t1, n)])); }
        if !(t2 is EOF) { lemma_first_byte(bytes, p, t2); assert(is_ws_byte(bytes[tok_start(t2, n)])); }
    } else {
        lemma_first_byte(bytes, p, t1); lemma_first_byte(bytes, p, t2);
        let a = tok_start(t1, n);
        lemma_start_unique(bytes, p, a, tok_start(t2, n));
        let c = bytes[a];
        let f = a + char_at(bytes, a).len_utf8();
        // a whole-word operator excludes the name kinds, and conversely
        if other_start(c) && (t1 is Operator) != (t2 is Operator) {
            let (o, w) = if t1 is Operator { (t1, t2) } else { (t2, t1) };
            assert(word_is_op(bytes, a, f)) by { assert(reg_opb(bytes.subrange(a, tok_end(o, n)))); }
            assert(false);
        }
        lemma_end_unique(bytes, p, t1, t2);
        let b = tok_end(t1, n);
        if other_start(c) && !(t1 is Operator) {
            lemma_bool_kw_distinct();
            // Bool against a name: the name would be a boolean keyword; Reference against Function: the same look-ahead
            if t1 is Bool && !(t2 is Bool) { assert(false); }
            if t2 is Bool && !(t1 is Bool) { assert(false); }
        }
        assert(tok_kind(t1) == tok_kind(t2));
        assert(t1 == t2);
    }
}
pub proof fn lemma_tk(bytes: Seq<u8>, p: int, t: Token)
    requires tok_at(bytes, p, t),
    ensures tk(bytes, p) == t,
{
    reveal(tk);
    let u = choose|u: Token| tok_at(bytes, p, u);
    lemma_tok_unique(bytes, p, t, u);
}
pub proof fn lemma_delim_strs()
    ensures forall|d: DelimTokenType| #[trigger] delim_str(d) == "("@ <==> d == DelimTokenType::OpenParen,
{
    reveal_strlit("("); reveal_strlit(")"); reveal_strlit("["); reveal_strlit("]"); reveal_strlit("{"); reveal_strlit("}"); reveal_strlit("??");
    assert forall|d: DelimTokenType| #[trigger] delim_str(d) == "("@ <==> d == DelimTokenType::OpenParen by {
        if d != DelimTokenType::OpenParen { assert(delim_str(d)[0] != '(' || delim_str(d).len() != 1); }
    }
}
// the look-ahead that separates a function name from a reference sees exactly the `(` token
pub proof fn lemma_open_paren(bytes: Seq<u8>, p: int, t: Token)
    requires tok_at(bytes, p, t),
    ensures tok_is(t, "("@) == la_open(bytes, p),
{
    broadcast use axiom_str_ext, axiom_ascii_char_bytes;
    let n = bytes.len() as int;
    lemma_delim_strs();
    reveal_strlit("(");
    if t is EOF {
        if la_open(bytes, p) { let j = choose|j: int| p <= j < bytes.len() && all_ws(bytes, p, j) && #[trigger] bytes[j] == 40; assert(is_ws_byte(bytes[j])); }
    } else {
        lemma_first_byte(bytes, p, t);
        let a = tok_start(t, n);
        if la_open(bytes, p) {
            let j = choose|j: int| p <= j < bytes.len() && all_ws(bytes, p, j) && #[trigger] bytes[j] == 40;
            lemma_start_unique(bytes, p, a, j);
            assert(t is Delim);
        }
        if tok_is(t, "("@) {
            match t {
                Token::Delim(d, _) => { assert(bytes[a] == 40); assert(all_ws(bytes, p, a)); }
                Token::Operator(op, _) => { assert(op == "("); assert(op.spec_bytes() == seq![40u8]); assert(bytes.subrange(a, tok_end(t, n))[0] == 40); assert(false); }
                _ => {}
            }
        }
    }
}
