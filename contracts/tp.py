"""Unit TP: token.rs + tokenizer.rs + Parser (parser.rs) under contract.

Contracts: tokenizer safety/termination/tok_post (C01, C10, C09 literal, C05 scanners), parser termination (C01),
the parser theorem with derivation witnesses (C02, C05).  Anchors are structural (see vx/splice.py).
"""
from vx.splice import FnSpec as F, Ins, Inv, LetBind, GhostArg, Closure
from vx.unit import Unit, Src, Ghost
import os
_d = os.path.dirname(__file__)
def _t(n): return open(os.path.join(_d, n)).read()

TOKEN = [
  F('Token::is_eof',
    spec=r'''    ensures r == (self is EOF),''',
    ops=[],
  ),
  F('Token::is_op_token',
    spec=r'''    ensures r == (*self is Operator),''',
    ops=[],
  ),
  F('Token::is_semicolon',
    spec=r'''    ensures r == (*self is Semicolon),''',
    ops=[],
  ),
  F('DelimTokenType::string',
    spec=r'''    ensures r@ == delim_str(*self),''',
    ops=[],
  ),
  F('<DelimTokenType as From<&str>>::from', props=['C10'], spec='',
    ops=[Ins('entry', '', '        proof { broadcast use axiom_str_ext; }')],
  ),
  F('check_op',
    spec=r'''    ensures r == tok_is(token, expected@),''',
    ops=[],
  ),
  F('Token::is_open_paren',
    spec=r'''    ensures r == tok_is(self, "("@),''',
    ops=[],
  ),
  F('Token::is_close_paren',
    spec=r'''    ensures r == tok_is(self, ")"@),''',
    ops=[],
  ),
  F('Token::is_question_mark',
    spec=r'''    ensures r == tok_is(self, "?"@),''',
    ops=[],
  ),
  F('Token::is_postfix_op_token',
    spec=r'''    ensures r == (*self matches Token::Operator(op, _) && keyword::reg_postfix(op@)),''',
    ops=[],
  ),
  F('Token::is_binop_token',
    spec=r'''    ensures r == (*self matches Token::Operator(op, _) && keyword::reg_infix(op@)),''',
    ops=[],
  ),
  F('Token::is_not_token',
    spec=r'''    ensures r == is_not_tok(*self),''',
    ops=[],
  ),
  F('Token::string',
    spec=r'''    ensures self matches Token::Operator(op, _) ==> r@ == op@,''',
    ops=[],
  ),
  F('Token::is_close_bracket',
    spec=r'''    ensures r == tok_is(self, "]"@),''',
    ops=[],
  ),
  F('Token::is_close_brace',
    spec=r'''    ensures r == tok_is(self, "}"@),''',
    ops=[],
  ),
]
TOKENIZER = [
  F('Tokenizer::new',
    spec=r'''    ensures r.wf(), r.off() == 0, r.bytes() == input.spec_bytes(),''',
    ops=[],
  ),
  F('Tokenizer::next_one',
    spec=r'''    requires old(self).wf(),
    ensures final(self).wf(), final(self).inp() == old(self).inp(), final(self).cur() == old(self).cur(), final(self).prev() == old(self).prev(),
        r.is_none() ==> final(self).off() == old(self).off() && old(self).off() == old(self).len(),
        r.is_some() ==> {
            &&& r.unwrap().0 == old(self).off() && old(self).off() < old(self).len()
            &&& final(self).off() == old(self).off() + r.unwrap().1.len_utf8()
            &&& final(self).cur_char == r.unwrap().1
            &&& r.unwrap().1 == char_at(old(self).bytes(), old(self).off())
            &&& (r.unwrap().1.len_utf8() == 1 ==> old(self).bytes()[old(self).off()] == r.unwrap().1 as u8)
            &&& (r.unwrap().1.len_utf8() > 1 ==> forall|i: int| old(self).off() <= i < final(self).off() ==> #[trigger] old(self).bytes()[i] >= 128)
        },''',
    ops=[],
  ),
  F('Tokenizer::peek_one',
    spec=r'''    requires old(self).wf(),
    ensures *final(self) == *old(self),
        r.is_none() <==> old(self).off() == old(self).len(),
        r.is_some() ==> r.unwrap().0 == old(self).off() && r.unwrap().1 == char_at(old(self).bytes(), old(self).off())
            && old(self).off() + r.unwrap().1.len_utf8() <= old(self).len()
            && is_char_boundary(old(self).bytes(), old(self).off() + r.unwrap().1.len_utf8()),
        r.is_some() ==> (r.unwrap().1.len_utf8() == 1 ==> old(self).bytes()[old(self).off()] == r.unwrap().1 as u8) && (r.unwrap().1.len_utf8() > 1 ==> forall|i: int| old(self).off() <= i < old(self).off() + r.unwrap().1.len_utf8() ==> #[trigger] old(self).bytes()[i] >= 128),''',
    ops=[],
  ),
  F('Tokenizer::current',
    spec=r'''    requires self.wf(),
    ensures r == self.off(),''',
    ops=[
      Closure(0, "|i: (usize, char)| -> (r: usize) ensures r == i.0"),
      Closure(1, "|| -> (r: usize) ensures r == self.input.spec_bytes().len() as usize"),
    ],
  ),
  F('is_digit_char', props=['C01!', 'C05', 'C09', 'C10'],
    spec=r'''    ensures r == (('0' <= ch && ch <= '9') || ch == '.' || ch == '-' || ch == 'e' || ch == 'E' || ch == '+'),''',
    ops=[],
  ),
  F('is_whitespace_char',
    spec=r'''    ensures r == (ch == ' ' || ch == '\t' || ch == '\r' || ch == '\n'),''',
    ops=[],
  ),
  F('is_delim_char',
    spec=r'''    ensures r == (ch == '(' || ch == ')' || ch == '[' || ch == ']' || ch == '{' || ch == '}'),''',
    ops=[],
  ),
  F('is_param_char',
    spec=r'''    ensures r == (('0' <= ch && ch <= '9') || ('a' <= ch && ch <= 'z') || ('A' <= ch && ch <= 'Z') || ch == '.' || ch == '_'),''',
    ops=[],
  ),
  F('Tokenizer::eat_whitespace',
    spec=r'''    requires old(self).wf(),
    ensures final(self).wf(), final(self).inp() == old(self).inp(),
        final(self).cur() == old(self).cur(), final(self).prev() == old(self).prev(),
        old(self).off() <= final(self).off() <= old(self).len(),
        all_ws(old(self).bytes(), old(self).off(), final(self).off()),
        final(self).off() < old(self).len() ==> !is_ws_byte(old(self).bytes()[final(self).off()]),  // @C10 whitespace.stops_at_token''',
    ops=[Inv('loop#0', r'''        invariant self.wf(), self.inp() == old(self).inp(),
            self.cur() == old(self).cur(), self.prev() == old(self).prev(),
            old(self).off() <= self.off() <= self.len(),
            all_ws(self.bytes(), old(self).off(), self.off()),
        ensures self.off() < self.len() ==> !is_ws_byte(self.bytes()[self.off()]),
        decreases self.len() - self.off(),''')],
  ),
  F('Tokenizer::special_op_token',
    spec=r'''    requires start + 1 == old(self).off(), old(self).in_token(start as int),
    ensures final(self).scan_frame(old(self), start as int),
        r matches Ok(Token::Operator(s, sp)) && sp == Span(start, final(self).off() as usize) && s.spec_bytes() == final(self).text(start as int, final(self).off()),
        sym_run(final(self).bytes(), start as int, final(self).off()) && sym_stop(final(self).bytes(), start as int, final(self).off()),  // @C10 class.greedy_operator
        r is Ok,  // @C05,C10 scanner.total''',
    ops=[Ins('loop#0', 'body_start', '            let ghost o0 = self.off(); proof { broadcast use axiom_str_to_string; }'),
      Ins('call:next_one', 'after', """                        proof {
                            let b_ = self.bytes(); let a_ = start as int; let e_ = self.off();
                            assert(e_ == o0 + char_at(b_, o0).len_utf8());
                            assert(reg_opb(b_.subrange(a_, e_)));
                            assert(sym_run(b_, a_, o0));
                            assert(a_ + 1 <= o0 < e_);
                                                        assert(sym_run(b_, a_, e_));
                        }"""),
      Inv('loop#0', r'''        invariant self.scan_frame(old(self), start as int),
            sym_run(self.bytes(), start as int, self.off()), start + 1 <= self.off(),
        ensures sym_stop(self.bytes(), start as int, self.off()),
        decreases self.len() - self.off(),''')],
  ),
  F('Tokenizer::try_parse_op',
    spec=r'''    requires self.in_token(start as int),
    ensures r == word_is_op(self.bytes(), start as int, self.off()),  // @C10 class.word_operator_probe''',
    ops=[Ins('tail', 'before', """proof {
            let e = tmp.off();
            assert forall|e2: int| self.off() <= e2 <= self.bytes().len() && no_stop_inside(self.bytes(), self.off(), e2) && word_stop(self.bytes(), e2) implies e2 == e by {
                lemma_word_end_unique(self.bytes(), self.off(), e, e2);
            }
        }"""),
      Inv('loop#0', r'''        invariant tmp.scan_frame(self, start as int), no_stop_inside(self.bytes(), self.off(), tmp.off()), self.off() <= tmp.off(),
        ensures word_stop(tmp.bytes(), tmp.off()),
        decreases tmp.len() - tmp.off(),''')],
  ),
  F('Tokenizer::operator_token',
    spec=r'''    requires old(self).in_token(start as int),
    ensures final(self).scan_frame(old(self), start as int),
        r matches Ok(Token::Operator(s, sp)) && sp == Span(start, final(self).off() as usize) && s.spec_bytes() == final(self).text(start as int, final(self).off()),
        no_stop_inside(final(self).bytes(), old(self).off(), final(self).off()) && word_stop(final(self).bytes(), final(self).off()),  // @C10 class.word_operator
        r is Ok,  // @C05,C10 scanner.total''',
    ops=[Inv('loop#0', r'''        invariant self.scan_frame(old(self), start as int),
            no_stop_inside(self.bytes(), old(self).off(), self.off()),
        ensures word_stop(self.bytes(), self.off()),
        decreases self.len() - self.off(),''')],
  ),
  F('Tokenizer::parse_var',
    spec=r'''    requires old(self).in_token(start as int),
    ensures final(self).scan_frame(old(self), start as int),
        r.1 == start, r.0.spec_bytes() == final(self).text(start as int, final(self).off()),
        all_param(final(self).bytes(), old(self).off(), final(self).off()) && (final(self).off() >= final(self).len() || !is_param_b(final(self).bytes()[final(self).off()])),  // @C10 class.identifier_run''',
    ops=[Inv('loop#0', r'''        invariant self.scan_frame(old(self), start as int),
            all_param(self.bytes(), old(self).off(), self.off()),
        ensures self.off() >= self.len() || !is_param_b(self.bytes()[self.off()]),
        decreases self.len() - self.off(),''')],
  ),
  F('Tokenizer::peek',
    spec=r'''    requires self.wf(),
    ensures r matches Ok(t) ==> t == tk(self.bytes(), self.off()),
        r matches Ok(t) ==> tok_at(self.bytes(), self.off(), t),
    decreases self.len() - self.off(), 1int,''',
    ops=[],
  ),
  F('Tokenizer::expect',
    spec=r'''    requires old(self).synced(),
    ensures r is Ok ==> final(self).synced() && final(self).m() <= old(self).m(),  // @C01,C02,C05 progress
        r is Ok && !(old(self).cur() is EOF) ==> final(self).m() < old(self).m(),  // @C01,C02,C05 progress
        final(self).bytes() == old(self).bytes(),
        r is Ok ==> nxt(final(self).bytes(), old(self).cur(), final(self).cur()),
        r is Ok ==> tok_is_sep(old(self).cur(), op@),   // C05: only the expected separator is accepted''',
    ops=[],
  ),
  F('Tokenizer::delim_token',
    spec=r'''    requires is_delim_b(old(self).bytes()[start as int]), old(self).in_token(start as int), start + 1 == old(self).off(),
    ensures *final(self) == *old(self),
        r matches Ok(Token::Delim(ty, sp)) && sp == Span(start, (start + 1) as usize),
        r matches Ok(Token::Delim(ty, sp)) && ty == delim_of_byte(old(self).bytes()[start as int]),  // @C10 class.delimiter
        r is Ok,  // @C05,C10 scanner.total''',
    ops=[Ins('entry', '', '''        proof { broadcast use axiom_ascii_singleton; reveal_strlit("("); reveal_strlit(")"); reveal_strlit("["); reveal_strlit("]"); reveal_strlit("{"); reveal_strlit("}");
            assert("("@ =~= seq!['(']); assert(")"@ =~= seq![')']); assert("["@ =~= seq!['[']); assert("]"@ =~= seq![']']); assert("{"@ =~= seq!['{']); assert("}"@ =~= seq!['}']); }'''),
      ],
  ),
  F('Tokenizer::comma_token',
    spec=r'''    requires old(self).in_token(start as int), start + 1 == old(self).off(),
    ensures *final(self) == *old(self),
        r matches Ok(Token::Comma(s, sp)) && sp == Span(start, (start + 1) as usize) && s.spec_bytes() == old(self).text(start as int, start + 1),
        r is Ok,  // @C05,C10 scanner.total''',
    ops=[],
  ),
  F('Tokenizer::semicolon_token',
    spec=r'''    requires old(self).in_token(start as int), start + 1 == old(self).off(),
    ensures *final(self) == *old(self),
        r matches Ok(Token::Semicolon(s, sp)) && sp == Span(start, (start + 1) as usize) && s.spec_bytes() == old(self).text(start as int, start + 1),
        r is Ok,  // @C05,C10 scanner.total''',
    ops=[],
  ),
  F('Tokenizer::number_token', props=['C01!', 'C05', 'C09', 'C10'],
    spec=r'''    requires is_digit_b(old(self).bytes()[start as int]), start + 1 == old(self).off(), old(self).cur_char.len_utf8() == 1, old(self).bytes()[start as int] == old(self).cur_char as u8, old(self).in_token(start as int),
    ensures final(self).scan_frame(old(self), start as int),
        r matches Ok(t) ==> t matches Token::Number(d, sp) && sp == Span(start, final(self).off() as usize)
             && dec_parse(final(self).text(start as int, final(self).off())) == Some(d),
        r matches Ok(t) ==> num_run(final(self).bytes(), start as int, final(self).off()) && !num_continues(final(self).bytes(), final(self).off()),  // @C09,C10 class.number_run
        r is Err ==> dec_parse(final(self).text(start as int, final(self).off())) is None,  // @C05,C09 number.err_only_if_invalid''',
    ops=[Ins('loop#0', 'body_start', '            let ghost o0 = self.off();'),
      Ins('call:next_one', 'after', '                        proof { assert(num_continues(self.bytes(), o0)); assert(self.bytes()[self.off() - 1] >= 128 || self.cur_char.len_utf8() == 1); }'),
      Inv('loop#0', r'''        invariant self.scan_frame(old(self), start as int),
            num_run(self.bytes(), start as int, self.off()), start < self.off(),
            (self.cur_char.len_utf8() == 1 ==> self.bytes()[self.off() - 1] == self.cur_char as u8), (self.cur_char.len_utf8() > 1 ==> self.bytes()[self.off() - 1] >= 128),
        ensures !num_continues(self.bytes(), self.off()),
        decreases self.len() - self.off(),''')],
  ),
  F('Tokenizer::function_or_reference_token',
    spec=r'''    requires self.in_token(start as int), atom.spec_bytes() == self.text(start as int, self.off()),
    ensures r matches Ok(t) ==> ((t matches Token::Function(s, sp) && sp == Span(start, self.off() as usize) && s == atom)
                              || (t matches Token::Reference(s, sp) && sp == Span(start, self.off() as usize) && s == atom)),
        r matches Ok(t) ==> (t is Function) == la_open(self.bytes(), self.off()),  // @C10 class.function_lookahead
    decreases self.len() - self.off(), 2int,''',
    ops=[Ins('let:peek', 'after', "        proof { lemma_open_paren(self.bytes(), self.off(), peek); }")],
  ),
  F('Tokenizer::string_token', props=['C01!', 'C05', 'C10', 'C12'],   # C12: a string payload never contains its own delimiter, so the printer always has a free quote
    spec=r'''    requires old(self).in_token(start as int), start + 1 == old(self).off(),
        old(self).bytes()[start as int] == old(self).cur_char as u8,
        old(self).cur_char == '"' || old(self).cur_char == '\'',
    ensures final(self).scan_frame(old(self), start as int),
        r matches Ok(t) ==> t matches Token::String(s, sp) && sp == Span(start, final(self).off() as usize)
            && final(self).off() >= start + 2
            && s.spec_bytes() == final(self).text(start + 1, final(self).off() - 1)
            && final(self).bytes()[final(self).off() - 1] == final(self).bytes()[start as int]
            && (forall|i: int| start < i < final(self).off() - 1 ==> #[trigger] final(self).bytes()[i] != final(self).bytes()[start as int]),
        r is Err ==> final(self).off() == final(self).len() && (forall|i: int| start < i < final(self).len() ==> #[trigger] final(self).bytes()[i] != final(self).bytes()[start as int]),  // @C05,C10 string.err_only_if_unterminated''',
    ops=[Inv('loop#0', r'''        invariant_except_break !string_termmited,
        invariant self.scan_frame(old(self), start as int), start + 1 <= self.off(),
            identifier == old(self).cur_char, identifier == '"' || identifier == '\'',
            self.bytes()[start as int] == identifier as u8,
            !string_termmited ==> (forall|i: int| start < i < self.off() ==> #[trigger] self.bytes()[i] != identifier as u8),
        ensures
            string_termmited ==> self.off() >= start + 2 && self.bytes()[self.off() - 1] == identifier as u8
                 && is_char_boundary(self.bytes(), self.off() - 1)
                 && (forall|i: int| start < i < self.off() - 1 ==> #[trigger] self.bytes()[i] != identifier as u8),
            !string_termmited ==> self.off() == self.len() && (forall|i: int| start < i < self.off() ==> #[trigger] self.bytes()[i] != identifier as u8),
        decreases self.len() - self.off(),''')],
  ),
  F('Tokenizer::bool_token',
    spec=r'''    requires old(self).in_token(start as int),
    ensures *final(self) == *old(self),
        r matches Ok(Token::Bool(v, sp)) && v == val && sp == Span(start, old(self).off() as usize),
        r is Ok,  // @C05,C10 scanner.total''',
    ops=[],
  ),
  F('Tokenizer::other_token',
    spec=r'''    requires other_start(old(self).bytes()[start as int]), start + char_at(old(self).bytes(), start as int).len_utf8() == old(self).off(), old(self).in_token(start as int),
    ensures final(self).scan_frame(old(self), start as int),
        r matches Ok(t) ==> tok_post(final(self).bytes(), start as int, t, final(self).off()),
        r matches Ok(t) ==> tok_class(final(self).bytes(), t),  // @C10 class.other_token
    decreases old(self).len() - old(self).off(), 3int,''',
    ops=[],
  ),
  F('Tokenizer::next',
    attr='#[verifier::spinoff_prover]\n#[verifier::rlimit(60)]',
    spec=r'''    requires old(self).wf(),
    ensures final(self).wf(), final(self).inp() == old(self).inp(),
        r matches Ok(t) ==> tok_post(old(self).bytes(), old(self).off(), t, final(self).off())
             && final(self).cur() == t && final(self).prev() == old(self).cur(),
        r is Ok ==> final(self).synced(),
        r is Ok && old(self).synced() ==> final(self).m() <= old(self).m(),  // @C01,C02,C05 progress
        r is Ok && old(self).synced() && !(old(self).cur() is EOF) ==> final(self).m() < old(self).m(),  // @C01,C02,C05 progress
        final(self).bytes() == old(self).bytes(),
        r matches Ok(t) ==> t == tk(old(self).bytes(), old(self).off()),   // @C10 scanner.deterministic
        r matches Ok(t) ==> tok_class(old(self).bytes(), t),  // @C10 class.token
    decreases old(self).len() - old(self).off(), 0int,''',
    ops=[
      Ins('tail', 'before', "proof { let ghost b_ = old(self).bytes(); assert(tok_post(b_, old(self).off(), self.cur_token, self.off())); assert(tok_class(b_, self.cur_token)); assert(tok_end(self.cur_token, b_.len() as int) == self.off()); lemma_tk(b_, old(self).off(), self.cur_token); } // the scanner is a function: this token is the only one satisfying the postcondition and the classification"),
    ],
  ),
]
PARSER = [
  F('Parser::cur_tok',
    spec=r'''    ensures r == self.cur(),''',
    ops=[],
  ),
  F('Parser::new',
    spec=r'''    ensures r matches Ok(p) ==> p.wf(),''',
    ops=[],
  ),
  F('Parser::is_eof',
    spec=r'''    ensures r == (self.cur() is EOF),''',
    ops=[],
  ),
  F('Parser::next',
    spec=r'''    requires old(self).wf(),
    ensures r is Ok ==> final(self).wf() && final(self).bytes() == old(self).bytes() && final(self).m() <= old(self).m(),  // @C01,C02,C05 progress
        r is Ok && !(old(self).cur() is EOF) ==> final(self).m() < old(self).m() && nxt(final(self).bytes(), old(self).cur(), final(self).cur()),
        r is Ok ==> final(self).cur() == tk(old(self).bytes(), tok_end(old(self).cur(), old(self).bytes().len() as int)),''',
    ops=[],
  ),
  F('Parser::expect',
    spec=r'''    requires old(self).wf(),
    ensures r is Ok ==> final(self).wf() && final(self).bytes() == old(self).bytes() && final(self).m() <= old(self).m(),  // @C01,C02,C05 progress
        r is Ok && !(old(self).cur() is EOF) ==> final(self).m() < old(self).m(),  // @C01,C02,C05 progress
        r is Ok ==> nxt(final(self).bytes(), old(self).cur(), final(self).cur()),
        r is Ok ==> tok_is_sep(old(self).cur(), expected@),''',
    ops=[],
  ),
  F('Parser::get_token_precidence',
    spec=r'''    ensures r.0 == pw(self.cur()),
        r.0 >= 0 ==> r.1 == rbp(op_text(self.cur())),''',
    ops=[],
  ),
  F('Parser::parse_token', props=['C01!', 'C02', 'C05', 'C09'],
    spec=r'''    requires old(self).wf(),
    ensures r is Ok ==> final(self).wf() && final(self).bytes() == old(self).bytes() && final(self).m() < old(self).m(),  // @C01,C02,C05 progress
        r matches Ok(v) ==> (if old(self).cur() is Operator { final(self).d_prim(old(self), v) } else { final(self).d_atom(old(self), v) }),
    decreases old(self).m(), 3int,''',
    ops=[
      Ins('call:Literal::Number', 'before', 'proof { lemma_node_lit(token, self.bytes(), self.cur()); }'),
      Ins('call:Literal::Bool', 'before', 'proof { lemma_node_lit(token, self.bytes(), self.cur()); }'),
      Ins('call:Literal::String', 'before', 'proof { lemma_node_lit(token, self.bytes(), self.cur()); }'),
      Ins('call:ExprAST::Reference', 'before', 'proof { lemma_node_ref(token, self.bytes(), self.cur()); }'),
    ],
  ),
  F('Parser::parse_stmt',
    spec=r'''    requires old(self).wf(),
    ensures r matches Ok(v) ==> final(self).cur() is EOF && exists|items: Seq<(G<'a>, Option<Token<'a>>)>, vec: Vec<ExprAST<'a>>|
            #[trigger] prog_ok(items, vec, v, final(self).bytes(), old(self).cur(), final(self).cur()),''',
    ops=[
      Ins('loop#0', 'before', """let ghost mut items: Seq<(G<'a>, Option<Token<'a>>)> = Seq::empty();
        let ghost t0 = self.cur();"""),
      Inv('loop#0', """            invariant self.wf(), self.bytes() == old(self).bytes(),
                wf_stmts(items, self.bytes(), t0, self.cur()),
                ans@.len() == items.len(),
                forall|i: int| 0 <= i < items.len() ==> ans@[i] == ast_of(#[trigger] items[i].0),
            ensures self.cur() is EOF,
            decreases self.m(),"""),
      LetBind('call:parse_expression', 'e', pre="let ghost ts = self.cur();",
              post="""let ghost ge = choose|x: G<'a>| !(x is Entry) && first(x) == ts && #[trigger] wf(x, self.bytes(), self.cur()) && ast_of(x) == e;
            let ghost tn = self.cur();
            let ghost semi = tn is Semicolon;"""),
      Ins('loop#0', 'body_end', """proof {
                let c = if semi { Some(tn) } else { None::<Token<'a>> };
                lemma_stmts_push(items, self.bytes(), t0, ge, c, self.cur());
                items = items.push((ge, c));
            }"""),
      Ins('loop#0', 'after', "        proof { assert(prog_ok(items, ans, if ans@.len() == 1 { ans@[0] } else { ExprAST::Stmt(ans) }, self.bytes(), t0, self.cur())); }"),
    ],
  ),
  F('Parser::parse_expression',
    spec=r'''    requires old(self).wf(),
    ensures r is Ok ==> final(self).wf() && final(self).bytes() == old(self).bytes() && final(self).m() < old(self).m(),  // @C01,C02,C05 progress
        r matches Ok(v) ==> final(self).d_expr(old(self), v),
    decreases old(self).m(), 6int,''',
    ops=[
      Ins('tail', 'before', "let ghost g0 = choose|g: G<'a>| is_prim(g) && first(g) == old(self).cur() && #[trigger] wf(g, self.bytes(), self.cur()) && ast_of(g) == lhs;"),
      GhostArg('call:parse_op', 'Ghost(g0)'),
    ],
  ),
  F('Parser::parse_primary',
    spec=r'''    requires old(self).wf(),
    ensures r is Ok ==> final(self).wf() && final(self).bytes() == old(self).bytes() && final(self).m() < old(self).m(),  // @C01,C02,C05 progress
        r matches Ok(v) ==> final(self).d_prim(old(self), v),
    decreases old(self).m(), 4int,''',
    ops=[
      Ins('if#0', 'before', "let ghost gl = choose|x: G<'a>| is_prim(x) && (is_prefix_expr || is_atom(x)) && first(x) == old(self).cur() && #[trigger] wf(x, self.bytes(), self.cur()) && ast_of(x) == lhs;"),
      Ins('let:op', 'before', "let ghost t_op = self.cur();"),
      LetBind('call:to_string', 's2', post="""proof {
                broadcast use axiom_string_to_string;
                lemma_node_post(gl, t_op, s2, self.bytes(), self.cur());
            }"""),
    ],
  ),
  F('Parser::parse_op',
    attr='#[verifier::spinoff_prover]\n#[verifier::rlimit(60)]',
    spec=r'''    requires old(self).wf(), exec_prec >= 0,
        is_prim(g0), wf(g0, old(self).bytes(), old(self).cur()), ast_of(g0) == lhs,
    ensures r is Ok ==> final(self).wf() && final(self).bytes() == old(self).bytes() && final(self).m() <= old(self).m(),  // @C01,C02,C05 progress
        r matches Ok(v) ==> exists|g: G<'a>| first(g) == first(g0) && #[trigger] wf(g, final(self).bytes(), final(self).cur()) && ast_of(g) == v
            && lspine(g, exec_prec as int) && !(g is Entry)
            && (exec_prec > 0 ==> (tok_is(final(self).cur(), "?"@)
                  || (la(final(self).bytes(), final(self).cur()) < exec_prec && rspine(g, la(final(self).bytes(), final(self).cur()))))),
    decreases old(self).m(), 5int,''',
    ghost_param="Ghost(g0): Ghost<G<'a>>",
    ops=[
      Ins('loop#0', 'before', "let ghost mut g = g0;\n        proof { lemma_prim_spines(g0); }"),
      Inv('loop#0', """        invariant self.wf(), self.m() <= old(self).m(), self.bytes() == old(self).bytes(), exec_prec >= 0,
            wf(g, self.bytes(), self.cur()), ast_of(g) == lhs, first(g) == first(g0), lspine(g, exec_prec as int), !(g is Cond), !(g is Entry),
            tok_is(self.cur(), "?"@) || rspine(g, la(self.bytes(), self.cur())),
        decreases self.m(),"""),
      Ins('loop#0', 'body_start', "            proof { broadcast use axiom_bp; }"),
      # conditional
      Ins('call:is_question_mark', 'body_start', "                let ghost tq = self.cur();"),
      Ins('let:a', 'before', "let ghost tq1 = self.cur();"),
      Ins('let:a', 'after', """                let ghost ga = choose|x: G<'a>| first(x) == tq1 && #[trigger] wf(x, self.bytes(), self.cur()) && ast_of(x) == a;
                let ghost tc = self.cur();"""),
      Ins('let:b', 'before', "let ghost tc1 = self.cur();"),
      Ins('let:b', 'after', """                let ghost gb = choose|x: G<'a>| first(x) == tc1 && #[trigger] wf(x, self.bytes(), self.cur()) && ast_of(x) == b;
                proof {
                    lemma_cond_step(g, tq, ga, tc, gb, self.bytes(), self.cur(), exec_prec as int);
                }"""),
      # binary step, `not` look-through
      Ins('let:is_not', 'after', "            let ghost t_head = self.cur();"),
      Ins('let:op', 'before', """let ghost t_op = self.cur();
            let ghost nt = if is_not { Some(t_head) } else { None::<Token<'a>> };"""),
      Ins('let:rhs', 'before', "let ghost t1 = self.cur();"),
      Ins('let:rhs', 'after', "            let ghost mut gr = choose|x: G<'a>| is_prim(x) && first(x) == t1 && #[trigger] wf(x, self.bytes(), self.cur()) && ast_of(x) == rhs;\n            proof { lemma_prim_spines(gr); }"),
      GhostArg('call:parse_op', 'Ghost(gr)'),
      Ins('assign:rhs', 'after', """                proof {
                    assert(exists|x: G<'a>| first(x) == first(gr) && #[trigger] wf(x, self.bytes(), self.cur()) && ast_of(x) == rhs
                        && lspine(x, r_bp as int) && (tok_is(self.cur(), "?"@) || (la(self.bytes(), self.cur()) < r_bp && rspine(x, la(self.bytes(), self.cur())))));   // @C02 recursion.uses_right_power
                    gr = choose|x: G<'a>| first(x) == first(gr) && #[trigger] wf(x, self.bytes(), self.cur()) && ast_of(x) == rhs
                        && lspine(x, r_bp as int) && (tok_is(self.cur(), "?"@) || (la(self.bytes(), self.cur()) < r_bp && rspine(x, la(self.bytes(), self.cur()))));
                }"""),
      Ins('loop#0', 'body_end', """proof {
                assert(tok_is(self.cur(), "?"@) || la(self.bytes(), self.cur()) <= r_bp);   // @C02 gate.sees_through_not
                lemma_bin_step(g, nt, t_op, gr, self.bytes(), self.cur(), exec_prec as int);
                g = G::Bin(Box::new(g), nt, t_op, Box::new(gr));
            }"""),
    ],
  ),
  F('Parser::parse_delim',
    spec=r'''    requires old(self).wf(), old(self).cur() matches Token::Delim(d, _) && d == ty,
    ensures r is Ok ==> final(self).wf() && final(self).bytes() == old(self).bytes() && final(self).m() < old(self).m(),  // @C01,C02,C05 progress
        r matches Ok(v) ==> final(self).d_atom(old(self), v),
    decreases old(self).m(), 2int,''',
    ops=[],
  ),
  F('Parser::parse_open_paren',
    spec=r'''    requires old(self).wf(), tok_is(old(self).cur(), "("@),
    ensures r is Ok ==> final(self).wf() && final(self).bytes() == old(self).bytes() && final(self).m() < old(self).m(),  // @C01,C02,C05 progress
        r matches Ok(v) ==> final(self).d_atom(old(self), v),
    decreases old(self).m(), 1int,''',
    ops=[
      Ins('call:next', 'after', "        let ghost t1 = self.cur();"),
      Ins('let:expr', 'after', """        let ghost tc = self.cur();
        let ghost ge = choose|g: G<'a>| first(g) == t1 && #[trigger] wf(g, self.bytes(), self.cur()) && ast_of(g) == expr;"""),
      Ins('tail', 'before', "proof { lemma_node_paren(old(self).cur(), ge, tc, self.bytes(), self.cur()); }"),
    ],
  ),
  F('Parser::parse_open_bracket',
    spec=r'''    requires old(self).wf(), tok_is(old(self).cur(), "["@),
    ensures r is Ok ==> final(self).wf() && final(self).bytes() == old(self).bytes() && final(self).m() < old(self).m(),  // @C01,C02,C05 progress
        r matches Ok(v) ==> final(self).d_atom(old(self), v),
    decreases old(self).m(), 1int,''',
    ops=[
      Ins('call:next', 'before', "let ghost t_open = self.cur();"),
      Ins('call:next', 'after', "        let ghost t1 = self.cur();"),
      Ins('loop#0', 'before', "let ghost mut items: Seq<(G<'a>, Option<Token<'a>>)> = Seq::empty();"),
      Inv('loop#0', """            invariant self.wf(), self.bytes() == old(self).bytes(), self.m() < old(self).m(),
                wf_items(items, self.bytes(), t1, self.cur()),
                items.len() > 0 && items.last().1 is None ==> tok_is(self.cur(), "]"@),
                exprs@.len() == items.len(),
                forall|i: int| 0 <= i < items.len() ==> exprs@[i] == ast_of(#[trigger] items[i].0),
            decreases self.m(),"""),
      LetBind('call:parse_expression', 'e', pre="let ghost ts = self.cur();",
              post="""let ghost ge = choose|x: G<'a>| first(x) == ts && #[trigger] wf(x, self.bytes(), self.cur()) && ast_of(x) == e;
            let ghost tn = self.cur();
            let ghost closes = tok_is(tn, "]"@);"""),
      Ins('loop#0', 'body_end', """proof {
                let c = if closes { None::<Token<'a>> } else { Some(tn) };
                lemma_items_push(items, self.bytes(), t1, ge, c, self.cur());
                items = items.push((ge, c));
            }"""),
      Ins('loop#0', 'after', "        let ghost tc = self.cur();"),
      Ins('tail', 'before', """proof {
            lemma_node_list(t_open, items, tc, exprs, self.bytes(), t1, self.cur());
        }"""),
    ],
  ),
  F('Parser::parse_open_brace',
    spec=r'''    requires old(self).wf(), tok_is(old(self).cur(), "{"@),
    ensures r is Ok ==> final(self).wf() && final(self).bytes() == old(self).bytes() && final(self).m() < old(self).m(),  // @C01,C02,C05 progress
        r matches Ok(v) ==> final(self).d_atom(old(self), v),
    decreases old(self).m(), 1int,''',
    ops=[
      Ins('call:next', 'before', "let ghost t_open = self.cur();"),
      Ins('call:next', 'after', "        let ghost t1 = self.cur();"),
      Ins('loop#0', 'before', """let ghost mut items: Seq<(G<'a>, Option<Token<'a>>)> = Seq::empty();
        proof { reveal_with_fuel(wf_items, 2); }"""),
      Inv('loop#0', """            invariant self.wf(), self.bytes() == old(self).bytes(), self.m() < old(self).m(),
                wf_items(items, self.bytes(), t1, self.cur()),
                items.len() > 0 && items.last().1 is None ==> tok_is(self.cur(), "}"@),
                m@.len() == items.len(),
                forall|i: int| 0 <= i < items.len() ==> entry_ok(#[trigger] items[i].0, m@[i]),
            decreases self.m(),"""),
      Ins('let:k', 'before', "let ghost ts = self.cur();"),
      Ins('let:k', 'after', """            let ghost gk = choose|x: G<'a>| !(x is Entry) && first(x) == ts && #[trigger] wf(x, self.bytes(), self.cur()) && ast_of(x) == k;
            let ghost tcol = self.cur();"""),
      Ins('let:v', 'before', "let ghost tv = self.cur();"),
      Ins('let:v', 'after', """            let ghost gv = choose|x: G<'a>| !(x is Entry) && first(x) == tv && #[trigger] wf(x, self.bytes(), self.cur()) && ast_of(x) == v;
            let ghost tn = self.cur();
            let ghost closes = tok_is(tn, "}"@);
            let ghost ge = G::Entry(Box::new(gk), tcol, Box::new(gv));
            proof { lemma_node_entry(gk, tcol, gv, self.bytes(), tn); }"""),
      Ins('loop#0', 'body_end', """proof {
                let c = if closes { None::<Token<'a>> } else { Some(tn) };
                lemma_items_push(items, self.bytes(), t1, ge, c, self.cur());
                items = items.push((ge, c));
            }"""),
      Ins('loop#0', 'after', "        let ghost tc = self.cur();"),
      Ins('tail', 'before', """proof {
            lemma_node_map(t_open, items, tc, m, self.bytes(), t1, self.cur());
        }"""),
    ],
  ),
  F('Parser::parse_unary',
    spec=r'''    requires old(self).wf(), old(self).cur() matches Token::Operator(s, _) && s == op,
    ensures r is Ok ==> final(self).wf() && final(self).bytes() == old(self).bytes() && final(self).m() < old(self).m(),  // @C01,C02,C05 progress
        r matches Ok(v) ==> final(self).d_prim(old(self), v),
    decreases old(self).m(), 1int,''',
    ops=[
      LetBind('call:parse_primary', 'inner', pre="let ghost t1 = self.cur();", post="""proof {
            let gi = choose|g: G<'a>| is_prim(g) && first(g) == t1 && #[trigger] wf(g, self.bytes(), self.cur()) && ast_of(g) == inner;
            lemma_node_pre(old(self).cur(), gi, self.bytes(), self.cur());
        }"""),
    ],
  ),
  F('Parser::parse_function',
    spec=r'''    requires old(self).wf(), old(self).cur() matches Token::Function(nm, _) && nm == name,
    ensures r is Ok ==> final(self).wf() && final(self).bytes() == old(self).bytes() && final(self).m() < old(self).m(),  // @C01,C02,C05 progress
        r matches Ok(v) ==> final(self).d_atom(old(self), v),
    decreases old(self).m(), 1int,''',
    ops=[
      Ins('call:next', 'before', "let ghost t_name = self.cur();"),
      Ins('call:next', 'after', "        let ghost t_open = self.cur();"),
      Ins('call:expect', 'after', "        let ghost t1 = self.cur();"),
      Ins('let:ans', 'after', "        let ghost mut items: Seq<(G<'a>, Option<Token<'a>>)> = Seq::empty();"),
      Ins('return#0', 'before', """proof {
                reveal_with_fuel(wf_items, 2);
                lemma_node_call(t_name, t_open, items, t1, ans, self.bytes(), t1, self.cur());
            }"""),
      Ins('loop#0', 'before', """let ghost mut t_close = t1;
        proof { reveal_with_fuel(wf_items, 2); }"""),
      Inv('loop#0', """            invariant_except_break
                wf_items(items, self.bytes(), t1, self.cur()),
                items.len() > 0 ==> items.last().1 is Some,
            invariant self.wf(), self.bytes() == old(self).bytes(), self.m() < old(self).m(),
                ans@.len() == items.len(),
                forall|i: int| 0 <= i < items.len() ==> ans@[i] == ast_of(#[trigger] items[i].0),
            ensures has_right_paren, items.len() > 0, items.last().1 is None,
                wf_items(items, self.bytes(), t1, t_close), tok_is(t_close, ")"@), nxt(self.bytes(), t_close, self.cur()),
            decreases self.m(),"""),
      LetBind('call:parse_expression', 'e', pre="let ghost ts = self.cur();",
              post="""let ghost ge = choose|x: G<'a>| !(x is Entry) && first(x) == ts && #[trigger] wf(x, self.bytes(), self.cur()) && ast_of(x) == e;
            let ghost tn = self.cur();"""),
      Ins('break#0', 'before', "proof { lemma_items_push(items, self.bytes(), t1, ge, None, tn); items = items.push((ge, None)); t_close = tn; }"),
      Ins('loop#0', 'body_end', "proof { lemma_items_push(items, self.bytes(), t1, ge, Some(tn), self.cur()); items = items.push((ge, Some(tn))); }"),
      Ins('tail', 'before', """proof {
            lemma_node_call(t_name, t_open, items, t_close, ans, self.bytes(), t1, self.cur());
        }"""),
    ],
  ),
  F('Parser::get_infix_precidence',
    spec=r'''    requires self.wf(),
    ensures r matches Ok(p) ==> p.0 == la(self.bytes(), self.cur()) && (p.0 >= 0 ==> p.1 == rbp(op_text(optok(self.bytes(), self.cur())))),''',
    ops=[],
  ),
]

HEAD = _t('prelude_std.rs')
UNIT = Unit('tp', [
    Ghost(HEAD, name='prelude'),
    Src('error.rs'),
    Src('define.rs'),
    Ghost(_t('keyword_stub.rs'), name='keyword_stub'),
    Src('token.rs', fns=TOKEN, props=['C05', 'C10'],
        regex_rules=[('rule13_string_eq_str', r'(\b\w+\.string\(\)) == (\w+)', r'vx_string_eq_str(&\1, \2)'), ('rule13_string_eq_str', r'\b(\w+) == (\w+\.string\(\))', r'vx_string_eq_str(&\2, \1)')]),
    Ghost(_t('ghost_tokenizer.rs'), props=['C10'], name='ghost_tokenizer'),
    Src('tokenizer.rs', fns=TOKENIZER, props=['C01!', 'C05', 'C10'],
        item_attr={'Tokenizer': '#[verifier::external_derive]'},
        regex_rules=[('rule13_string_eq_str', r'(\b\w+\.string\(\)) == (\w+)', r'vx_string_eq_str(&\1, \2)'), ('rule13_string_eq_str', r'\b(\w+) == (\w+\.string\(\))', r'vx_string_eq_str(&\2, \1)')]),
    Ghost(_t('ghost_parser.rs'), props=['C02', 'C05'], name='ghost_parser'),
    Src('parser.rs', fns=PARSER, props=['C01!', 'C02', 'C05'],
        keep_fns=lambda k: k.startswith('Parser::'),
        item_attr={'Literal': '#[verifier::external_derive]', 'ExprAST': '#[verifier::external_derive]'}),
    Ghost('\n} } // verus!\nfn main(){}\n', name='tail'),
])
