// ======================= what the printer must produce (property C12, written from the grammar) =======================
pub open spec fn paren(s: Seq<char>) -> Seq<char> { "("@ + s + ")"@ }
pub open spec fn bin_l(t: ExprAST) -> int { match t { ExprAST::Binary(op, _, _) => lbp(op@), _ => -1 } }
pub open spec fn bin_r(t: ExprAST) -> int { match t { ExprAST::Binary(op, _, _) => rbp(op@), _ => -1 } }
pub open spec fn render_lit(l: Literal) -> Seq<char> {
    match l {
        Literal::Number(d) => dec_text(d),
        Literal::Bool(b) => if b { "true"@ } else { "false"@ },
        // a string token never contains its own delimiter: take the quote the text does not contain
        Literal::String(s) => if s@.contains('"') { "'"@ + s@ + "'"@ } else { "\""@ + s@ + "\""@ },
    }
}
pub open spec fn render(t: ExprAST) -> Seq<char> decreases t, 0int {
    match t {
        ExprAST::Literal(l) => render_lit(l),
        ExprAST::Reference(n) => n@,
        // prefix `op x`: x parenthesised iff it is binary or conditional
        ExprAST::Unary(op, rhs) => if *rhs is Binary || *rhs is Ternary { op@ + " ("@ + render(*rhs) + ")"@ } else { op@ + " "@ + render(*rhs) },
        // postfix `x op`: x parenthesised iff it is binary, conditional, prefix or postfix
        ExprAST::Postfix(lhs, op) => render_operand(*lhs) + " "@ + op@,
        // binary `l op r`: l parenthesised iff it would lose `op` to its own right side; r iff `op` would not capture it; a conditional operand always
        ExprAST::Binary(op, lhs, rhs) => {
            let l = if (*lhs is Binary && bin_r(*lhs) < lbp(op@)) || *lhs is Ternary { paren(render(*lhs)) } else { render(*lhs) };
            let r = if (*rhs is Binary && !(rbp(op@) < bin_l(*rhs))) || *rhs is Ternary { paren(render(*rhs)) } else { render(*rhs) };
            l + " "@ + op@ + " "@ + r
        },
        ExprAST::Ternary(c, a, b) => (if *c is Ternary { paren(render(*c)) } else { render(*c) }) + " ? "@ + render(*a) + " : "@ + render(*b),
        ExprAST::Function(name, args) => name@ + "("@ + joined(args@, ","@, args@.len() as int) + ")"@,
        ExprAST::List(items) => "["@ + joined(items@, ","@, items@.len() as int) + "]"@,
        ExprAST::Map(m) => "{"@ + joined_pairs(m@, m@.len() as int) + "}"@,
        ExprAST::Stmt(items) => joined(items@, ";"@, items@.len() as int),
        ExprAST::None => ""@,
    }
}
pub open spec fn render_operand(t: ExprAST) -> Seq<char> decreases t, 1int {
    if t is Binary || t is Ternary || t is Unary || t is Postfix { paren(render(t)) } else { render(t) }
}
// the first k elements, in order, each followed by `sep` except the last element of the whole sequence
pub open spec fn joined(items: Seq<ExprAST>, sep: Seq<char>, k: int) -> Seq<char> decreases items, k {
    if k <= 0 || k > items.len() { Seq::empty() } else { joined(items, sep, k - 1) + render(items[k - 1]) + (if k - 1 < items.len() - 1 { sep } else { Seq::empty() }) }
}
pub open spec fn joined_pairs(items: Seq<(ExprAST, ExprAST)>, k: int) -> Seq<char> decreases items, k {
    if k <= 0 || k > items.len() { Seq::empty() } else {
        joined_pairs(items, k - 1) + render(items[k - 1].0) + ":"@ + render(items[k - 1].1) + (if k - 1 < items.len() - 1 { ","@ } else { Seq::empty() }) }
}
pub open spec fn vec_cloned<'a>(a: Vec<ExprAST<'a>>, b: Vec<ExprAST<'a>>) -> bool {
    a.len() == b.len() && forall|i: int| 0 <= i < a.len() ==> cloned(#[trigger] a[i], b[i])
}
pub proof fn lemma_vec_cloned_eq<'a>(a: Vec<ExprAST<'a>>, b: Vec<ExprAST<'a>>) requires vec_cloned(a, b) ensures a@ =~= b@
{ assert forall|i: int| 0 <= i < a.len() implies a@[i] == b@[i] by { assert(cloned(a[i], b[i])); } }
pub open spec fn pairs_cloned<'a>(a: Vec<(ExprAST<'a>, ExprAST<'a>)>, b: Vec<(ExprAST<'a>, ExprAST<'a>)>) -> bool {
    a.len() == b.len() && forall|i: int| 0 <= i < a.len() ==> cloned(#[trigger] a[i], b[i])
}
// trusted (rule 6): the built-in Clone of a pair of ASTs is structural
pub broadcast axiom fn axiom_pair_clone<'a>(a: (ExprAST<'a>, ExprAST<'a>), b: (ExprAST<'a>, ExprAST<'a>)) ensures #[trigger] cloned(a, b) ==> a == b;
