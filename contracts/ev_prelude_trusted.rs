
// ---------- opaque handlers (rule 7) ----------
#[verifier::external_body] pub struct Fn1 { x: u8 }
#[verifier::external_body] pub struct Fn2 { x: u8 }
#[verifier::external_body] pub struct InnerFunction { x: u8 }      // dyn Fn(Vec<Value>) -> Result<Value> + Send + Sync
pub type FnN = std::sync::Arc<InnerFunction>;
pub uninterp spec fn apply1(h: Fn1, a: SV) -> Option<SV>;
pub uninterp spec fn apply2(h: Fn2, a: SV, b: SV) -> Option<SV>;
pub uninterp spec fn applyn(h: FnN, a: Seq<SV>) -> Option<SV>;
pub open spec fn agree_v(r: Result<Value>, o: Option<SV>) -> bool {
    (r is Ok) == o.is_some() && (r matches Ok(v) ==> vv(v) == o.unwrap())
}
// an application `h(args)` of a handler value is rewritten to vx_apply(h, (args,)) (rule 7); handlers are modelled as
// deterministic functions of their argument values (A4): apply1/apply2/applyn are uninterpreted
pub trait VxHandler<A>: Sized {
    spec fn app(self, a: A) -> Option<SV>;
    fn vx_call(self, a: A) -> (r: Result<Value>) ensures agree_v(r, self.app(a));
}
impl VxHandler<(Value,)> for Fn1 {
    open spec fn app(self, a: (Value,)) -> Option<SV> { apply1(self, vv(a.0)) }
    #[verifier::external_body] fn vx_call(self, a: (Value,)) -> (r: Result<Value>) { unimplemented!() }
}
impl VxHandler<(Value, Value)> for Fn2 {
    open spec fn app(self, a: (Value, Value)) -> Option<SV> { apply2(self, vv(a.0), vv(a.1)) }
    #[verifier::external_body] fn vx_call(self, a: (Value, Value)) -> (r: Result<Value>) { unimplemented!() }
}
impl VxHandler<(Vec<Value>,)> for FnN {
    open spec fn app(self, a: (Vec<Value>,)) -> Option<SV> { applyn(self, vv_seq(a.0@)) }
    #[verifier::external_body] fn vx_call(self, a: (Vec<Value>,)) -> (r: Result<Value>) { unimplemented!() }
}
impl<'b> VxHandler<(Vec<Value>,)> for &'b FnN {
    open spec fn app(self, a: (Vec<Value>,)) -> Option<SV> { applyn(*self, vv_seq(a.0@)) }
    #[verifier::external_body] fn vx_call(self, a: (Vec<Value>,)) -> (r: Result<Value>) { unimplemented!() }
}
pub fn vx_apply<A, H: VxHandler<A>>(h: H, a: A) -> (r: Result<Value>) ensures agree_v(r, h.app(a)) { h.vx_call(a) }

// ---------- trusted registry reads ----------
pub uninterp spec fn infix_ty(op: Seq<char>) -> Option<InfixOpType>;
pub uninterp spec fn infix_h(op: Seq<char>) -> Option<Fn2>;
pub uninterp spec fn prefix_h(op: Seq<char>) -> Option<Fn1>;
pub uninterp spec fn postfix_h(op: Seq<char>) -> Option<Fn1>;
pub uninterp spec fn func_h(name: Seq<char>) -> Option<FnN>;
pub broadcast axiom fn axiom_same_entry(op: Seq<char>) ensures #[trigger] infix_ty(op) is Some <==> #[trigger] infix_h(op) is Some;
#[verifier::external_body] pub struct InfixOpManager { x: u8 }     // opaque: an empty struct would make every handle equal, and a view that is a function of the handle could then never change
impl InfixOpManager {
  #[verifier::external_body] pub fn new() -> Self { unimplemented!() }
  #[verifier::external_body] pub fn get_precidence(&self, op: &str) -> (i32, i32) { unimplemented!() }
  #[verifier::external_body] pub fn get_op_type(&self, op: &str) -> (r: Result<InfixOpType>)
      ensures (r is Ok) == infix_ty(op@).is_some(), r matches Ok(t) ==> t == infix_ty(op@).unwrap() { unimplemented!() }
  #[verifier::external_body] pub fn get_handler(&self, op: &str) -> (r: Result<Fn2>)
      ensures (r is Ok) == infix_h(op@).is_some(), r matches Ok(t) ==> t == infix_h(op@).unwrap() { unimplemented!() }
}
#[verifier::external_body] pub struct PrefixOpManager { x: u8 }     // opaque: an empty struct would make every handle equal, and a view that is a function of the handle could then never change
impl PrefixOpManager {
  #[verifier::external_body] pub fn new() -> Self { unimplemented!() }
  #[verifier::external_body] pub fn get(&self, op: &str) -> (r: Result<Fn1>)
      ensures (r is Ok) == prefix_h(op@).is_some(), r matches Ok(t) ==> t == prefix_h(op@).unwrap() { unimplemented!() }
}
#[verifier::external_body] pub struct PostfixOpManager { x: u8 }     // opaque: an empty struct would make every handle equal, and a view that is a function of the handle could then never change
impl PostfixOpManager {
  #[verifier::external_body] pub fn new() -> Self { unimplemented!() }
  #[verifier::external_body] pub fn get(&self, op: &str) -> (r: Result<Fn1>)
      ensures (r is Ok) == postfix_h(op@).is_some(), r matches Ok(t) ==> t == postfix_h(op@).unwrap() { unimplemented!() }
}
#[verifier::external_body] pub struct InnerFunctionManager { x: u8 }     // opaque: an empty struct would make every handle equal, and a view that is a function of the handle could then never change
impl InnerFunctionManager {
  #[verifier::external_body] pub fn new() -> Self { unimplemented!() }
  #[verifier::external_body] pub fn get(&self, op: &str) -> (r: Result<FnN>)
      ensures (r is Ok) == func_h(op@).is_some(), r matches Ok(t) ==> t == func_h(op@).unwrap() { unimplemented!() }
}
// ---------- trusted context primitives over the view ----------
pub enum CV { Var(SV), Func(FnN) }
pub type St = Map<Seq<char>, CV>;
pub open spec fn spec_value(s: St, name: Seq<char>) -> Option<SV> {
    if !s.dom().contains(name) { Some(SV::None) } else { match s[name] { CV::Var(v) => Some(v), CV::Func(f) => applyn(f, Seq::empty()) } }
}
pub open spec fn spec_get_func(s: St, name: Seq<char>) -> Option<FnN> {
    if !s.dom().contains(name) { None } else { match s[name] { CV::Var(_) => None, CV::Func(f) => Some(f) } }
}
// rule 22: the context is an Arc<Mutex<HashMap<String, ContextValue>>>; its view is the map it holds (A4: no other thread changes it
// during one evaluation). Reads go through vx_lock() (rule 30): the guard is modelled as a shared reference to the map.
#[verifier::external_body] pub struct Context { x: u8 }
impl View for Context { type V = St; uninterp spec fn view(&self) -> St; }
pub open spec fn cv_view(c: ContextValue) -> CV { match c { ContextValue::Variable(v) => CV::Var(vv(v)), ContextValue::Function(f) => CV::Func(f) } }
#[verifier::external_body] #[verifier::reject_recursive_types(V)] pub struct VxMap<V> { x: Vec<V> }      // the HashMap<String, V> behind a lock
impl<V> VxMap<V> {
    pub uninterp spec fn map(&self) -> Map<Seq<char>, V>;
    // trusted: HashMap<String, V>::get::<str>
    #[verifier::external_body] pub fn get(&self, k: &str) -> (r: Option<&V>)
        ensures r == (if self.map().dom().contains(k@) { Some(&self.map()[k@]) } else { None::<&V> }) { unimplemented!() }
}
impl Context {
    // trusted: Mutex::lock().unwrap() on the context's map
    #[verifier::external_body] pub fn vx_lock(&self) -> (r: &VxMap<ContextValue>)
        ensures r.map().dom() == self@.dom(), forall|k: Seq<char>| #[trigger] r.map().dom().contains(k) ==> cv_view(r.map()[k]) == self@[k] { unimplemented!() }
}
pub assume_specification[<ContextValue as Clone>::clone](v: &ContextValue) -> (r: ContextValue) ensures r == *v;
pub assume_specification[<Value as Clone>::clone](v: &Value) -> (r: Value) ensures r == *v;
// ---------- derived Clone of the AST types (rule 6) ----------
pub assume_specification<'a>[<ExprAST<'a> as Clone>::clone](v: &ExprAST<'a>) -> (r: ExprAST<'a>) ensures r == *v;
pub assume_specification<'a>[<Literal<'a> as Clone>::clone](v: &Literal<'a>) -> (r: Literal<'a>) ensures r == *v;

// ---------- deep value view ----------
pub enum SV { Str(Seq<char>), Num(Decimal), Bool(bool), List(Seq<SV>), Map(Seq<(SV, SV)>), None }
pub open spec fn vv(v: Value) -> SV decreases v {
    match v {
        Value::String(s) => SV::Str(s@), Value::Number(d) => SV::Num(d), Value::Bool(b) => SV::Bool(b),
        Value::List(l) => SV::List(vv_seq(l@)), Value::Map(m) => SV::Map(vv_pairs(m@)), Value::None => SV::None,
    }
}
pub open spec fn vv_seq(s: Seq<Value>) -> Seq<SV> decreases s {
    if s.len() == 0 { Seq::empty() } else { vv_seq(s.drop_last()).push(vv(s.last())) }
}
pub open spec fn vv_pairs(s: Seq<(Value, Value)>) -> Seq<(SV, SV)> decreases s {
    if s.len() == 0 { Seq::empty() } else { vv_pairs(s.drop_last()).push((vv(s.last().0), vv(s.last().1))) }
}
impl vstd::std_specs::convert::FromSpecImpl<&str> for Value { open spec fn obeys_from_spec() -> bool { false } open spec fn from_spec(v: &str) -> Self { Value::None } }
impl vstd::std_specs::convert::FromSpecImpl<String> for Value { open spec fn obeys_from_spec() -> bool { false } open spec fn from_spec(v: String) -> Self { Value::None } }
impl vstd::std_specs::convert::FromSpecImpl<bool> for Value { open spec fn obeys_from_spec() -> bool { true } open spec fn from_spec(v: bool) -> Self { Value::Bool(v) } }
impl vstd::std_specs::convert::FromSpecImpl<Vec<Value>> for Value { open spec fn obeys_from_spec() -> bool { true } open spec fn from_spec(v: Vec<Value>) -> Self { Value::List(v) } }
impl vstd::std_specs::convert::FromSpecImpl<Decimal> for Value { open spec fn obeys_from_spec() -> bool { true } open spec fn from_spec(v: Decimal) -> Self { Value::Number(v) } }
