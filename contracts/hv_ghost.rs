// ---------- FromPrimitive conversions of rust_decimal (A3; the loop-free ones are validated by Kani harnesses in the thorough tier) ----------
#[verifier::external_trait_specification]
pub trait ExFromPrimitive: Sized {
    type ExternalTraitSpecificationFor: rust_decimal::prelude::FromPrimitive;
    fn from_i64(n: i64) -> Option<Self>;
    fn from_u64(n: u64) -> Option<Self>;
    fn from_i128(n: i128) -> Option<Self>;
    fn from_u128(n: u128) -> Option<Self>;
    fn from_i32(n: i32) -> Option<Self>;
    fn from_i16(n: i16) -> Option<Self>;
    fn from_i8(n: i8) -> Option<Self>;
    fn from_u32(n: u32) -> Option<Self>;
    fn from_u16(n: u16) -> Option<Self>;
    fn from_u8(n: u8) -> Option<Self>;
    fn from_f64(n: f64) -> Option<Self>;
    fn from_f32(n: f32) -> Option<Self>;
}
pub open spec fn fits96(n: int) -> bool { -0x1_0000_0000_0000_0000_0000_0000 < n < 0x1_0000_0000_0000_0000_0000_0000 }
pub open spec fn spec_from_int(n: int) -> Option<Decimal> { if fits96(n) { Some(dec_of_int(n)) } else { None } }
pub assume_specification[<Decimal as rust_decimal::prelude::FromPrimitive>::from_i64](n: i64) -> (r: Option<Decimal>) ensures r == spec_from_int(n as int);
pub assume_specification[<Decimal as rust_decimal::prelude::FromPrimitive>::from_u64](n: u64) -> (r: Option<Decimal>) ensures r == spec_from_int(n as int);
pub assume_specification[<Decimal as rust_decimal::prelude::FromPrimitive>::from_i128](n: i128) -> (r: Option<Decimal>) ensures r == spec_from_int(n as int);
pub assume_specification[<Decimal as rust_decimal::prelude::FromPrimitive>::from_u128](n: u128) -> (r: Option<Decimal>) ensures r == spec_from_int(n as int);
pub assume_specification[<Decimal as rust_decimal::prelude::FromPrimitive>::from_i32](n: i32) -> (r: Option<Decimal>) ensures r == spec_from_int(n as int);
#[verifier::external_body] pub fn vx_dec_from_i16(n: i16) -> (r: Option<Decimal>) ensures r == spec_from_int(n as int) { Decimal::from_i16(n) }   // provided trait method: Verus cannot attach a spec to it (rule 18)
#[verifier::external_body] pub fn vx_dec_from_i8(n: i8) -> (r: Option<Decimal>) ensures r == spec_from_int(n as int) { Decimal::from_i8(n) }   // provided trait method: Verus cannot attach a spec to it (rule 18)
pub assume_specification[<Decimal as rust_decimal::prelude::FromPrimitive>::from_u32](n: u32) -> (r: Option<Decimal>) ensures r == spec_from_int(n as int);
#[verifier::external_body] pub fn vx_dec_from_u16(n: u16) -> (r: Option<Decimal>) ensures r == spec_from_int(n as int) { Decimal::from_u16(n) }   // provided trait method: Verus cannot attach a spec to it (rule 18)
#[verifier::external_body] pub fn vx_dec_from_u8(n: u8) -> (r: Option<Decimal>) ensures r == spec_from_int(n as int) { Decimal::from_u8(n) }   // provided trait method: Verus cannot attach a spec to it (rule 18)
pub assume_specification[<Decimal as rust_decimal::prelude::FromPrimitive>::from_f64](n: f64) -> (r: Option<Decimal>);
pub assume_specification[<Decimal as rust_decimal::prelude::FromPrimitive>::from_f32](n: f32) -> (r: Option<Decimal>);

// ---------- deep value view ----------
pub enum SV { Str(Seq<char>), Num(Decimal), Bool(bool), List(Seq<SV>), Map(Seq<(SV, SV)>), None }
pub open spec fn vv(v: Value) -> SV decreases v {
    match v {
        Value::String(s) => SV::Str(s@), Value::Number(d) => SV::Num(d), Value::Bool(b) => SV::Bool(b),
        Value::List(l) => SV::List(vv_seq(l@)), Value::Map(m) => SV::Map(vv_pairs(m@)), Value::None => SV::None,
    }
}
pub open spec fn vv_seq(s: Seq<Value>) -> Seq<SV> decreases s { if s.len() == 0 { Seq::empty() } else { vv_seq(s.drop_last()).push(vv(s.last())) } }
pub open spec fn vv_pairs(s: Seq<(Value, Value)>) -> Seq<(SV, SV)> decreases s { if s.len() == 0 { Seq::empty() } else { vv_pairs(s.drop_last()).push((vv(s.last().0), vv(s.last().1))) } }
pub open spec fn agree_v(r: Result<Value>, o: Option<SV>) -> bool { (r is Ok) == o.is_some() && (r matches Ok(v) ==> vv(v) == o.unwrap()) }
pub proof fn lemma_vv_seq(s: Seq<Value>)
    ensures vv_seq(s).len() == s.len(), forall|i: int| 0 <= i < s.len() ==> #[trigger] vv_seq(s)[i] == vv(s[i]),
    decreases s.len()
{
    if s.len() > 0 {
        lemma_vv_seq(s.drop_last());
        assert forall|i: int| 0 <= i < s.len() implies #[trigger] vv_seq(s)[i] == vv(s[i]) by {
            if i < s.len() - 1 { assert(s.drop_last()[i] == s[i]); }
        }
    }
}
// structural equality of values; numbers compare numerically (A3: Decimal's PartialEq ignores trailing zeros); derived PartialEq is structural (rule 6)
pub open spec fn sv_eq(a: SV, b: SV) -> bool decreases a {
    match (a, b) {
        (SV::Str(x), SV::Str(y)) => x == y,
        (SV::Num(x), SV::Num(y)) => dec_eq(x, y),
        (SV::Bool(x), SV::Bool(y)) => x == y,
        (SV::List(x), SV::List(y)) => x.len() == y.len() && forall|i: int| 0 <= i < x.len() ==> sv_eq(#[trigger] x[i], y[i]),
        (SV::Map(x), SV::Map(y)) => x.len() == y.len() && forall|i: int| 0 <= i < x.len() ==> sv_eq((#[trigger] x[i]).0, y[i].0) && sv_eq(x[i].1, y[i].1),
        (SV::None, SV::None) => true,
        _ => false,
    }
}
pub assume_specification[<Value as PartialEq>::eq](a: &Value, b: &Value) -> (r: bool) ensures r == sv_eq(vv(*a), vv(*b));
pub assume_specification[<Value as Clone>::clone](a: &Value) -> (r: Value) ensures r == *a;
impl vstd::std_specs::convert::FromSpecImpl<&str> for Value { open spec fn obeys_from_spec() -> bool { false } open spec fn from_spec(v: &str) -> Self { Value::None } }
impl vstd::std_specs::convert::FromSpecImpl<String> for Value { open spec fn obeys_from_spec() -> bool { true } open spec fn from_spec(v: String) -> Self { Value::String(v) } }
impl vstd::std_specs::convert::FromSpecImpl<bool> for Value { open spec fn obeys_from_spec() -> bool { true } open spec fn from_spec(v: bool) -> Self { Value::Bool(v) } }
impl vstd::std_specs::convert::FromSpecImpl<Vec<Value>> for Value { open spec fn obeys_from_spec() -> bool { true } open spec fn from_spec(v: Vec<Value>) -> Self { Value::List(v) } }
impl vstd::std_specs::convert::FromSpecImpl<Decimal> for Value { open spec fn obeys_from_spec() -> bool { true } open spec fn from_spec(v: Decimal) -> Self { Value::Number(v) } }
pub open spec fn num_of(o: Option<Decimal>) -> Value { Value::Number(match o { Some(d) => d, None => dec_of_int(0) }) }
impl vstd::std_specs::convert::FromSpecImpl<i128> for Value { open spec fn obeys_from_spec() -> bool { true } open spec fn from_spec(v: i128) -> Self { num_of(spec_from_int(v as int)) } }
impl vstd::std_specs::convert::FromSpecImpl<i64> for Value { open spec fn obeys_from_spec() -> bool { true } open spec fn from_spec(v: i64) -> Self { num_of(spec_from_int(v as int)) } }
impl vstd::std_specs::convert::FromSpecImpl<i32> for Value { open spec fn obeys_from_spec() -> bool { true } open spec fn from_spec(v: i32) -> Self { num_of(spec_from_int(v as int)) } }
impl vstd::std_specs::convert::FromSpecImpl<i16> for Value { open spec fn obeys_from_spec() -> bool { true } open spec fn from_spec(v: i16) -> Self { num_of(spec_from_int(v as int)) } }
impl vstd::std_specs::convert::FromSpecImpl<i8> for Value { open spec fn obeys_from_spec() -> bool { true } open spec fn from_spec(v: i8) -> Self { num_of(spec_from_int(v as int)) } }
impl vstd::std_specs::convert::FromSpecImpl<u128> for Value { open spec fn obeys_from_spec() -> bool { true } open spec fn from_spec(v: u128) -> Self { num_of(spec_from_int(v as int)) } }
impl vstd::std_specs::convert::FromSpecImpl<u64> for Value { open spec fn obeys_from_spec() -> bool { true } open spec fn from_spec(v: u64) -> Self { num_of(spec_from_int(v as int)) } }
impl vstd::std_specs::convert::FromSpecImpl<u32> for Value { open spec fn obeys_from_spec() -> bool { true } open spec fn from_spec(v: u32) -> Self { num_of(spec_from_int(v as int)) } }
impl vstd::std_specs::convert::FromSpecImpl<u16> for Value { open spec fn obeys_from_spec() -> bool { true } open spec fn from_spec(v: u16) -> Self { num_of(spec_from_int(v as int)) } }
impl vstd::std_specs::convert::FromSpecImpl<u8> for Value { open spec fn obeys_from_spec() -> bool { true } open spec fn from_spec(v: u8) -> Self { num_of(spec_from_int(v as int)) } }
impl vstd::std_specs::convert::FromSpecImpl<f64> for Value { open spec fn obeys_from_spec() -> bool { false } open spec fn from_spec(v: f64) -> Self { Value::None } }
impl vstd::std_specs::convert::FromSpecImpl<f32> for Value { open spec fn obeys_from_spec() -> bool { false } open spec fn from_spec(v: f32) -> Self { Value::None } }

// ---------- integers among the decimals ----------
pub open spec fn in_i64(n: int) -> bool { i64::MIN <= n <= i64::MAX }
pub proof fn lemma_pow10_pos(n: nat) ensures pow10(n) > 0 decreases n { if n > 0 { lemma_pow10_pos((n - 1) as nat); } }
pub proof fn lemma_int_unique(d: Decimal, n: int, m: int) requires is_int(d, n), is_int(d, m) ensures n == m
{
    lemma_pow10_pos(dec_scale(d));
    let p = pow10(dec_scale(d));
    assert(n * p == m * p ==> n == m) by(nonlinear_arith) requires p > 0;
}
// the i64 value of d if d is an integer in the i64 range (whatever its scale)
pub open spec fn dec_to_i64(d: Decimal) -> Option<i64> {
    if exists|n: int| in_i64(n) && #[trigger] is_int(d, n) { Some((choose|n: int| in_i64(n) && #[trigger] is_int(d, n)) as i64) } else { None }
}
pub proof fn lemma_to_i64(d: Decimal, n: int) requires is_int(d, n)
    ensures in_i64(n) ==> dec_to_i64(d) == Some(n as i64), !in_i64(n) ==> dec_to_i64(d) is None
{
    if in_i64(n) {
        let m = choose|m: int| in_i64(m) && #[trigger] is_int(d, m);
        lemma_int_unique(d, n, m);
    } else {
        if exists|m: int| in_i64(m) && #[trigger] is_int(d, m) {
            let m = choose|m: int| in_i64(m) && #[trigger] is_int(d, m);
            lemma_int_unique(d, n, m);
        }
    }
}

// ---------- trusted wrappers (rules 17, 19): std `Pattern` methods and external associated constants have no Verus specification ----------
#[verifier::external_body] pub fn vx_starts_with(a: &String, b: &String) -> (r: bool) ensures r == b@.is_prefix_of(a@) { a.starts_with(b) }
#[verifier::external_body] pub fn vx_ends_with(a: &String, b: &String) -> (r: bool) ensures r == b@.is_suffix_of(a@) { a.ends_with(b) }
#[verifier::external_body] pub fn vx_dec_one() -> (r: Decimal) ensures r == dec_one() { Decimal::ONE }
#[verifier::external_body] pub fn vx_dec_zero() -> (r: Decimal) ensures r == dec_zero() { Decimal::ZERO }
#[verifier::external_body] pub fn vx_dec_neg(a: Decimal) -> (r: Decimal) ensures r == dec_neg(a) { -a }   // rule 20: vstd's `-` hook has a precondition that cannot be given for a foreign type; Decimal's Neg never panics
