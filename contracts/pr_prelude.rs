#![allow(unused_imports, dead_code, unused_variables, unused_mut, unused_parens)]
use vstd::prelude::*;
use vstd::string::*;
use std::fmt;
use rust_decimal::prelude::*;
use rust_decimal::Decimal;
verus! {
mod m {
use super::*; use core::result; use vstd::prelude::*; use vstd::string::*; use rust_decimal::Decimal;
#[verifier::external_type_specification]
#[verifier::external_body]
pub struct ExDecimal(rust_decimal::Decimal);
// A3: Display of a Decimal
pub uninterp spec fn dec_text(d: Decimal) -> Seq<char>;
pub broadcast axiom fn axiom_decimal_to_string(d: Decimal, r: String) ensures #[trigger] to_string_from_display_ensures(&d, r) ==> r@ == dec_text(d);
// A2: Display of a str is its content
pub broadcast axiom fn axiom_str_to_string(s: &str, r: String) ensures #[trigger] to_string_from_display_ensures(s, r) ==> r@ == s@;
// trusted wrappers (rules 9, 17)
#[verifier::external_body] pub fn vx_add(a: String, b: &str) -> (r: String) ensures r@ == a@ + b@ { a + b }
#[verifier::external_body] pub fn vx_string_from(s: &str) -> (r: String) ensures r@ == s@ { String::from(s) }   // rule 21: `String::from(&str)` / `"lit".into()` cannot be given a Verus spec (nested lifetime binders)
#[verifier::external_body] pub fn vx_contains_char(s: &str, c: char) -> (r: bool) ensures r == s@.contains(c) { s.contains(c) }
// binding powers of the registry (unit L proves that get_precidence returns (2p, 2p+-1) of the registered entry)
pub uninterp spec fn lbp(op: Seq<char>) -> int;
pub uninterp spec fn rbp(op: Seq<char>) -> int;
#[verifier::external_body] pub struct InfixOpManager { x: u8 }     // opaque: an empty struct would make every handle equal, and a view that is a function of the handle could then never change
impl InfixOpManager {
  #[verifier::external_body] pub fn new() -> Self { unimplemented!() }
  #[verifier::external_body] pub fn get_precidence(&self, op: &str) -> (r: (i32, i32)) ensures r.0 == lbp(op@), r.1 == rbp(op@) { unimplemented!() }
}
pub assume_specification<'a>[<ExprAST<'a> as Clone>::clone](v: &ExprAST<'a>) -> (r: ExprAST<'a>) ensures r == *v;
pub assume_specification<'a>[<Literal<'a> as Clone>::clone](v: &Literal<'a>) -> (r: Literal<'a>) ensures r == *v;
