#![allow(unused_imports, dead_code, unused_variables, unused_mut, unused_parens)]
use vstd::prelude::*;
use vstd::string::*;
use std::fmt;
use rust_decimal::prelude::*;
use rust_decimal::Decimal;
verus! {
mod m {
use super::*; use core::result; use vstd::prelude::*; use vstd::string::*; use rust_decimal::Decimal;

// ---------- dependency model A3: rust_decimal ----------
#[verifier::external_type_specification]
#[verifier::external_body]
pub struct ExDecimal(rust_decimal::Decimal);
// a Decimal denotes mant / 10^scale
pub uninterp spec fn dec_mant(d: Decimal) -> int;
pub uninterp spec fn dec_scale(d: Decimal) -> nat;
pub open spec fn pow10(n: nat) -> int decreases n { if n == 0 { 1 } else { 10 * pow10((n - 1) as nat) } }
// the number is the integer n (whatever its scale)
pub open spec fn is_int(d: Decimal, n: int) -> bool { dec_mant(d) == n * pow10(dec_scale(d)) }
// checked arithmetic: Some(exact result) when representable, None on overflow / zero divisor (rust_decimal documentation)
pub uninterp spec fn dec_add(a: Decimal, b: Decimal) -> Option<Decimal>;
pub uninterp spec fn dec_sub(a: Decimal, b: Decimal) -> Option<Decimal>;
pub uninterp spec fn dec_mul(a: Decimal, b: Decimal) -> Option<Decimal>;
pub uninterp spec fn dec_div(a: Decimal, b: Decimal) -> Option<Decimal>;
pub uninterp spec fn dec_rem(a: Decimal, b: Decimal) -> Option<Decimal>;
pub uninterp spec fn dec_neg(a: Decimal) -> Decimal;
pub uninterp spec fn dec_cmp(a: Decimal, b: Decimal) -> Option<core::cmp::Ordering>;     // numeric order (always Some)
pub uninterp spec fn dec_eq(a: Decimal, b: Decimal) -> bool;                               // numeric equality: 1.0 == 1.00
pub open spec fn dec_lt(a: Decimal, b: Decimal) -> bool { dec_cmp(a, b) == Some(core::cmp::Ordering::Less) }
pub open spec fn dec_le(a: Decimal, b: Decimal) -> bool { dec_cmp(a, b) == Some(core::cmp::Ordering::Less) || dec_cmp(a, b) == Some(core::cmp::Ordering::Equal) }
pub open spec fn dec_gt(a: Decimal, b: Decimal) -> bool { dec_cmp(a, b) == Some(core::cmp::Ordering::Greater) }
pub open spec fn dec_ge(a: Decimal, b: Decimal) -> bool { dec_cmp(a, b) == Some(core::cmp::Ordering::Greater) || dec_cmp(a, b) == Some(core::cmp::Ordering::Equal) }
pub assume_specification[<Decimal as PartialOrd>::partial_cmp](a: &Decimal, b: &Decimal) -> (r: Option<core::cmp::Ordering>) ensures r == dec_cmp(*a, *b);
pub assume_specification[<Decimal as PartialEq>::eq](a: &Decimal, b: &Decimal) -> (r: bool) ensures r == dec_eq(*a, *b);
pub assume_specification[Decimal::checked_add](a: Decimal, b: Decimal) -> (r: Option<Decimal>) ensures r == dec_add(a, b);
pub assume_specification[Decimal::checked_sub](a: Decimal, b: Decimal) -> (r: Option<Decimal>) ensures r == dec_sub(a, b);
pub assume_specification[Decimal::checked_mul](a: Decimal, b: Decimal) -> (r: Option<Decimal>) ensures r == dec_mul(a, b);
pub assume_specification[Decimal::checked_div](a: Decimal, b: Decimal) -> (r: Option<Decimal>) ensures r == dec_div(a, b);
pub assume_specification[Decimal::checked_rem](a: Decimal, b: Decimal) -> (r: Option<Decimal>) ensures r == dec_rem(a, b);
pub assume_specification[<Decimal as core::ops::Neg>::neg](a: Decimal) -> (r: Decimal) ensures r == dec_neg(a);
// normalize(): same number, no trailing fractional zeros (an integer gets scale 0)
pub uninterp spec fn dec_norm(a: Decimal) -> Decimal;
pub assume_specification[Decimal::normalize](a: &Decimal) -> (r: Decimal) ensures r == dec_norm(*a);
pub broadcast axiom fn axiom_normalize(d: Decimal)
    ensures
        (forall|n: int| is_int(d, n) ==> dec_scale(#[trigger] dec_norm(d)) == 0 && dec_mant(dec_norm(d)) == n),
        (forall|n: int| !is_int(d, n)) ==> dec_scale(dec_norm(d)) > 0;
// Display + std parse: a scale-0 number prints as its integer; a number with fractional digits prints a '.', which parse::<i64> rejects
pub uninterp spec fn dec_text(d: Decimal) -> Seq<char>;
pub uninterp spec fn parse_i64(s: Seq<char>) -> Option<i64>;
pub broadcast axiom fn axiom_decimal_to_string(d: Decimal, r: String)
    ensures #[trigger] to_string_from_display_ensures(&d, r) ==> r@ == dec_text(d);
pub broadcast axiom fn axiom_text_parse(d: Decimal)
    ensures
        dec_scale(d) == 0 && i64::MIN <= dec_mant(d) <= i64::MAX ==> #[trigger] parse_i64(dec_text(d)) == Some(dec_mant(d) as i64),
        dec_scale(d) == 0 && !(i64::MIN <= dec_mant(d) <= i64::MAX) ==> parse_i64(dec_text(d)) is None,
        dec_scale(d) > 0 ==> parse_i64(dec_text(d)) is None;
// constants and integer conversions
pub uninterp spec fn dec_of_int(n: int) -> Decimal;        // the scale-0 Decimal with mantissa n (for |n| < 2^96)
pub broadcast axiom fn axiom_dec_of_int(n: int) ensures -0x1_0000_0000_0000_0000_0000_0000 < n < 0x1_0000_0000_0000_0000_0000_0000 ==> dec_mant(#[trigger] dec_of_int(n)) == n && dec_scale(dec_of_int(n)) == 0;
pub assume_specification[<Decimal as Default>::default]() -> (r: Decimal) ensures r == dec_of_int(0);
pub open spec fn dec_zero() -> Decimal { dec_of_int(0) }
pub open spec fn dec_one() -> Decimal { dec_of_int(1) }

// ---------- A2: std ----------
#[verifier::external_type_specification]
#[verifier::external_body]
pub struct ExPIE(core::num::ParseIntError);
#[verifier::external_type_specification]
#[verifier::external_body]
pub struct ExPFE(core::num::ParseFloatError);
#[verifier::external_trait_specification]
pub trait ExFromStr: Sized {
    type ExternalTraitSpecificationFor: core::str::FromStr;
    type Err;
    fn from_str(s: &str) -> core::result::Result<Self, Self::Err>;
}
pub assume_specification<F: core::str::FromStr>[str::parse::<F>](s: &str) -> (r: core::result::Result<F, <F as core::str::FromStr>::Err>)
    ensures call_ensures(<F as core::str::FromStr>::from_str, (s,), r);
pub assume_specification[<i64 as core::str::FromStr>::from_str](s: &str) -> (r: core::result::Result<i64, core::num::ParseIntError>)
    ensures r.is_ok() == parse_i64(s@).is_some(), r matches Ok(v) ==> v == parse_i64(s@).unwrap();
pub assume_specification[<f64 as core::str::FromStr>::from_str](s: &str) -> (r: core::result::Result<f64, core::num::ParseFloatError>);
pub assume_specification<T, E, U, F: FnOnce(T) -> U>[core::result::Result::<T, E>::map_or](o: core::result::Result<T, E>, d: U, f: F) -> (r: U)
    ensures o.is_err() ==> r == d, o matches Ok(v) ==> f.ensures((v,), r);
// further rust_decimal / std API (so that rewrites of the handlers and accessors stay within the verifier's reach)
pub assume_specification[Decimal::mantissa](a: &Decimal) -> (r: i128) ensures r as int == dec_mant(*a);
pub assume_specification[Decimal::scale](a: &Decimal) -> (r: u32) ensures r as nat == dec_scale(*a);
pub assume_specification[Decimal::new](num: i64, scale: u32) -> (r: Decimal) requires scale <= 28 ensures dec_mant(r) == num as int, dec_scale(r) == scale as nat;
pub uninterp spec fn dec_trunc(d: Decimal) -> int;       // integer part, truncated toward zero
pub broadcast axiom fn axiom_dec_trunc(d: Decimal, n: int) ensures #[trigger] is_int(d, n) ==> dec_trunc(d) == n;
#[verifier::external_trait_specification]
pub trait ExToPrimitive {
    type ExternalTraitSpecificationFor: rust_decimal::prelude::ToPrimitive;
    fn to_i64(&self) -> Option<i64>;
    fn to_u64(&self) -> Option<u64>;
    fn to_i128(&self) -> Option<i128>;
    fn to_u128(&self) -> Option<u128>;
    fn to_f64(&self) -> Option<f64>;
}
pub assume_specification[<Decimal as rust_decimal::prelude::ToPrimitive>::to_i64](a: &Decimal) -> (r: Option<i64>)
    ensures r == (if i64::MIN <= dec_trunc(*a) <= i64::MAX { Some(dec_trunc(*a) as i64) } else { None::<i64> });
pub assume_specification[<Decimal as rust_decimal::prelude::ToPrimitive>::to_u64](a: &Decimal) -> (r: Option<u64>);   // (a negative sign with integer part 0 yields None: left unspecified)
pub assume_specification[<Decimal as rust_decimal::prelude::ToPrimitive>::to_i128](a: &Decimal) -> (r: Option<i128>) ensures r == Some(dec_trunc(*a) as i128);
pub assume_specification[<Decimal as rust_decimal::prelude::ToPrimitive>::to_u128](a: &Decimal) -> (r: Option<u128>);
pub assume_specification[<Decimal as rust_decimal::prelude::ToPrimitive>::to_f64](a: &Decimal) -> (r: Option<f64>);
pub assume_specification[i64::checked_shl](a: i64, b: u32) -> (r: Option<i64>) ensures r == (if b < 64 { Some(a << b) } else { None::<i64> });
pub assume_specification[i64::checked_shr](a: i64, b: u32) -> (r: Option<i64>) ensures r == (if b < 64 { Some(a >> b) } else { None::<i64> });
pub assume_specification[u64::checked_shl](a: u64, b: u32) -> (r: Option<u64>) ensures r == (if b < 64 { Some(a << b) } else { None::<u64> });
pub assume_specification[u64::checked_shr](a: u64, b: u32) -> (r: Option<u64>) ensures r == (if b < 64 { Some(a >> b) } else { None::<u64> });
