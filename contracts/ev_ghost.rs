
// ======================= big-step semantics, written from properties C03/C06/C07 =======================
pub open spec fn lit_sv(l: Literal) -> SV { match l { Literal::Number(d) => SV::Num(d), Literal::Bool(b) => SV::Bool(b), Literal::String(s) => SV::Str(s@) } }
pub open spec fn sem(a: ExprAST, s: St) -> (Option<SV>, St) decreases a {
    match a {
        ExprAST::Literal(l) => (Some(lit_sv(l)), s),
        ExprAST::Reference(x) => (spec_value(s, x@), s),
        ExprAST::Function(name, args) => {
            let (vs, s1) = sem_seq(args@, s);
            match vs { None => (None, s1), Some(l) => (match spec_get_func(s1, name@) { Some(f) => applyn(f, l),
                                                         None => match func_h(name@) { Some(f) => applyn(f, l), None => None } }, s1) }
        },
        ExprAST::Unary(op, rhs) => match prefix_h(op@) { None => (None, s), Some(h) => { let (v, s1) = sem(*rhs, s); match v { None => (None, s1), Some(v) => (apply1(h, v), s1) } } },
        ExprAST::Postfix(lhs, op) => match postfix_h(op@) { None => (None, s), Some(h) => { let (v, s1) = sem(*lhs, s); match v { None => (None, s1), Some(v) => (apply1(h, v), s1) } } },
        ExprAST::Binary(op, lhs, rhs) => match infix_ty(op@) {
            None => (None, s),
            Some(ty) => {
                let (a, s1) = sem(*lhs, s);
                match a { None => (None, s1), Some(a) => {
                    let (b, s2) = sem(*rhs, s1);
                    match b { None => (None, s2), Some(b) => match ty {
                        InfixOpType::CALC => (apply2(infix_h(op@).unwrap(), a, b), s2),
                        InfixOpType::SETTER => match *lhs {
                            ExprAST::Reference(x) => match apply2(infix_h(op@).unwrap(), a, b) { Some(v) => (Some(SV::None), s2.insert(x@, CV::Var(v))), None => (None, s2) },
                            _ => (None, s2) },
                    } } } }
            } },
        ExprAST::Ternary(c, t, e) => { let (vc, s1) = sem(*c, s); match vc { Some(SV::Bool(b)) => if b { sem(*t, s1) } else { sem(*e, s1) }, _ => (None, s1) } },
        ExprAST::List(items) => { let (vs, s1) = sem_seq(items@, s); match vs { Some(l) => (Some(SV::List(l)), s1), None => (None, s1) } },
        ExprAST::Stmt(items) => { let (vs, s1) = sem_seq(items@, s); match vs { Some(l) => (Some(if l.len() == 0 { SV::None } else { l.last() }), s1), None => (None, s1) } },
        ExprAST::Map(m) => { let (vs, s1) = sem_pairs(m@, s); match vs { Some(l) => (Some(SV::Map(l)), s1), None => (None, s1) } },
        ExprAST::None => (Some(SV::None), s),
    }
}
pub open spec fn sem_seq(items: Seq<ExprAST>, s: St) -> (Option<Seq<SV>>, St) decreases items {
    if items.len() == 0 { (Some(Seq::empty()), s) } else {
        let (pv, s1) = sem_seq(items.drop_last(), s);
        match pv { None => (None, s1), Some(p) => { let (v, s2) = sem(items.last(), s1); match v { None => (None, s2), Some(v) => (Some(p.push(v)), s2) } } }
    }
}
pub open spec fn sem_pairs(items: Seq<(ExprAST, ExprAST)>, s: St) -> (Option<Seq<(SV, SV)>>, St) decreases items {
    if items.len() == 0 { (Some(Seq::empty()), s) } else {
        let (pv, s1) = sem_pairs(items.drop_last(), s);
        match pv { None => (None, s1), Some(p) => {
            let (k, s2) = sem(items.last().0, s1);
            match k { None => (None, s2), Some(k) => { let (v, s3) = sem(items.last().1, s2); match v { None => (None, s3), Some(v) => (Some(p.push((k, v))), s3) } } } } }
    }
}
pub open spec fn agrees(r: Result<Value>, fin: St, spec: (Option<SV>, St)) -> bool { fin == spec.1 && agree_v(r, spec.0) }

pub open spec fn vec_cloned<'a>(a: Vec<ExprAST<'a>>, b: Vec<ExprAST<'a>>) -> bool {
    a.len() == b.len() && forall|i: int| 0 <= i < a.len() ==> cloned(#[trigger] a[i], b[i])
}
pub proof fn lemma_vec_cloned_eq<'a>(a: Vec<ExprAST<'a>>, b: Vec<ExprAST<'a>>) requires vec_cloned(a, b) ensures a@ =~= b@
{ assert forall|i: int| 0 <= i < a.len() implies a@[i] == b@[i] by { assert(cloned(a[i], b[i])); } }
// one more element: prefix k -> prefix k+1 (both outcomes), and an error in a prefix is the outcome of the whole sequence
pub proof fn lemma_seq_step(items: Seq<ExprAST>, k: int, s: St)
    requires 0 <= k < items.len(),
    ensures ({
        let (pv, ps) = sem_seq(items.take(k), s);
        let (v, s1) = sem(items[k], ps);
        &&& (pv is Some ==> sem_seq(items.take(k + 1), s) == (match v { Some(v) => Some(pv.unwrap().push(v)), None => None::<Seq<SV>> }, s1))
        &&& (pv is Some && v is None ==> sem_seq(items, s) == (None::<Seq<SV>>, s1))
    }),
{
    assert(items.take(k + 1).drop_last() =~= items.take(k));
    assert(items.take(k + 1).last() == items[k]);
    if sem_seq(items.take(k), s).0 is Some && sem(items[k], sem_seq(items.take(k), s).1).0 is None { lemma_err_prefix(items, k + 1, s); }
}
pub proof fn lemma_err_prefix(items: Seq<ExprAST>, k: int, s: St)
    requires 0 <= k <= items.len(), sem_seq(items.take(k), s).0 is None,
    ensures sem_seq(items, s) == sem_seq(items.take(k), s),
    decreases items.len() - k
{
    if k < items.len() {
        assert(items.take(k + 1).drop_last() =~= items.take(k));
        lemma_err_prefix(items, k + 1, s);
    } else { assert(items.take(k) =~= items); }
}
pub proof fn lemma_vv_seq_push(s: Seq<Value>, v: Value) ensures vv_seq(s.push(v)) == vv_seq(s).push(vv(v))
{ assert(s.push(v).drop_last() =~= s); }

pub open spec fn pairs_cloned<'a>(a: Vec<(ExprAST<'a>, ExprAST<'a>)>, b: Vec<(ExprAST<'a>, ExprAST<'a>)>) -> bool {
    a.len() == b.len() && forall|i: int| 0 <= i < a.len() ==> cloned(#[trigger] a[i], b[i])
}
// trusted (rule 6): the built-in Clone of a pair of ASTs is structural
pub broadcast axiom fn axiom_pair_clone<'a>(a: (ExprAST<'a>, ExprAST<'a>), b: (ExprAST<'a>, ExprAST<'a>)) ensures #[trigger] cloned(a, b) ==> a == b;
pub proof fn lemma_pairs_step(items: Seq<(ExprAST, ExprAST)>, k: int, s: St)
    requires 0 <= k < items.len(),
    ensures ({
        let (pv, ps) = sem_pairs(items.take(k), s);
        let (kv, s1) = sem(items[k].0, ps);
        let (vl, s2) = sem(items[k].1, s1);
        &&& (pv is Some && kv is Some ==> sem_pairs(items.take(k + 1), s) == (match vl { Some(v) => Some(pv.unwrap().push((kv.unwrap(), v))), None => None::<Seq<(SV, SV)>> }, s2))
        &&& (pv is Some && kv is None ==> sem_pairs(items, s) == (None::<Seq<(SV, SV)>>, s1))
        &&& (pv is Some && kv is Some && vl is None ==> sem_pairs(items, s) == (None::<Seq<(SV, SV)>>, s2))
    }),
{
    assert(items.take(k + 1).drop_last() =~= items.take(k));
    assert(items.take(k + 1).last() == items[k]);
    let (pv, ps) = sem_pairs(items.take(k), s);
    if pv is Some {
        let (kv, s1) = sem(items[k].0, ps);
        if kv is None || sem(items[k].1, s1).0 is None { lemma_pairs_err_prefix(items, k + 1, s); }
    }
}
pub proof fn lemma_pairs_err_prefix(items: Seq<(ExprAST, ExprAST)>, k: int, s: St)
    requires 0 <= k <= items.len(), sem_pairs(items.take(k), s).0 is None,
    ensures sem_pairs(items, s) == sem_pairs(items.take(k), s),
    decreases items.len() - k
{
    if k < items.len() { assert(items.take(k + 1).drop_last() =~= items.take(k)); lemma_pairs_err_prefix(items, k + 1, s); }
    else { assert(items.take(k) =~= items); }
}
pub proof fn lemma_vv_pairs_push(s: Seq<(Value, Value)>, v: (Value, Value)) ensures vv_pairs(s.push(v)) == vv_pairs(s).push((vv(v.0), vv(v.1)))
{ assert(s.push(v).drop_last() =~= s); }
