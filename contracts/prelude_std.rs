
#![allow(unused_imports, dead_code, unused_variables, unused_mut)]
use vstd::prelude::*;
use vstd::string::*;
use vstd::utf8::*;
use std::str;
use std::fmt;
use rust_decimal::prelude::*;
use rust_decimal::Decimal;
verus! {
mod m {
use super::*; use core::result; use vstd::prelude::*; use vstd::string::*; use vstd::utf8::*; use vstd::slice::*; use rust_decimal::Decimal;

// ---------- trusted: std CharIndices ----------
#[verifier::external_type_specification]
#[verifier::external_body]
pub struct ExCharIndices<'a>(core::str::CharIndices<'a>);

pub uninterp spec fn ci_bytes(c: &core::str::CharIndices) -> Seq<u8>;
pub uninterp spec fn ci_off(c: &core::str::CharIndices) -> int;
// the scalar value encoded at byte offset `off` of `bytes` (meaningful at char boundaries < len)
pub uninterp spec fn char_at(bytes: Seq<u8>, off: int) -> char;

pub open spec fn ci_wf(c: &core::str::CharIndices) -> bool {
    &&& valid_utf8(ci_bytes(c))
    &&& ci_bytes(c).len() <= usize::MAX
    &&& 0 <= ci_off(c) <= ci_bytes(c).len()
    &&& is_char_boundary(ci_bytes(c), ci_off(c))
}

pub assume_specification<'a>[str::char_indices](s: &'a str) -> (r: std::str::CharIndices<'a>)
    ensures ci_bytes(&r) == s.spec_bytes(), ci_off(&r) == 0, ci_wf(&r);

pub assume_specification<'a>[<core::str::CharIndices<'a> as Iterator>::next](c: &mut std::str::CharIndices<'a>) -> (r: Option<(usize, char)>)
    ensures
        ci_bytes(final(c)) == ci_bytes(old(c)),
        ci_wf(old(c)) ==> ci_wf(final(c)),
        ci_wf(old(c)) && ci_off(old(c)) == ci_bytes(old(c)).len() ==> r.is_none() && ci_off(final(c)) == ci_off(old(c)),
        ci_wf(old(c)) && ci_off(old(c)) < ci_bytes(old(c)).len() ==> {
            &&& r.is_some()
            &&& r.unwrap().0 == ci_off(old(c))
            &&& r.unwrap().1 == char_at(ci_bytes(old(c)), ci_off(old(c)))
            &&& ci_off(final(c)) == ci_off(old(c)) + r.unwrap().1.len_utf8()
            &&& (r.unwrap().1.len_utf8() == 1 ==> ci_bytes(old(c))[ci_off(old(c))] == r.unwrap().1 as u8)
            &&& (r.unwrap().1.len_utf8() > 1 ==> forall|i: int| ci_off(old(c)) <= i < ci_off(final(c)) ==> #[trigger] ci_bytes(old(c))[i] >= 128)
        };

pub assume_specification<'a>[<core::str::CharIndices<'a> as Clone>::clone](c: &std::str::CharIndices<'a>) -> (r: std::str::CharIndices<'a>)
    ensures ci_bytes(&r) == ci_bytes(c), ci_off(&r) == ci_off(c);

// ---------- trusted: functional postcondition of `&s[range]` on str (vstd only gives the precondition) ----------
pub assume_specification<I: core::slice::SliceIndex<str>>[<str as core::ops::Index<I>>::index](s: &str, i: I) -> (r: &<I as core::slice::SliceIndex<str>>::Output)
    ensures i.index_postcondition(s, r);

// ---------- trusted: reflexive From (x.into() of the same type is the identity) ----------
pub assume_specification<T>[<T as core::convert::From<T>>::from](t: T) -> (r: T)
    ensures r == t;

// ---------- trusted: rust_decimal ----------
#[verifier::external_type_specification]
#[verifier::external_body]
pub struct ExDecimal(rust_decimal::Decimal);
#[verifier::external_type_specification]
#[verifier::external_body]
pub struct ExDecErr(rust_decimal::Error);
pub uninterp spec fn dec_parse(s: Seq<u8>) -> Option<Decimal>;
pub assume_specification[<Decimal as core::str::FromStr>::from_str](s: &str) -> (r: core::result::Result<Decimal, <Decimal as core::str::FromStr>::Err>)
    ensures r.is_ok() == dec_parse(s.spec_bytes()).is_some(), r.is_ok() ==> r.unwrap() == dec_parse(s.spec_bytes()).unwrap();

