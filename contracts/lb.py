"""Unit LB: lib.rs entry points, keyword.rs, InfixOpManager::{get_handler,get_precidence,get_op_type}, Context::{set_func,set_variable,get_func,get_variable}
over the trusted registry/context primitives (C08; the binding-power lemma for C02)."""
from vx.splice import FnSpec as F, Ins, Inv
from vx.unit import Unit, Src, Ghost
import os
_d = os.path.dirname(__file__)
def _t(n): return open(os.path.join(_d, n)).read()

GET = """        ensures match reg_cfg(op@) { Some(c) => r == Ok::<InfixOpConfig, Error>(c), None => r is Err },"""
OPERATOR = [
  F('InfixOpManager::new', trust=True, spec=""),
  F('InfixOpManager::get', props=['C01!', 'C02', 'C03', 'C08'], spec=GET + "  // @C02,C03,C08 registry.infix_get"),
  F('InfixOpManager::exist', props=['C01!', 'C02', 'C05', 'C08', 'C10'], spec="        ensures r == reg_infix(op@),  // @C02,C05,C08,C10 registry.infix_exist"),
  F('PrefixOpManager::get', props=['C01!', 'C03', 'C08'], spec="        ensures match reg_prefix_h(op@) { Some(h) => r == Ok::<Arc<PrefixOpFunc>, Error>(h), None => r is Err },  // @C03,C08 registry.prefix_get\n            (r is Ok) == prefix_h(op@).is_some(), r matches Ok(t) ==> t == prefix_h(op@).unwrap(),"),
  F('PrefixOpManager::exist', props=['C01!', 'C02', 'C05', 'C08', 'C10'], spec="        ensures r == reg_prefix(op@),  // @C02,C05,C08,C10 registry.prefix_exist"),
  F('PostfixOpManager::get', props=['C01!', 'C03', 'C08'], spec="        ensures match reg_postfix_h(op@) { Some(h) => r == Ok::<Arc<PostfixOpFunc>, Error>(h), None => r is Err },  // @C03,C08 registry.postfix_get\n            (r is Ok) == postfix_h(op@).is_some(), r matches Ok(t) ==> t == postfix_h(op@).unwrap(),"),
  F('PostfixOpManager::exist', props=['C01!', 'C02', 'C05', 'C08', 'C10'], spec="        ensures r == reg_postfix(op@),  // @C02,C05,C08,C10 registry.postfix_exist"),
  F('InfixOpManager::register', trust=True, spec="        requires inited(), 0 < precidence <= 1_000_000_000,"),
  F('InfixOpManager::get_handler', props=['C08'],
    spec="        ensures match reg_cfg(op@) { Some(c) => r == Ok::<Arc<InfixOpFunc>, Error>(c.3), None => r is Err },  // @C08 dispatch.infix_handler\n            (r is Ok) == infix_h(op@).is_some(), r matches Ok(t) ==> t == infix_h(op@).unwrap(),"),
  F('InfixOpManager::get_op_type', props=['C08'],
    spec="        ensures match reg_cfg(op@) { Some(c) => r == Ok::<InfixOpType, Error>(c.1), None => r is Err },  // @C08 dispatch.infix_type\n            (r is Ok) == infix_ty(op@).is_some(), r matches Ok(t) ==> t == infix_ty(op@).unwrap(),"),
  F('InfixOpManager::get_precidence', props=['C02', 'C08', 'C12'],
    spec="""        ensures reg_infix(op@) ==> r.0 == lbp(op@) && r.1 == rbp(op@),   // @C02,C08,C12 get_precidence.powers
            !reg_infix(op@) ==> r == (-1i32, -1i32),  // @C02,C08,C12 get_precidence.unregistered""",
    ops=[Ins('entry', '', "        proof { broadcast use axiom_domain; }")]),
]
KEYWORD = [
  F('is_prefix_op', props=['C08', 'C10'], spec="    ensures r == reg_prefix(op@),  // @C08,C10 keyword.prefix"),
  F('is_infix_op', props=['C08', 'C10'], spec="    ensures r == reg_infix(op@),  // @C08,C10 keyword.infix"),
  F('is_postfix_op', props=['C08', 'C10'], spec="    ensures r == reg_postfix(op@),  // @C08,C10 keyword.postfix"),
  F('is_ternary_op', props=['C08', 'C10'], spec="    ensures r == (op@ == \"?\"@ || op@ == \":\"@),  // @C10 keyword.ternary",
    ops=[Ins('entry', '', "    proof { broadcast use axiom_str_ext; }")]),
  F('is_op', props=['C08', 'C10'], spec="    ensures r == (reg_prefix(op@) || reg_infix(op@) || reg_postfix(op@) || op@ == \"?\"@ || op@ == \":\"@),  // @C08,C10 keyword.is_op"),
  F('is_not', props=['C02'], spec="    ensures r == (op@ == \"not\"@),  // @C02 keyword.not",
    ops=[Ins('entry', '', "    proof { broadcast use axiom_str_ext; }")]),
]
LIB = [
  F('init', props=['C08'], spec="    ensures inited(),  // @C08 lib.init"),
  F('parse_expression', props=['C01', 'C08'],
    spec="    ensures r == (match parser::new_of(expr) { Ok(p) => parser::parse_of(p), Err(e) => Err(e) }),  // @C01,C08 lib.parse_once"),
  F('execute', props=['C01', 'C07', 'C08'],
    spec="    ensures r == (match parser::new_of(expr) { Ok(p) => match parser::parse_of(p) { Ok(a) => parser::exec_of(a, ctx@).0, Err(e) => Err(e) }, Err(e) => Err(e) }),  // @C01,C07,C08 lib.evaluate_once"),
  F('register_function', props=['C08']),
  F('register_prefix_op', props=['C08']),
  F('register_postfix_op', props=['C08']),
  F('register_infix_op', props=['C08'], spec="    requires 0 < precedence <= 1_000_000_000,   // documented domain of precedences (C08)"),
]
UNIT = Unit('lb', [
    Ghost(_t('lb_prelude.rs'), name='prelude'),
    Src('error.rs'),
    Src('define.rs'),
    Src('operator.rs', fns=OPERATOR, props=['C08'],
        keep_items=lambda kind, name: (kind == 'enum') or (kind == 'struct' and name == 'InfixOpConfig') or (kind == 'impl' and name in ('InfixOpManager', 'PrefixOpManager', 'PostfixOpManager')),
        regex_rules=[('rule30_lock_guard', r'self\.store\.lock\(\)\.unwrap\(\)', 'self.vx_lock()')],
        keep_fns=lambda k: k in set(s.key for s in OPERATOR),
        item_attr={'InfixOpType': '#[verifier::external_derive]', 'InfixOpAssociativity': '#[verifier::external_derive]', 'InfixOpConfig': '#[verifier::external_derive]'}),
    Src('function.rs', fns=[F('InnerFunctionManager::get', props=['C01!', 'C03', 'C08'],
            spec="        ensures match reg_func_h(name@) { Some(h) => r == Ok::<Arc<InnerFunction>, Error>(h), None => r is Err },  // @C03,C08 registry.function_get\n            (r is Ok) == func_h(name@).is_some(), r matches Ok(t) ==> t == func_h(name@).unwrap(),")],
        props=['C08'], keep_items=lambda kind, name: (kind == 'impl' and name == 'InnerFunctionManager'),
        keep_fns=lambda k: k == 'InnerFunctionManager::get',
        regex_rules=[('rule30_lock_guard', r'self\.store\.lock\(\)\.unwrap\(\)', 'self.vx_lock()'),
                     ('rule17_string_from_str', r'\bString::from\((\w+)\)', r'vx_string_from(\1)')]),
    # the context's own functions are verified in unit ev; here only the type and its view are needed (execute passes the context through)
    Src('context.rs', props=['C06', 'C08'],
        keep_items=lambda kind, name: (kind == 'enum'),
        item_attr={'ContextValue': '#[verifier::external_derive]'},
        header="#[verifier::external_body] pub struct Context { x: u8 }   // rule 22\n"),
    Ghost(_t('lb_ghost.rs'), props=['C02', 'C08'], name='lb_ghost'),
    Ghost("pub mod keyword { use super::*; use vstd::prelude::*; verus! {\n", name='kw_open'),
    Src('keyword.rs', fns=KEYWORD, props=['C08', 'C10'], keep_items=lambda kind, name: kind == 'fn'),
    Ghost("} }\n", name='kw_close'),
    Src('lib.rs', fns=LIB, props=['C01!', 'C08'],
        keep_items=lambda kind, name: kind == 'fn',
        regex_rules=[('rule23_crate_path', r'\bcrate::', 'crate::m::'), ('rule1_inner_doc_dropped', r'(?m)^//![^\n]*$', '')]),
    Ghost('\n} } // verus!\nfn main(){}\n', name='tail'),
])
