"""Unit HV: value.rs (accessors, conversions) and the built-in handlers lifted from the four init() functions (rule 8),
against spec functions written from README / properties C03, C04, C09, C17."""
from vx.splice import FnSpec as F, Ins, Inv, LetBind, GhostArg, Closure
from vx.unit import Unit, Src, Ghost
from vx import lift
import os
_d = os.path.dirname(__file__)
def _t(n): return open(os.path.join(_d, n)).read()

INTS = ['i128', 'i64', 'i32', 'i16', 'i8', 'u128', 'u64', 'u32', 'u16', 'u8']
VALUE = [
  F('Value::decimal', props=['C03', 'C04', 'C09', 'C17'], spec="        ensures self matches Value::Number(d) ==> r == Ok::<Decimal, Error>(d), !(self is Number) ==> r is Err,  // @C03,C04,C09,C17 accessor.decimal"),
  F('Value::string', props=['C03', 'C04', 'C17'], spec="        ensures self matches Value::String(s) ==> r == Ok::<String, Error>(s), !(self is String) ==> r is Err,  // @C03,C04,C17 accessor.string"),
  F('Value::bool', props=['C03', 'C04', 'C07', 'C17'], spec="        ensures self matches Value::Bool(b) ==> r == Ok::<bool, Error>(b), !(self is Bool) ==> r is Err,  // @C03,C04,C07,C17 accessor.bool"),
  F('Value::list', props=['C03', 'C04', 'C17'], spec="        ensures self matches Value::List(l) ==> r == Ok::<Vec<Value>, Error>(l), !(self is List) ==> r is Err,  // @C03,C04,C17 accessor.list"),
  F('Value::integer', props=['C03', 'C04', 'C06', 'C17'],
    spec="""        ensures
            self matches Value::Number(d) ==> (match dec_to_i64(d) { Some(n) => r == Ok::<i64, Error>(n), None => r is Err }),  // @C03,C04,C06,C17 integer.scale_independent
            !(self is Number) ==> r is Err,  // @C03,C04,C17 accessor.integer""",
    ops=[
      Ins('entry', '', """        proof {
            broadcast use axiom_text_parse, axiom_decimal_to_string, axiom_normalize;
            if let Value::Number(d) = self {
                if exists|n: int| #[trigger] is_int(d, n) { let n = choose|n: int| #[trigger] is_int(d, n); lemma_to_i64(d, n); }
            }
        }"""),
      Closure(0, "|num: i64| -> (r: Result<i64>) ensures r == Ok::<i64, Error>(num)"),
    ]),
  F('Value::float', props=['C17'], spec="        ensures !(self is Number) ==> r is Err,  // @C17 accessor.float",
    ops=[Closure(0, "|num: f64| -> (r: Result<f64>) ensures r == Ok::<f64, Error>(num)")]),
  F('<Value as From<&str>>::from', props=['C17'], spec="    ensures r matches Value::String(s) && s@ == value@,  // @C17 from.str"),
  # checked against its FromSpecImpl (from_spec(v) == Value::Number(v)): the literal's digits and scale reach the value unchanged
  F('<Value as From<Decimal>>::from', props=['C03', 'C09', 'C17'], spec=""),
] + [
  F('<Value as From<%s>>::from' % ty, props=['C03', 'C17'],
    spec="    ensures r matches Value::Number(d) && is_int(d, value as int),  // @C17 from.%s" % ty,
    ops=[Ins('entry', '', "        proof { broadcast use axiom_dec_of_int; }")])
  for ty in INTS
]


# ---- lifted handlers: contracts generated from the registration table, proof hints keyed by operator / function name
HINTS = {
  'infix:in': [
      Ins('entry', '', "        proof { if right is List { lemma_vv_seq(right->List_0@); } }"),
      Inv('loop#0', """            invariant right == Value::List(list), vv_seq(list@).len() == list@.len(),
                forall|j: int| 0 <= j < list@.len() ==> #[trigger] vv_seq(list@)[j] == vv(list@[j]),
                forall|j: int| 0 <= j < it.index@ ==> !sv_eq(#[trigger] vv_seq(list@)[j], vv(left)),""", iter_name='it'),
      Ins('return#0', 'before', "proof { assert(item == list@[it.index@ as int]); assert(sv_eq(vv_seq(list@)[it.index@ as int], vv(left))); }"),
  ],
  'prefix:AND': [
      Ins('entry', '', "        let ghost v0 = value; proof { if value is List { lemma_vv_seq(value->List_0@); } }"),
      Inv('loop#0', """            invariant v0 == Value::List(list), vv_seq(list@).len() == list@.len(),
                forall|j: int| 0 <= j < list@.len() ==> #[trigger] vv_seq(list@)[j] == vv(list@[j]),
                forall|j: int| 0 <= j < it.index@ ==> vv_seq(list@)[j] == SV::Bool(true),""", iter_name='it'),
      Ins('loop#0', 'body_start', "            proof { let k = it.index@ as int; lemma_and_prefix(vv_seq(list@), k); assert(value == list@[k]); assert(vv_seq(list@).skip(k)[0] == vv_seq(list@)[k]); assert(vv_seq(list@).skip(k).drop_first() =~= vv_seq(list@).skip(k + 1)); }"),
      Ins('tail', 'before', "proof { lemma_and_prefix(vv_seq(list@), list@.len() as int); assert(vv_seq(list@).skip(list@.len() as int) =~= Seq::<SV>::empty()); }"),
  ],
  'prefix:OR': [
      Ins('entry', '', "        let ghost v0 = value; proof { if value is List { lemma_vv_seq(value->List_0@); } }"),
      Inv('loop#0', """            invariant v0 == Value::List(list), vv_seq(list@).len() == list@.len(),
                forall|j: int| 0 <= j < list@.len() ==> #[trigger] vv_seq(list@)[j] == vv(list@[j]),
                forall|j: int| 0 <= j < it.index@ ==> vv_seq(list@)[j] == SV::Bool(false),""", iter_name='it'),
      Ins('loop#0', 'body_start', "            proof { let k = it.index@ as int; lemma_or_prefix(vv_seq(list@), k); assert(value == list@[k]); assert(vv_seq(list@).skip(k)[0] == vv_seq(list@)[k]); assert(vv_seq(list@).skip(k).drop_first() =~= vv_seq(list@).skip(k + 1)); }"),
      Ins('tail', 'before', "proof { lemma_or_prefix(vv_seq(list@), list@.len() as int); assert(vv_seq(list@).skip(list@.len() as int) =~= Seq::<SV>::empty()); }"),
  ],
  'func:min': [
      Ins('entry', '', "        let ghost l = vv_seq(params@); proof { lemma_vv_seq(params@); }"),
      Inv('loop#0', """            invariant l == vv_seq(params@), l.len() == params@.len(), forall|i: int| 0 <= i < params@.len() ==> #[trigger] l[i] == vv(params@[i]),
                min == fold_min(l.take(it.index@ as int)), it.index@ > 0 ==> min is Some,""", iter_name='it'),
      Ins('loop#0', 'body_start', """            proof { let k = it.index@ as int; lemma_fold_step(l, k); assert(param == params@[k]);
                if !(l[k] is Num) { assert(fold_min(l.take(k + 1)) is None); lemma_min_none(l, k + 1); }  }"""),
      Ins('loop#0', 'after', "        proof { assert(l.take(l.len() as int) =~= l); }"),
  ],
  'func:max': [
      Ins('entry', '', "        let ghost l = vv_seq(params@); proof { lemma_vv_seq(params@); }"),
      Inv('loop#0', """            invariant l == vv_seq(params@), l.len() == params@.len(), forall|i: int| 0 <= i < params@.len() ==> #[trigger] l[i] == vv(params@[i]),
                max == fold_max(l.take(it.index@ as int)), it.index@ > 0 ==> max is Some,""", iter_name='it'),
      Ins('loop#0', 'body_start', """            proof { let k = it.index@ as int; lemma_fold_step(l, k); assert(param == params@[k]);
                if !(l[k] is Num) { assert(fold_max(l.take(k + 1)) is None); lemma_max_none(l, k + 1); }  }"""),
      Ins('loop#0', 'after', "        proof { assert(l.take(l.len() as int) =~= l); }"),
  ],
  'func:sum': [
      Ins('entry', '', "        let ghost l = vv_seq(params@); proof { lemma_vv_seq(params@); }"),
      Inv('loop#0', """            invariant l == vv_seq(params@), l.len() == params@.len(), forall|i: int| 0 <= i < params@.len() ==> #[trigger] l[i] == vv(params@[i]),
                Some(ans) == fold_sum(l.take(it.index@ as int)),""", iter_name='it'),
      Ins('loop#0', 'body_start', """            proof { let k = it.index@ as int; lemma_fold_step(l, k); assert(param == params@[k]);
                if !(l[k] is Num) { assert(fold_sum(l.take(k + 1)) is None); lemma_sum_none(l, k + 1); } else { if fold_sum(l.take(k + 1)) is None { lemma_sum_none(l, k + 1); } } }"""),
      Ins('loop#0', 'after', "        proof { assert(l.take(l.len() as int) =~= l); }"),
  ],
  'func:mul': [
      Ins('entry', '', "        let ghost l = vv_seq(params@); proof { lemma_vv_seq(params@); }"),
      Inv('loop#0', """            invariant l == vv_seq(params@), l.len() == params@.len(), forall|i: int| 0 <= i < params@.len() ==> #[trigger] l[i] == vv(params@[i]),
                Some(ans) == fold_mul(l.take(it.index@ as int)),""", iter_name='it'),
      Ins('loop#0', 'body_start', """            proof { let k = it.index@ as int; lemma_fold_step(l, k); assert(param == params@[k]);
                if !(l[k] is Num) { assert(fold_mul(l.take(k + 1)) is None); lemma_mul_none(l, k + 1); } else { if fold_mul(l.take(k + 1)) is None { lemma_mul_none(l, k + 1); } } }"""),
      Ins('loop#0', 'after', "        proof { assert(l.take(l.len() as int) =~= l); }"),
  ],
}

RULES = [
  ('rule17_str_pattern', r'\b(\w+)\.(starts_with|ends_with)\(&(\w+)\)', r'vx_\2(&\1, &\3)'),
  ('rule20_decimal_neg', r'Number\(-(\w+(?:\.\w+\(\))*\??)\)', r'Number(vx_dec_neg(\1))'),
  ('rule19_external_const', r'\bDecimal::(ONE|ZERO)\b', lambda m: 'vx_dec_%s()' % m.group(1).lower()),
]
# the documented built-in table (README 'BinaryExpression' table for the precedences; associativity / kind from properties C02, C06)
DOC_INFIX = {}
for _op in ['=', '+=', '-=', '*=', '/=', '%=', '<<=', '>>=', '&=', '^=', '|=']: DOC_INFIX[_op] = (20, True, False)
DOC_INFIX.update({'||': (40, False, True), '&&': (50, False, True), '|': (70, False, True), '^': (80, False, True), '&': (90, False, True), '<<': (100, False, True), '>>': (100, False, True),
                  '+': (110, False, True), '-': (110, False, True), '*': (120, False, True), '/': (120, False, True), '%': (120, False, True), 'beginWith': (200, False, True), 'endWith': (200, False, True), 'in': (200, False, True)})
for _op in ['<', '<=', '>', '>=', '==', '!=']: DOC_INFIX[_op] = (60, False, True)
DOC_PREFIX = ['-', '+', '!', 'not', 'AND', 'OR']
DOC_POSTFIX = ['++', '--']
DOC_FUNCS = ['min', 'max', 'sum', 'mul']

def _table_text(tab):
    b = lambda x: 'true' if x else 'false'
    rows = []
    for r in tab['infix']:
        op, prec, ty, assoc = r['args'][0], r['args'][1], r['args'][2], r['args'][3]
        rows.append((op, prec, 'SETTER' in ty, 'LEFT' in assoc))
    t = '// ---------- the built-in tables as registered by the four init() functions (extracted, rule 8) vs the documented tables ----------\n'
    t += 'pub open spec fn builtin_infix(op: &str) -> Option<(int, bool, bool)> {   // (precedence, is assignment, is left-associative)\n    '
    t += ''.join('if op == %s { Some((%sint, %s, %s)) } else ' % (op, prec, b(s), b(l)) for (op, prec, s, l) in rows) + '{ None }\n}\n'
    for mgr in ('prefix', 'postfix', 'func'):
        t += 'pub open spec fn builtin_%s(op: &str) -> bool { %s }\n' % (mgr, ' || '.join('op == %s' % r['args'][0] for r in tab[mgr]) or 'false')
    t += 'pub proof fn lemma_builtin_tables_are_documented()\n    ensures\n'
    for op, (p, s, l) in DOC_INFIX.items():
        t += '        builtin_infix("%s") == Some((%dint, %s, %s)),  // @C02,C03,%sC08 table.infix\n' % (op, p, b(s), b(l), 'C06,' if s else '')
    for mgr, names in (('prefix', DOC_PREFIX), ('postfix', DOC_POSTFIX), ('func', DOC_FUNCS)):
        for n in names: t += '        builtin_%s("%s"),  // @C02,C03 table.%s\n' % (mgr, n, mgr)
    t += '        forall|op: &str| #[trigger] builtin_infix(op) is Some ==> (%s),  // @C02,C03 table.no_extra_infix\n' % ' || '.join('op == "%s"' % o for o in DOC_INFIX)
    t += '{\n    lemma_op_literals();\n}\n'
    return t

def _sig_params(L, name):
    fn = L.fns[name]; t = L.toks
    out = []
    for i in range(fn.i_po + 1, fn.i_pc):
        if t[i].k == 'id' and t[i + 1].s == ':' and t[i - 1].s in ('(', ','):
            out.append(t[i].s)
    return out

def _parts(repo_src, g):
    Lop, tab, names = lift.lift_file(os.path.join(repo_src, 'operator.rs'), [
        ('InfixOpManager::init', 'infix', ['Value', 'Value']), ('PrefixOpManager::init', 'prefix', ['Value']), ('PostfixOpManager::init', 'postfix', ['Value'])])
    Lfn, tabf, namesf = lift.lift_file(os.path.join(repo_src, 'function.rs'), [('InnerFunctionManager::init', 'func', ['Vec<Value>'])])
    tab.update(tabf); names.update(namesf)
    g.counters['rule8_lifted_handlers'] = sum(len(v) for v in names.values())
    g.table = tab
    lits = sorted(set(r['args'][0] for rows in tab.values() for r in rows))
    codes = {}
    for q in lits:
        s = q.strip('"')
        code = (len(s), ord(s[0]), ord(s[1]) if len(s) > 1 else 0)
        if code in codes.values(): raise lift.AnchorLost('operator literals %s not separated by (len, c0, c1)' % q)
        codes[q] = code
    LIT = ('pub open spec fn lit_code(s: &str) -> (int, int, int) { (s@.len() as int, s@[0] as int, if s@.len() > 1 { s@[1] as int } else { 0 }) }\n'
           '// distinct string literals are distinct &str values (Verus knows nothing about a literal until it is revealed)\n'
           'pub proof fn lemma_op_literals()\n    ensures\n' + ''.join('        lit_code(%s) == (%dint, %dint, %dint),\n' % ((q,) + codes[q]) for q in lits)
           + '{\n' + ''.join('    reveal_strlit(%s);\n' % q for q in lits) + '}\n')
    specs_op = []; specs_fn = []
    for mgr, rows in tab.items():
        L = Lfn if mgr == 'func' else Lop
        by_h = {}
        for r in rows: by_h.setdefault(r['handler'], []).append(r)
        for h, rs in by_h.items():
            ps = _sig_params(L, h)
            ops_ = [r['args'][0] for r in rs]            # string literals, e.g. '"+"'
            has_op = 'op' in ps
            vals = [p for p in ps if p not in ('op', 'precedence')]
            opx = 'op' if has_op else ops_[0]
            req = ('    requires ' + ' || '.join('op == %s' % o for o in ops_) + ',\n') if has_op else ''
            setter = mgr == 'infix' and any('SETTER' in a_ for r_ in rs for a_ in r_['args'])
            if mgr == 'infix': sp_, lab_v, lab_f = 'spec_infix(%s, vv(%s), vv(%s))' % (opx, vals[0], vals[1]), 'C03,C09' + (',C06' if setter else ''), 'C03,C04' + (',C06' if setter else '')
            elif mgr == 'prefix': sp_, lab_v, lab_f = 'spec_prefix(%s, vv(%s))' % (opx, vals[0]), 'C03', 'C03,C04'
            elif mgr == 'postfix': sp_, lab_v, lab_f = 'spec_postfix(%s, vv(%s))' % (opx, vals[0]), 'C03', 'C03,C04'
            else: sp_, lab_v, lab_f = 'spec_func(%s, vv_seq(%s@))' % (opx, vals[0]), 'C03', 'C03,C04'
            # two clauses, so that a wrong value and a fault that is not reported are told apart (C04 is about the second)
            ens = ('    ensures (r is Ok) == %s.is_some(),  // @%s handler.%s.fault\n'
                   '        r matches Ok(v_) ==> %s.is_some() && vv(v_) == %s.unwrap(),  // @%s handler.%s.value') % (sp_, lab_f, h, sp_, sp_, lab_v, h)
            hints = [Ins('entry', '', '        proof { lemma_op_literals(); }')]
            for o in ops_:
                hints += HINTS.get('%s:%s' % (mgr, o.strip('"')), [])
            attr = '#[verifier::loop_isolation(false)]' if any(o.strip('"') in ('AND', 'OR') for o in ops_) and mgr == 'prefix' else ''
            (specs_fn if mgr == 'func' else specs_op).append(F(h, spec=req + ens, props=['C03', 'C04', 'C09'] + (['C06'] if setter else []), ops=hints, attr=attr))
    return [
        Ghost(_t('hv_prelude.rs'), name='prelude'),
        Src('error.rs'),
        Src('define.rs'),
        Src('value.rs', fns=VALUE, props=['C03', 'C17'],
            pre=lambda text, c: lift.expand_simple_macro(text, c),
            item_attr={'Value': '#[verifier::external_derive]'},
            regex_rules=[('rule18_provided_trait_method', r'Decimal::(from_(?:i16|i8|u16|u8))\(', r'vx_dec_\1(')]),
        Ghost(_t('hv_ghost.rs'), props=['C03', 'C17'], name='hv_ghost'),
        Ghost(_t('hv_specs.rs'), props=['C03'], name='hv_specs'),
        Ghost(LIT, props=['C03'], name='hv_literals'),
        Ghost(_table_text(tab), props=['C02', 'C03', 'C06', 'C08'], name='hv_table'),
        Src('operator.rs(lifted)', loader=Lop, fns=specs_op, props=['C03', 'C04', 'C09'], regex_rules=RULES),
        Src('function.rs(lifted)', loader=Lfn, fns=specs_fn, props=['C03', 'C04'], regex_rules=RULES),
        Ghost('\n} } // verus!\nfn main(){}\n', name='tail'),
    ]
UNIT = Unit('hv', _parts)
