#![allow(unused_imports, dead_code, unused_variables, unused_mut, unused_parens, non_camel_case_types)]
use vstd::prelude::*;
use vstd::string::*;
use std::sync::Arc;
verus! {
mod m {
use super::*; use vstd::prelude::*; use vstd::string::*; use std::sync::Arc;
// ---------- rule 7: descriptor closures are opaque values ----------
#[verifier::external_body] pub struct UnaryDescriptor { x: u8 }
#[verifier::external_body] pub struct BinaryDescriptor { x: u8 }
pub type PostfixDescriptor = UnaryDescriptor;     // the same `dyn Fn(String, String) -> String` type in the repository
pub type TernaryDescriptor = BinaryDescriptor;    // `dyn Fn(String, String, String) -> String`
#[verifier::external_body] pub struct FunctionDescriptor { x: u8 }
#[verifier::external_body] pub struct ReferenceDescriptor { x: u8 }
#[verifier::external_body] pub struct ListDescriptor { x: u8 }
#[verifier::external_body] pub struct MapDescriptor { x: u8 }
pub type ChainDescriptor = ListDescriptor;        // `dyn Fn(Vec<String>) -> String`
// the documented defaults, as values (rule 24: `Arc::new(default_x_descriptor)` -> vx_default_descriptor_x())
pub uninterp spec fn dflt_unary() -> Arc<UnaryDescriptor>;
pub uninterp spec fn dflt_binary() -> Arc<BinaryDescriptor>;
pub uninterp spec fn dflt_postfix() -> Arc<UnaryDescriptor>;
pub uninterp spec fn dflt_ternary() -> Arc<TernaryDescriptor>;
pub uninterp spec fn dflt_function() -> Arc<FunctionDescriptor>;
pub uninterp spec fn dflt_reference() -> Arc<ReferenceDescriptor>;
pub uninterp spec fn dflt_list() -> Arc<ListDescriptor>;
pub uninterp spec fn dflt_map() -> Arc<MapDescriptor>;
pub uninterp spec fn dflt_chain() -> Arc<ChainDescriptor>;
#[verifier::external_body] pub fn vx_default_descriptor_unary() -> (r: Arc<UnaryDescriptor>) ensures r == dflt_unary() { unimplemented!() }
#[verifier::external_body] pub fn vx_default_descriptor_binary() -> (r: Arc<BinaryDescriptor>) ensures r == dflt_binary() { unimplemented!() }
#[verifier::external_body] pub fn vx_default_descriptor_postfix() -> (r: Arc<UnaryDescriptor>) ensures r == dflt_postfix() { unimplemented!() }
#[verifier::external_body] pub fn vx_default_descriptor_ternary() -> (r: Arc<TernaryDescriptor>) ensures r == dflt_ternary() { unimplemented!() }
#[verifier::external_body] pub fn vx_default_descriptor_function() -> (r: Arc<FunctionDescriptor>) ensures r == dflt_function() { unimplemented!() }
#[verifier::external_body] pub fn vx_default_descriptor_reference() -> (r: Arc<ReferenceDescriptor>) ensures r == dflt_reference() { unimplemented!() }
#[verifier::external_body] pub fn vx_default_descriptor_list() -> (r: Arc<ListDescriptor>) ensures r == dflt_list() { unimplemented!() }
#[verifier::external_body] pub fn vx_default_descriptor_map() -> (r: Arc<MapDescriptor>) ensures r == dflt_map() { unimplemented!() }
#[verifier::external_body] pub fn vx_default_descriptor_chain() -> (r: Arc<ChainDescriptor>) ensures r == dflt_chain() { unimplemented!() }
// the two-string defaults for prefix and postfix operators are the same function (concatenate the two arguments in order)
pub broadcast axiom fn axiom_unary_postfix_default() ensures #[trigger] dflt_postfix() == dflt_unary();
// rule 22: the store (static OnceCell<Mutex<HashMap<DescriptorKey, Descriptor>>>) is seen through a map view of the handle
#[verifier::external_body] pub struct DescriptorManager { x: u8 }     // opaque: an empty struct would make every handle equal, and a view that is a function of the handle could then never change
pub struct KV { pub kind: int, pub name: Seq<char> }
