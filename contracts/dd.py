"""Unit DD: ExprAST::describe (parser.rs) against the spec function sdesc over the descriptor store view (C18).
The getters' contracts are the ones proved in unit ds (same text, contracts/ds.py)."""
from vx.splice import FnSpec as F, Ins, Inv, MapCollect
from vx.unit import Unit, Src, Ghost
from contracts import ds
import os
_d = os.path.dirname(__file__)
def _t(n): return open(os.path.join(_d, n)).read()

ARGS = {'unary': 'op: String', 'binary': 'op: String', 'postfix': 'op: String', 'function': 'name: String', 'reference': 'name: String'}
RET = {'unary': 'UnaryDescriptor', 'binary': 'BinaryDescriptor', 'postfix': 'UnaryDescriptor', 'ternary': 'TernaryDescriptor', 'function': 'FunctionDescriptor',
       'reference': 'ReferenceDescriptor', 'list': 'ListDescriptor', 'map': 'MapDescriptor', 'chain': 'ChainDescriptor'}
def _stubs():
    t = "// the getters, with the contracts proved for the real text in unit ds\nimpl DescriptorManager {\n"
    t += "    #[verifier::external_body] pub fn new() -> (r: Self) ensures r@ == dstore(), typed(r@) { unimplemented!() }   // A4: one frozen store; trusted primitive\n"
    for (nm, kind, var, named, dflt) in ds.KINDS:
        spec = ds.getter_spec(nm, kind, var, named, dflt)
        t += "    #[verifier::external_body] pub fn get_%s_descriptor(&self%s) -> (r: Arc<%s>)\n%s\n    { unimplemented!() }\n" % (nm, (', ' + ARGS[nm]) if nm in ARGS else '', RET[nm], spec)
    t += "}\n"
    t += "impl<'a> ExprAST<'a> { #[verifier::external_body] pub fn expr(&self) -> (r: String) ensures self matches ExprAST::Literal(l) ==> r@ == render_lit(*l) { unimplemented!() } }   // proved in unit pr (r@ == render(self))\n"
    return t
LOOP = """                    invariant vx_i <= @X@.len(), vx_out@.len() == vx_i, %s,
                        forall|j: int| 0 <= j < vx_i ==> %s,
                    decreases @X@.len() - vx_i,"""
SELF = {'List': "*self == ExprAST::List(*values)", 'Function': "self matches ExprAST::Function(n_, v_) && *v_ == *values && *n_ == *name", 'Stmt': "*self == ExprAST::Stmt(*values)", 'Map': "*self == ExprAST::Map(*values)"}
ELEM = "(#[trigger] vx_out@[j])@ == sdesc(values@[j], dstore())"
ELEMP = "(#[trigger] vx_out@[j]).0@ == sdesc(values@[j].0, dstore()) && vx_out@[j].1@ == sdesc(values@[j].1, dstore())"
PRF = "proof { match self { %s => { vstd::std_specs::vec::axiom_vec_index_decreases(*it2, vx_i as int); assert(*%s == it2@[vx_i as int]); }, _ => {} } }"
POST = "proof { assert(strs(vx_out@) =~= sdesc_seq(values@, dstore())); }"
POSTP = "proof { assert(pairs(vx_out@) =~= sdesc_pairs(values@, dstore())); }"
DESCRIBE = [
  F('ExprAST::describe', props=['C18', 'C01!'],
    spec="        ensures r@ == sdesc(*self, dstore()),  // @C18 describe.dispatch\n        decreases self,",
    ops=[
      Ins('entry', '', """        proof { broadcast use axiom_str_to_string, axiom_refstr_to_string; reveal_strlit(""); assert(""@ =~= Seq::<char>::empty());
            match self { ExprAST::List(v_) => { lemma_sdesc_seq(v_@, dstore()); }, ExprAST::Function(_, v_) => { lemma_sdesc_seq(v_@, dstore()); }, ExprAST::Stmt(v_) => { lemma_sdesc_seq(v_@, dstore()); },
                         ExprAST::Map(v_) => { lemma_sdesc_pairs(v_@, dstore()); }, _ => {} } }"""),
      MapCollect(0, LOOP % (SELF['List'], ELEM), 'String', PRF % ('ExprAST::List(it2)', 'v'), POST),
      MapCollect(1, LOOP % (SELF['Map'], ELEMP), '(String, String)', PRF % ('ExprAST::Map(it2)', 'value'), POSTP),
      MapCollect(2, LOOP % (SELF['Function'], ELEM), 'String', PRF % ('ExprAST::Function(_, it2)', 'v'), POST),
      MapCollect(3, LOOP % (SELF['Stmt'], ELEM), 'String', PRF % ('ExprAST::Stmt(it2)', 'v'), POST),
    ]),
]
UNIT = Unit('dd', [
    Ghost(_t('ds_prelude.rs').replace("use std::sync::Arc;\nverus! {", "use std::sync::Arc;\nuse rust_decimal::prelude::*;\nuse rust_decimal::Decimal;\nverus! {", 1).replace("use super::*; use vstd::prelude::*;", "use super::*; use vstd::prelude::*; use rust_decimal::Decimal;", 1)
          + "#[verifier::external_type_specification]\n#[verifier::external_body]\npub struct ExDecimal(rust_decimal::Decimal);\n", name='prelude'),
    Src('descriptor.rs', props=['C18'], keep_items=lambda kind, name: kind == 'enum',
        item_attr={'DescriptorKey': '#[verifier::external_derive]', 'Descriptor': '#[verifier::external_derive]'},
        regex_rules=[('rule25_visibility', r'(?m)^enum (DescriptorKey|Descriptor)\b', r'pub enum \1')],
        footer=_t('ds_ghost.rs')),
    Ghost(_t('dd_ghost.rs') + _stubs(), props=['C18'], name='dd_ghost'),
    Src('parser.rs', fns=DESCRIBE, props=['C18'],
        keep_fns=lambda k: k == 'ExprAST::describe',
        keep_items=lambda kind, name: (kind == 'enum') or (kind == 'impl' and name == 'ExprAST'),
        item_attr={'Literal': '#[verifier::external_derive]', 'ExprAST': '#[verifier::external_derive]'},
        dyn_calls=True),
    Ghost('\n} } // verus!\nfn main(){}\n', name='tail'),
])
