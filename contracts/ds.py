"""Unit DS: descriptor.rs - the nine set_/get_ pairs against a map view of the store (C18)."""
from vx.splice import FnSpec as F, Ins, Inv
from vx.unit import Unit, Src, Ghost
import os
_d = os.path.dirname(__file__)
def _t(n): return open(os.path.join(_d, n)).read()
KINDS = [('unary', 0, 'UNARY', True, 'dflt_unary'), ('binary', 1, 'BINARY', True, 'dflt_binary'), ('postfix', 2, 'POSTFIX', True, 'dflt_postfix'),
         ('ternary', 3, 'TERNARY', False, 'dflt_ternary'), ('function', 4, 'FUNCTION', True, 'dflt_function'), ('reference', 5, 'REFERENCE', True, 'dflt_reference'),
         ('list', 6, 'LIST', False, 'dflt_list'), ('map', 7, 'MAP', False, 'dflt_map'), ('chain', 8, 'CHAIN', False, 'dflt_chain')]
def getter_spec(nm, kind, var, named, dflt):
    name_arg = {'unary': 'op', 'binary': 'op', 'postfix': 'op', 'function': 'name', 'reference': 'name'}.get(nm)
    nv = (name_arg + '@') if named else 'Seq::<char>::empty()'
    return "        requires typed(self@),\n        ensures r == (match look(self@, %dint, %s) { Some(Descriptor::%s(f)) => f, _ => %s() }),  // @C18 get.%s" % (kind, nv, var, dflt, nm)
FNS = [
  F('DescriptorManager::new', trust=True, spec="        ensures typed(r@),   // the store only ever holds entries written by the typed setters"),
  F('DescriptorManager::set', trust=True, spec="        ensures final(self)@ == old(self)@.insert(kv(key), value),"),
  F('DescriptorManager::get', trust=True, spec="        ensures r == (if self@.dom().contains(kv(key)) { Some(self@[kv(key)]) } else { None::<Descriptor> }),"),
]
for (nm, kind, var, named, dflt) in KINDS:
    name_arg = {'unary': 'op', 'binary': 'op', 'postfix': 'op', 'function': 'name', 'reference': 'name'}.get(nm)
    nv = (name_arg + '@') if named else 'Seq::<char>::empty()'
    FNS.append(F('DescriptorManager::set_%s_descriptor' % nm, props=['C18'],
        spec="        requires typed(old(self)@),\n        ensures final(self)@ == old(self)@.insert(KV { kind: %dint, name: %s }, Descriptor::%s(descriptor)), typed(final(self)@),  // @C18 set.%s" % (kind, nv, var, nm)))
    FNS.append(F('DescriptorManager::get_%s_descriptor' % nm, props=['C18'],
        spec=getter_spec(nm, kind, var, named, dflt),
        ops=[Ins('entry', '', "        proof { broadcast use axiom_unary_postfix_default; }")]))
KEYS = set(f.key for f in FNS)
UNIT = Unit('ds', [
    Ghost(_t('ds_prelude.rs'), name='prelude'),
    Src('descriptor.rs', fns=FNS, props=['C18'],
        keep_items=lambda kind, name: kind == 'enum' or (kind == 'impl' and name == 'DescriptorManager'),
        keep_fns=lambda k: k in KEYS,
        item_attr={'DescriptorKey': '#[verifier::external_derive]', 'Descriptor': '#[verifier::external_derive]'},
        regex_rules=[('rule25_visibility', r'(?m)^enum (DescriptorKey|Descriptor)\b', r'pub enum \1'), ('rule25_visibility', r'(?m)^(    )fn (set|get)\(', r'\1pub fn \2('), ('rule24_default_descriptor', r'Arc::new\(default_(\w+)_descriptor\)', r'vx_default_descriptor_\1()')],
        footer=_t('ds_ghost.rs')),
    Ghost('\n} } // verus!\nfn main(){}\n', name='tail'),
])
