"""Unit DS: descriptor.rs - the nine set_/get_ pairs against a map view of the store (C18)."""
from vx.splice import FnSpec as F, Ins, Inv, LetType
from vx.unit import Unit, Src, Ghost
import os
_d = os.path.dirname(__file__)
def _t(n): return open(os.path.join(_d, n)).read()
KINDS = [('unary', 0, 'UNARY', True, 'dflt_unary'), ('binary', 1, 'BINARY', True, 'dflt_binary'), ('postfix', 2, 'POSTFIX', True, 'dflt_postfix'),
         ('ternary', 3, 'TERNARY', False, 'dflt_ternary'), ('function', 4, 'FUNCTION', True, 'dflt_function'), ('reference', 5, 'REFERENCE', True, 'dflt_reference'),
         ('list', 6, 'LIST', False, 'dflt_list'), ('map', 7, 'MAP', False, 'dflt_map'), ('chain', 8, 'CHAIN', False, 'dflt_chain')]
def getter_spec(nm, kind, var, named, dflt):
    name_arg = {'unary': 'op', 'binary': 'op', 'postfix': 'op', 'function': 'name', 'reference': 'name'}.get(nm)
    nv = (name_arg + '@') if named else 'Seq::<char>::empty()'
    return "        requires typed(self@),\n        ensures r == (match look(self@, %dint, %s) { Some(Descriptor::%s(f)) => f, _ => %s() }),  // @C18 get.%s" % (kind, nv, var, dflt, nm)
FNS = [
  F('DescriptorManager::new', trust=True, spec="        ensures typed(r@),   // the store only ever holds entries written by the typed setters"),
  F('DescriptorManager::set', trust=True, spec="        ensures final(self)@ == old(self)@.insert(kv(key), value),"),
  F('DescriptorManager::get', props=['C01!', 'C18'], spec="        ensures r == (if self@.dom().contains(kv(key)) { Some(self@[kv(key)]) } else { None::<Descriptor> }),  // @C18 store.get"),
]
for (nm, kind, var, named, dflt) in KINDS:
    name_arg = {'unary': 'op', 'binary': 'op', 'postfix': 'op', 'function': 'name', 'reference': 'name'}.get(nm)
    nv = (name_arg + '@') if named else 'Seq::<char>::empty()'
    FNS.append(F('DescriptorManager::set_%s_descriptor' % nm, props=['C18'],
        spec="        requires typed(old(self)@),\n        ensures final(self)@ == old(self)@.insert(KV { kind: %dint, name: %s }, Descriptor::%s(descriptor)), typed(final(self)@),  // @C18 set.%s" % (kind, nv, var, nm)))
    FNS.append(F('DescriptorManager::get_%s_descriptor' % nm, props=['C18'],
        spec=getter_spec(nm, kind, var, named, dflt),
        ops=[Ins('entry', '', "        proof { broadcast use axiom_unary_postfix_default; }")]))
P = "    ensures r@ == "
DEFAULTS = [
  F('default_unary_descriptor', props=['C18'], spec=P + "op@ + rhs@,  // @C18 default.unary"),
  F('default_binary_descriptor', props=['C18'], spec=P + "lhs@ + op@ + rhs@,  // @C18 default.binary"),
  F('default_postfix_descriptor', props=['C18'], spec=P + "lhs@ + op@,  // @C18 default.postfix"),
  F('default_ternary_descriptor', props=['C18'], spec=P + 'condition@ + "?"@ + lhs@ + ":"@ + rhs@,  // @C18 default.ternary'),
  F('default_function_descriptor', props=['C18'], spec=P + 'name@ + "("@ + join_spec(strs(params@), ","@) + ")"@,  // @C18 default.function'),
  F('default_reference_descriptor', props=['C18'], spec=P + "name@,  // @C18 default.reference"),
  F('default_list_descriptor', props=['C18'], spec=P + '"["@ + join_spec(strs(params@), ","@) + "]"@,  // @C18 default.list',
    ops=[Ins('entry', '', '    proof { broadcast use axiom_str_to_string; }')]),
  F('default_map_descriptor', props=['C18'], spec=P + '"{"@ + join_spec(entries(m@), ","@) + "}"@,  // @C18 default.map',
    ops=[Ins('entry', '', '    proof { broadcast use axiom_str_to_string; }'), LetType('let:tmp', 'Vec<String>'),
         Inv('loop#0', """        invariant tmp@.len() == it.index@, forall|j: int| 0 <= j < it.index@ ==> (#[trigger] tmp@[j])@ == m@[j].0@ + ":"@ + m@[j].1@,""", iter_name='it', bind='kv'),
         Ins('tail', 'before', 'proof { assert(strs(tmp@) =~= entries(m@)); }')]),
  F('default_chain_descriptor', props=['C18'], spec=P + 'join_spec(strs(params@), ";"@),  // @C18 default.chain'),
]
FNS = FNS + DEFAULTS
KEYS = set(f.key for f in FNS)
UNIT = Unit('ds', [
    Ghost(_t('ds_prelude.rs'), name='prelude'),
    Src('descriptor.rs', fns=FNS, props=['C18', 'C01!'],
        keep_items=lambda kind, name: kind == 'enum' or (kind == 'impl' and name == 'DescriptorManager') or (kind == 'fn' and name.startswith('default_')),
        string_concat=True,
        keep_fns=lambda k: k in KEYS,
        item_attr={'DescriptorKey': '#[verifier::external_derive]', 'Descriptor': '#[verifier::external_derive]'},
        regex_rules=[('rule30_lock_guard', r'self\.store\.lock\(\)\.unwrap\(\)', 'self.vx_lock()'), ('rule28_slice_join', r'&(\w+)\.join\(', r'&vx_join(&\1, '), ('rule28_slice_join', r'(?m)^(\s+)(\w+)\.join\(', r'\1vx_join(&\2, '), ('rule25_visibility', r'(?m)^enum (DescriptorKey|Descriptor)\b', r'pub enum \1'), ('rule25_visibility', r'(?m)^(    )fn (set|get)\(', r'\1pub fn \2('), ('rule24_default_descriptor', r'Arc::new\(default_(\w+)_descriptor\)', r'vx_default_descriptor_\1()')],
        footer=_t('ds_ghost.rs') + _t('ds_defaults.rs') + 'pub broadcast axiom fn axiom_str_to_string(s: &str, r: String) ensures #[trigger] to_string_from_display_ensures(s, r) ==> r@ == s@;\n'),
    Ghost('\n} } // verus!\nfn main(){}\n', name='tail'),
])
