// ---------- the documented default renderings (descriptor.rs defaults; README "describe") ----------
#[verifier::external_body] pub fn vx_add(a: String, b: &str) -> (r: String) ensures r@ == a@ + b@ { a + b }     // rule 9
pub open spec fn strs(v: Seq<String>) -> Seq<Seq<char>> { Seq::new(v.len(), |i: int| v[i]@) }
// elements separated by sep, nothing before the first or after the last
pub open spec fn join_spec(v: Seq<Seq<char>>, sep: Seq<char>) -> Seq<char> decreases v.len() {
    if v.len() == 0 { Seq::empty() } else if v.len() == 1 { v[0] } else { join_spec(v.drop_last(), sep) + sep + v.last() }
}
// A2 (std): [String]::join (rule 28: `X.join(sep)` -> vx_join(&X, sep); slice concatenation has no Verus specification)
#[verifier::external_body] pub fn vx_join(v: &Vec<String>, sep: &str) -> (r: String) ensures r@ == join_spec(strs(v@), sep@) { v.join(sep) }
pub open spec fn entries(m: Seq<(String, String)>) -> Seq<Seq<char>> { Seq::new(m.len(), |i: int| m[i].0@ + ":"@ + m[i].1@) }
