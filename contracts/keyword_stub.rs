// ---------- trusted: registry predicates behind keyword.rs ----------
mod keyword { use vstd::prelude::*; use vstd::string::*; verus!{
// exactly what unit lb proves for the real keyword::is_op
pub open spec fn reg_op(s: Seq<char>) -> bool { reg_prefix(s) || reg_infix(s) || reg_postfix(s) || s == "?"@ || s == ":"@ }
pub uninterp spec fn reg_postfix(s: Seq<char>) -> bool;
pub uninterp spec fn reg_prefix(s: Seq<char>) -> bool;
pub uninterp spec fn reg_infix(s: Seq<char>) -> bool;
#[verifier::external_body] pub fn is_op(op: &str) -> (r: bool) ensures r == reg_op(op@), r == super::reg_opb(op.spec_bytes()) { unimplemented!() }   // the answer depends on the text only, hence on its bytes
#[verifier::external_body] pub fn is_postfix_op(op: &str) -> (r: bool) ensures r == reg_postfix(op@) { unimplemented!() }
#[verifier::external_body] pub fn is_prefix_op(op: &str) -> (r: bool) ensures r == reg_prefix(op@) { unimplemented!() }
#[verifier::external_body] pub fn is_infix_op(op: &str) -> (r: bool) ensures r == reg_infix(op@) { unimplemented!() }
#[verifier::external_body] pub fn is_not(op: &str) -> (r: bool) ensures r == (op@ == "not"@) { unimplemented!() }
} }
