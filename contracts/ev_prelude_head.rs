
#![allow(unused_imports, dead_code, unused_variables, unused_mut)]
use vstd::prelude::*;
use vstd::string::*;
use std::fmt;
use rust_decimal::prelude::*;
use rust_decimal::Decimal;
verus! {
mod m {
use super::*; use core::result; use vstd::prelude::*; use vstd::string::*; use rust_decimal::Decimal; use std::sync::Arc;

#[verifier::external_type_specification]
#[verifier::external_body]
pub struct ExDecimal(rust_decimal::Decimal);

