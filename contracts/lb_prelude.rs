#![allow(unused_imports, dead_code, unused_variables, unused_mut, unused_parens)]
use vstd::prelude::*;
use vstd::string::*;
use std::sync::Arc;
verus! {
mod m {
use super::*; use core::result; use vstd::prelude::*; use vstd::string::*; use std::sync::Arc;

// A8: a &str is determined by its characters (Verus compares &str by value and knows nothing else about it)
pub broadcast axiom fn axiom_str_ext(a: &str, b: &str) ensures #[trigger] a@ == #[trigger] b@ ==> a == b;

// ---------- rule 7: handler types are opaque ----------
#[verifier::external_body] pub struct InfixOpFunc { x: u8 }
#[verifier::external_body] pub struct PrefixOpFunc { x: u8 }
#[verifier::external_body] pub struct PostfixOpFunc { x: u8 }
#[verifier::external_body] pub struct InnerFunction { x: u8 }
#[verifier::external_body] pub struct Value { x: u8 }
impl Clone for Value { #[verifier::external_body] fn clone(&self) -> (r: Self) ensures r == *self { unimplemented!() } }
pub mod function { pub use super::{InnerFunction, InnerFunctionManager}; }
pub mod operator { pub use super::{InfixOpFunc, PrefixOpFunc, PostfixOpFunc, InfixOpManager, PrefixOpManager, PostfixOpManager, InfixOpType, InfixOpAssociativity}; }
pub mod value { pub use super::Value; }
pub mod define { pub use super::Result; }
pub mod context { pub use super::Context; }

// ---------- registry views (A4: frozen during one parse / evaluation; A5: the pinned primitives are one HashMap lookup / insert under a lock) ----------
pub uninterp spec fn reg_cfg(op: Seq<char>) -> Option<InfixOpConfig>;
pub uninterp spec fn reg_prefix_h(op: Seq<char>) -> Option<Arc<PrefixOpFunc>>;
pub uninterp spec fn reg_postfix_h(op: Seq<char>) -> Option<Arc<PostfixOpFunc>>;
pub uninterp spec fn reg_func_h(name: Seq<char>) -> Option<Arc<InnerFunction>>;
// the vocabulary unit ev uses for the same registry views (its trusted read contracts are these, clause for clause: vx/links.py)
pub open spec fn infix_ty(op: Seq<char>) -> Option<InfixOpType> { match reg_cfg(op) { Some(c) => Some(c.1), None => None } }
pub open spec fn infix_h(op: Seq<char>) -> Option<Arc<InfixOpFunc>> { match reg_cfg(op) { Some(c) => Some(c.3), None => None } }
pub open spec fn prefix_h(op: Seq<char>) -> Option<Arc<PrefixOpFunc>> { reg_prefix_h(op) }
pub open spec fn postfix_h(op: Seq<char>) -> Option<Arc<PostfixOpFunc>> { reg_postfix_h(op) }
pub open spec fn func_h(name: Seq<char>) -> Option<Arc<InnerFunction>> { reg_func_h(name) }
pub proof fn lemma_same_entry(op: Seq<char>) ensures infix_ty(op) is Some <==> infix_h(op) is Some { }
pub open spec fn reg_prefix(op: Seq<char>) -> bool { reg_prefix_h(op) is Some }
pub open spec fn reg_postfix(op: Seq<char>) -> bool { reg_postfix_h(op) is Some }
// rule 30: `self.store.lock().unwrap()` becomes `self.vx_lock()`; the guard is modelled as a shared reference to the locked
// HashMap<String, V>, whose content is the registry view (A4: frozen during one parse / evaluation)
#[verifier::external_body] #[verifier::reject_recursive_types(V)] pub struct VxMap<V> { x: Vec<V> }
impl<V> VxMap<V> {
    pub uninterp spec fn map(&self) -> Map<Seq<char>, V>;
    // trusted: HashMap<String, V>::get::<str>
    #[verifier::external_body] pub fn get(&self, k: &str) -> (r: Option<&V>)
        ensures r == (if self.map().dom().contains(k@) { Some(&self.map()[k@]) } else { None::<&V> }) { unimplemented!() }
}
// rule 17: String::from(&str) cannot be given a specification directly (nested lifetime binder)
#[verifier::external_body] pub fn vx_string_from(s: &str) -> (r: String) ensures r@ == s@ { String::from(s) }
pub open spec fn holds<V>(m: Map<Seq<char>, V>, f: spec_fn(Seq<char>) -> Option<V>) -> bool {
    forall|k: Seq<char>| (#[trigger] m.dom().contains(k)) == (f(k) is Some) && (m.dom().contains(k) ==> m[k] == f(k).unwrap())
}
pub open spec fn reg_infix(op: Seq<char>) -> bool { reg_cfg(op) is Some }
// documented domain of precedences: 0 < p <= 10^9 (required of every registration, see register_infix_op)
pub broadcast axiom fn axiom_domain(op: Seq<char>) ensures #[trigger] reg_cfg(op) matches Some(c) ==> 0 < c.0 <= 1_000_000_000;
// the engine's tables have been initialised (monotone ghost fact: only `init::init()` establishes it)
pub uninterp spec fn inited() -> bool;
pub mod init { use vstd::prelude::*; verus! {
    #[verifier::external_body] pub fn init() ensures super::inited() { unimplemented!() }   // trusted: OnceCell::get_or_init around the four Manager::init()
} }
#[verifier::external_body] pub struct InfixOpManager { x: u8 }     // opaque: an empty struct would make every handle equal, and a view that is a function of the handle could then never change
#[verifier::external_body] pub struct PrefixOpManager { x: u8 }     // opaque: an empty struct would make every handle equal, and a view that is a function of the handle could then never change
#[verifier::external_body] pub struct PostfixOpManager { x: u8 }     // opaque: an empty struct would make every handle equal, and a view that is a function of the handle could then never change
#[verifier::external_body] pub struct InnerFunctionManager { x: u8 }     // opaque: an empty struct would make every handle equal, and a view that is a function of the handle could then never change
impl InfixOpManager {
    #[verifier::external_body] pub fn vx_lock(&self) -> (r: &VxMap<InfixOpConfig>) ensures holds(r.map(), |k: Seq<char>| reg_cfg(k)) { unimplemented!() }
}
impl PrefixOpManager {
    #[verifier::external_body] pub fn vx_lock(&self) -> (r: &VxMap<Arc<PrefixOpFunc>>) ensures holds(r.map(), |k: Seq<char>| reg_prefix_h(k)) { unimplemented!() }
    #[verifier::external_body] pub fn new() -> Self { unimplemented!() }
    #[verifier::external_body] pub fn register(&mut self, op: &str, f: Arc<PrefixOpFunc>) requires inited() { unimplemented!() }
}
impl PostfixOpManager {
    #[verifier::external_body] pub fn vx_lock(&self) -> (r: &VxMap<Arc<PostfixOpFunc>>) ensures holds(r.map(), |k: Seq<char>| reg_postfix_h(k)) { unimplemented!() }
    #[verifier::external_body] pub fn new() -> Self { unimplemented!() }
    #[verifier::external_body] pub fn register(&mut self, op: &str, f: Arc<PostfixOpFunc>) requires inited() { unimplemented!() }
}
impl InnerFunctionManager {
    #[verifier::external_body] pub fn vx_lock(&self) -> (r: &VxMap<Arc<InnerFunction>>) ensures holds(r.map(), |k: Seq<char>| reg_func_h(k)) { unimplemented!() }
    #[verifier::external_body] pub fn new() -> Self { unimplemented!() }
    #[verifier::external_body] pub fn register(&mut self, name: &str, f: Arc<InnerFunction>) requires inited() { unimplemented!() }
}
pub mod parser { use vstd::prelude::*; verus! {
    pub struct ExprAST<'a> { pub x: &'a str }
    pub struct Parser<'a> { pub x: &'a str }
    // what the parser and the evaluator compute is decided in units tp / ev; here they are opaque functions, so that the entry points
    // can be pinned to "initialise, parse once, evaluate once, propagate the first error"
    pub uninterp spec fn new_of<'a>(input: &'a str) -> super::Result<Parser<'a>>;
    pub uninterp spec fn parse_of<'a>(p: Parser<'a>) -> super::Result<ExprAST<'a>>;
    pub uninterp spec fn exec_of(a: ExprAST, s: super::St) -> (super::Result<super::Value>, super::St);
    impl<'a> Parser<'a> {
        #[verifier::external_body] pub fn new(input: &'a str) -> (r: super::Result<Self>) requires super::inited() ensures r == new_of(input) { unimplemented!() }
        #[verifier::external_body] pub fn parse_stmt(&mut self) -> (r: super::Result<ExprAST<'a>>) ensures r == parse_of(*old(self)) { unimplemented!() }
    }
    impl<'a> ExprAST<'a> {
        #[verifier::external_body] pub fn exec(&self, ctx: &mut super::Context) -> (r: super::Result<super::Value>) ensures (r, final(ctx)@) == exec_of(*self, old(ctx)@) { unimplemented!() }
    }
} }
pub use parser::ExprAST;
