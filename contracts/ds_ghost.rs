pub open spec fn kv(k: DescriptorKey) -> KV {
    match k {
        DescriptorKey::UNARY(s) => KV { kind: 0, name: s@ }, DescriptorKey::BINARY(s) => KV { kind: 1, name: s@ }, DescriptorKey::POSTFIX(s) => KV { kind: 2, name: s@ },
        DescriptorKey::TERNARY => KV { kind: 3, name: Seq::empty() }, DescriptorKey::FUNCTION(s) => KV { kind: 4, name: s@ }, DescriptorKey::REFERENCE(s) => KV { kind: 5, name: s@ },
        DescriptorKey::LIST => KV { kind: 6, name: Seq::empty() }, DescriptorKey::MAP => KV { kind: 7, name: Seq::empty() }, DescriptorKey::CHAIN => KV { kind: 8, name: Seq::empty() },
    }
}
pub open spec fn variant(d: Descriptor) -> int {
    match d { Descriptor::UNARY(_) => 0, Descriptor::BINARY(_) => 1, Descriptor::POSTFIX(_) => 2, Descriptor::TERNARY(_) => 3, Descriptor::FUNCTION(_) => 4,
              Descriptor::REFERENCE(_) => 5, Descriptor::LIST(_) => 6, Descriptor::MAP(_) => 7, Descriptor::CHAIN(_) => 8 }
}
pub type DS = Map<KV, Descriptor>;
impl View for DescriptorManager { type V = DS; uninterp spec fn view(&self) -> DS; }
pub open spec fn look(s: DS, kind: int, name: Seq<char>) -> Option<Descriptor> {
    let k = KV { kind: kind, name: name };
    if s.dom().contains(k) { Some(s[k]) } else { None }
}
// every entry holds the variant of its key's kind (established by the nine setters, which are the only writers: `set` is private)
pub open spec fn typed(s: DS) -> bool { forall|k: KV| s.dom().contains(k) ==> variant(#[trigger] s[k]) == k.kind }
// C18: a registration for one (kind, name) leaves every other (kind, name) as it was
pub proof fn lemma_registration_is_local(s: DS, kind: int, name: Seq<char>, d: Descriptor, kind2: int, name2: Seq<char>)
    requires kind2 != kind || name2 != name,
    ensures look(s.insert(KV { kind: kind, name: name }, d), kind2, name2) == look(s, kind2, name2),  // @C18 registration.local
{ }
// rule 30: `self.store.lock().unwrap()` becomes `self.vx_lock()`; the guard is modelled as a shared reference to the locked HashMap
#[verifier::external_body] pub struct VxDMap { x: u8 }
impl VxDMap {
    pub uninterp spec fn map(&self) -> DS;
    // trusted: HashMap<DescriptorKey, Descriptor>::get (DescriptorKey's derived Eq/Hash compare kind and name: that is kv)
    #[verifier::external_body] pub fn get(&self, k: &DescriptorKey) -> (r: Option<&Descriptor>)
        ensures r == (if self.map().dom().contains(kv(*k)) { Some(&self.map()[kv(*k)]) } else { None::<&Descriptor> }) { unimplemented!() }
}
impl DescriptorManager {
    #[verifier::external_body] pub fn vx_lock(&self) -> (r: &VxDMap) ensures r.map() == self@ { unimplemented!() }
}
pub assume_specification[<Descriptor as Clone>::clone](a: &Descriptor) -> (r: Descriptor) ensures r == *a;
