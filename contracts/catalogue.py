"""Sensitivity catalogue (DESIGN.md 3.5): one-line, in-place, compiling mutations of /repo/src. Each must make a *named* obligation of
its property fail definitely (not a resource limit, not a front-end rejection). Run in the thorough tier on a scratch copy of the sources.
(id, property, units, file, regex, replacement)  - the regex must match exactly once."""
C = [
 # ---- C01 safety / termination
 ('c01_slice_byte_offset', 'C01', ['tp'], 'tokenizer.rs', r'self\.current\(\) \+ ch\.len_utf8\(\)', 'self.current() + 1'),
 ('c01_string_payload_offset', 'C01', ['tp'], 'tokenizer.rs', r'&self\.input\[start \+ 1\.\.self\.current\(\) - 1\]', '&self.input[start + 1..self.current() - 2]'),
 ('c01_index_out_of_bounds', 'C01', ['tp'], 'parser.rs', r'return Ok\(ans\[0\]\.clone\(\)\);', 'return Ok(ans[1].clone());'),
 ('c01_prefix_not_consumed', 'C01', ['tp'], 'parser.rs', r'(return Err\(Error::UnexpectedToken\(\)\);\n        \}\n)        self\.next\(\)\?;\n', r'\1'),
 ('c01_printer_len_minus_one', 'C01', ['pr'], 'parser.rs', r'for i in 0\.\.m\.len\(\) \{', 'for i in 0..m.len() + 1 {'),
 # ---- C02 grouping
 ('c02_swap_associativity', 'C02', ['lb'], 'operator.rs', r'r_bp = l_bp \+ 1;', 'r_bp = l_bp - 1;'),
 ('c02_conditional_at_inner_level', 'C02', ['tp'], 'parser.rs', r'if exec_prec > 0 \{', 'if exec_prec > 100 {'),
 ('c02_recurse_with_left_power', 'C02', ['tp'], 'parser.rs', r'rhs = self\.parse_op\(r_bp, rhs\)\?;', 'rhs = self.parse_op(l_bp, rhs)?;'),
 ('c02_operands_swapped', 'C02', ['tp'], 'parser.rs', r'lhs = ExprAST::Binary\(op, Box::new\(lhs\), Box::new\(rhs\)\);', 'lhs = ExprAST::Binary(op, Box::new(rhs), Box::new(lhs));'),
 ('c02_not_dropped', 'C02', ['tp'], 'parser.rs', r'lhs = ExprAST::Unary\("not", Box::new\(lhs\)\);', 'lhs = lhs;'),
 ('c02_builtin_precedence_changed', 'C02', ['hv'], 'operator.rs', r'\("\*", 120\)', '("*", 110)'),
 # ---- C03 values
 ('c03_lt_becomes_le', 'C03', ['hv'], 'operator.rs', r'"<" => value = a < b,', '"<" => value = a <= b,'),
 ('c03_and_returns_left', 'C03', ['hv'], 'operator.rs', r'"&&" => a = a && b,', '"&&" => a = a,'),
 ('c03_sub_operands_swapped', 'C03', ['hv'], 'operator.rs', r'"-" => a\.checked_sub\(b\),', '"-" => b.checked_sub(a),'),
 ('c03_min_picks_max', 'C03', ['hv'], 'function.rs', r'num < min\.unwrap\(\)', 'num > min.unwrap()'),
 ('c03_begin_is_end', 'C03', ['hv'], 'operator.rs', r'Ok\(Value::from\(a\.starts_with\(&b\)\)\)', 'Ok(Value::from(a.ends_with(&b)))'),
 # ---- C04 faults
 ('c04_panicking_add', 'C04', ['hv'], 'operator.rs', r'"\+" => a\.checked_add\(b\),', '"+" => Some(a + b),'),
 ('c04_shift_range_off_by_one', 'C04', ['hv'], 'operator.rs', r'(\n                        "<<" \| ">>" => \{\n                            if b < 0 \|\| b > )63', r'\g<1>64'),
 ('c04_empty_min_is_zero', 'C04', ['hv'], 'function.rs', r'(match min \{\n                    Some\(v\) => Ok\(Value::Number\(v\)\),\n                    None => )Err\(Error::ParamInvalid\(\)\),', r'\1Ok(Value::Bool(false)),'),
 ('c04_integer_not_normalised', 'C04', ['hv'], 'value.rs', r'\n                \.normalize\(\)', ''),
 # ---- C05 rejection
 ('c05_expect_falls_through', 'C05', ['tp'], 'tokenizer.rs', r'Err\(Error::ExpectedOpNotExist\(op\.to_string\(\)\)\)\n    \}', 'Ok(())\n    }'),
 ('c05_close_paren_not_tested', 'C05', ['tp'], 'parser.rs', r'if !self\.tokenizer\.cur_token\.is_close_paren\(\) \{', 'if false {'),
 ('c05_any_operator_as_prefix', 'C05', ['tp'], 'parser.rs', r'if !keyword::is_prefix_op\(op\) \{', 'if false {'),
 ('c05_unterminated_string_accepted', 'C05', ['tp'], 'tokenizer.rs', r'if !string_termmited \{', 'if false {'),
 ('c05_next_instead_of_expect', 'C05', ['tp'], 'parser.rs', r'(let a = self\.parse_expression\(\)\?;\n                )self\.expect\(":"\)\?;', r'\1self.next()?;'),
 # ---- C06 assignment
 ('c06_assignment_yields_value', 'C06', ['ev'], 'parser.rs', r'(\);\n                )Ok\(Value::None\)', r'\1Ok(Value::Bool(true))'),
 ('c06_right_side_first', 'C06', ['ev'], 'parser.rs', r'let \(a, b\) = \(lhs\.exec\(ctx\)\?, rhs\.exec\(ctx\)\?\);', 'let (b, a) = (rhs.exec(ctx)?, lhs.exec(ctx)?);'),
 ('c06_chain_keeps_first_value', 'C06', ['ev'], 'parser.rs', r'ans = expr\.exec\(ctx\)\?;', 'let _v = expr.exec(ctx)?;'),
 ('c07_value_swallows_error', 'C07', ['ev'], 'context.rs', r'ContextValue::Function\(func\) => func\(Vec::new\(\)\),', 'ContextValue::Function(func) => match func(Vec::new()) { Ok(v) => Ok(v), Err(_) => Ok(Value::None) },'),
 ('c06_get_variable_of_function', 'C06', ['ev'], 'context.rs', r'ContextValue::Function\(_\) => None,', 'ContextValue::Function(_) => Some(Value::None),'),
 ('c08_get_func_drops_function', 'C08', ['ev'], 'context.rs', r'ContextValue::Function\(func\) => Some\(func\.clone\(\)\),', 'ContextValue::Function(_func) => None,'),
 ('c08_infix_get_inverted', 'C08', ['lb'], 'operator.rs', r'if ans\.is_none\(\) \{(\s*)return Err\(Error::InfixOpNotRegistered', r'if ans.is_some() {\1return Err(Error::InfixOpNotRegistered'),
 ('c08_function_get_fixed_key', 'C08', ['lb'], 'function.rs', r'let ans = binding\.get\(name\);', 'let ans = binding.get("min");'),
 ('c03_function_get_fixed_key', 'C03', ['lb'], 'function.rs', r'let ans = binding\.get\(name\);', 'let ans = binding.get("max");'),
 ('c05_postfix_exist_inverted', 'C05', ['lb'], 'operator.rs', r'(impl PostfixOpManager \{[\s\S]*?binding\.get\(op\))\.is_some\(\)', r'\1.is_none()'),
 ('c10_prefix_exist_inverted', 'C10', ['lb'], 'operator.rs', r'(impl PrefixOpManager \{[\s\S]*?binding\.get\(op\))\.is_some\(\)', r'\1.is_none()'),
 ('c18_set_unary_wrong_variant', 'C18', ['ds'], 'descriptor.rs', r'let value = Descriptor::UNARY\(descriptor\);', 'let value = Descriptor::POSTFIX(descriptor);'),
 ('c18_store_get_fixed_key', 'C18', ['ds'], 'descriptor.rs', r'let value = binding\.get\(&key\);', 'let value = binding.get(&DescriptorKey::LIST);'),
 ('c06_set_variable_wrong_name', 'C06', ['ev'], 'context.rs', r'self\.set\(name, ContextValue::Variable\(value\)\);', 'self.set("x", ContextValue::Variable(value));'),
 # ---- C07 order / laziness
 ('c07_both_branches', 'C07', ['ev'], 'parser.rs', r'if val \{\n                    return lhs\.exec\(ctx\);\n                \}', 'let l = lhs.exec(ctx);\n                if val {\n                    return l;\n                }'),
 ('c07_map_value_before_key', 'C07', ['ev'], 'parser.rs', r'ans\.push\(\(k\.exec\(ctx\)\?, v\.exec\(ctx\)\?\)\);', 'let vv_ = v.exec(ctx)?;\n            ans.push((k.exec(ctx)?, vv_));'),
 ('c07_element_twice', 'C07', ['ev'], 'parser.rs', r'(let mut ans = Vec::new\(\);\n        for expr in params \{\n            )ans\.push\(expr\.exec\(ctx\)\?\);', r'\1let first = expr.exec(ctx)?;\n            let _again = expr.exec(ctx)?;\n            ans.push(first);'),
 ('c07_execute_evaluates_twice', 'C07', ['lb'], 'lib.rs', r'parse_expression\(expr\)\?\.exec\(&mut ctx\)', 'let ast = parse_expression(expr)?;\n    ast.exec(&mut ctx)?;\n    ast.exec(&mut ctx)'),
 # ---- C08 dispatch
 ('c08_register_without_init', 'C08', ['lb'], 'lib.rs', r'(use crate::function::InnerFunctionManager;\n)    init\(\);\n', r'\1'),
 ('c08_powers_not_doubled', 'C08', ['lb'], 'operator.rs', r'let l_bp = config\.0 \* 2;', 'let l_bp = config.0;'),
 ('c08_is_op_forgets_postfix', 'C08', ['lb'], 'keyword.rs', r' \|\| is_postfix_op\(op\)', ''),
 # ---- C09 exact decimals
 ('c09_add_is_sub', 'C09', ['hv'], 'operator.rs', r'"\+" => a\.checked_add\(b\),', '"+" => a.checked_sub(b),'),
 ('c09_literal_replaced', 'C09', ['ev'], 'parser.rs', r'Literal::Number\(value\) => Ok\(Value::from\(value\)\),', 'Literal::Number(value) => Ok(Value::from(true)),'),
 ('c09_compare_swapped', 'C09', ['hv'], 'operator.rs', r'">" => value = a > b,', '">" => value = b > a,'),
 ('c09_number_slice_short', 'C09', ['tp'], 'tokenizer.rs', r'match Decimal::from_str\(&self\.input\[start\.\.self\.current\(\)\]\)', 'match Decimal::from_str(&self.input[start..start + 1])'),
 # ---- C10 tokens
 ('c10_cr_not_whitespace', 'C10', ['tp'], 'tokenizer.rs', r" \|\| ch == '\\r'", ''),
 ('c10_comma_span_too_long', 'C10', ['tp'], 'tokenizer.rs', r'(Ok\(Token::Comma\(\n            &self\.input\[start\.\.start \+ 1\],\n            Span\(start, start \+ )1\)', r'\g<1>2)'),
 ('c10_string_keeps_quotes', 'C10', ['tp'], 'tokenizer.rs', r'&self\.input\[start \+ 1\.\.self\.current\(\) - 1\]', '&self.input[start..self.current()]'),
 ('c10_true_not_bool', 'C10', ['tp'], 'tokenizer.rs', r'if atom == "True" \|\| atom == "true" \{', 'if atom == "true" {'),
 ('c10_word_operator_prefix_match', 'C10', ['tp'], 'tokenizer.rs', r'(fn try_parse_op\(&self, start: usize\) -> bool \{\n        let mut tmp = self\.clone\(\);\n        loop \{\n            match tmp\.peek_one\(\) \{\n                Some\(\(_, ch\)\) => \{\n                    if is_whitespace_char\(ch\) \|\| is_delim_char\(ch\))', r"\1 || ch == ','"),
 ('c10_greedy_stops_early', 'C10', ['tp'], 'tokenizer.rs', r'(if keyword::is_op\(&\(self\.input\[start\.\.self\.current\(\) \+ ch\.len_utf8\(\)\]\.to_string\(\)\)\)) \{', r"\1 && ch != '=' {"),
 ('c10_identifier_takes_hash', 'C10', ['tp'], 'tokenizer.rs', r"\|\| ch == '_';", "|| ch == '_' || ch == '#';"),
 ('c10_function_lookahead_wrong_token', 'C10', ['tp'], 'tokenizer.rs', r'if peek\.is_open_paren\(\) \{', 'if peek.is_open_bracket() {'),
 ('c10_delim_kind_swapped', 'C10', ['tp'], 'token.rs', r'"\[" => OpenBracket,', '"[" => OpenBrace,'),
 # ---- C12 printer
 ('c12_prefix_operand_never_parenthesised', 'C12', ['pr'], 'parser.rs', r'if rhs\.is_prefix_operand\(\) \{', 'if true {'),
 ('c12_left_child_uses_left_power', 'C12', ['pr'], 'parser.rs', r'precidence\.1 < l_bp', 'precidence.0 < l_bp'),
 ('c12_quote_choice_inverted', 'C12', ['pr'], 'parser.rs', r"""if value\.contains\('"'\) \{ "'" \} else \{ "\\"" \}""", """if value.contains('"') { "\\"" } else { "'" }"""),
 ('c12_list_separator', 'C12', ['pr'], 'parser.rs', r'(s\.push_str\(params\[i\]\.expr\(\)\.as_str\(\)\);\n            if i < params\.len\(\) - 1 \{\n                s\.push_str\()","', r'\1";"'),
 # ---- C17 conversions
 ('c17_bool_negated', 'C17', ['hv'], 'value.rs', r'Self::Bool\(val\) => Ok\(val\),', 'Self::Bool(val) => Ok(!val),'),
 ('c17_from_bool_negated', 'C17', ['hv'], 'value.rs', r'Value::Bool\(value\)\n', 'Value::Bool(!value)\n'),
 ('c17_integer_scale_dependent', 'C17', ['hv'], 'value.rs', r'\n                \.normalize\(\)', ''),
 ('c17_string_accessor_accepts_none', 'C17', ['hv'], 'value.rs', r'_ => Err\(Error::ShouldBeString\(\)\),', '_ => Ok(String::new()),'),
 # ---- C18 descriptors
 ('c18_binary_key_unary', 'C18', ['ds'], 'descriptor.rs', r'(pub fn get_binary_descriptor\(&self, op: String\) -> Arc<BinaryDescriptor> \{\n        let key = DescriptorKey::)BINARY', r'\1UNARY'),
 ('c18_set_list_writes_map_key', 'C18', ['ds'], 'descriptor.rs', r'(pub fn set_list_descriptor\(&mut self, descriptor: Arc<ListDescriptor>\) \{\n        let key = DescriptorKey::)LIST', r'\1MAP'),
 ('c18_postfix_ignores_registration', 'C18', ['ds'], 'descriptor.rs', r'Descriptor::POSTFIX\(f\) => f\.clone\(\),', 'Descriptor::POSTFIX(f) => Arc::new(default_postfix_descriptor),'),
 ('c18_describe_children_swapped', 'C18', ['dd'], 'parser.rs', r'(get_binary_descriptor\(op\.to_string\(\)\)\(\n                op\.to_string\(\),\n                )lhs\.describe\(\),\n                rhs\.describe\(\),', r'\1rhs.describe(),\n                lhs.describe(),'),
 ('c18_describe_list_uses_chain_descriptor', 'C18', ['dd'], 'parser.rs', r'Self::List\(values\) => DescriptorManager::new\(\)\.get_list_descriptor\(\)', 'Self::List(values) => DescriptorManager::new().get_chain_descriptor()'),
 ('c18_describe_reference_by_constant_name', 'C18', ['dd'], 'parser.rs', r'\.get_reference_descriptor\(name\.to_string\(\)\)', '.get_reference_descriptor("x".to_string())'),
 ('c18_default_binary_operand_order', 'C18', ['ds'], 'descriptor.rs', r'lhs \+ &op \+ &rhs', 'op + &lhs + &rhs'),
 ('c18_default_list_separator', 'C18', ['ds'], 'descriptor.rs', r'"\["\.to_string\(\) \+ &params\.join\(","\)', '"[".to_string() + &params.join(";")'),
 ('c18_default_map_entry_colon', 'C18', ['ds'], 'descriptor.rs', r'tmp\.push\(k \+ ":" \+ &v\)', 'tmp.push(k + "=" + &v)'),
]
# mutations that must still verify: behaviour-equivalent edits (a failure here is a false alarm of the overlay)
EQUIVALENT = [
 ('eq_rename_local', ['tp'], 'parser.rs', r'let \(cur_l_bp, _\) = self\.get_infix_precidence\(\)\?;\n            if r_bp < cur_l_bp \{', 'let (next_left, _) = self.get_infix_precidence()?;\n            if r_bp < next_left {'),
 ('eq_comparison_flipped', ['tp'], 'parser.rs', r'if l_bp < exec_prec \{', 'if exec_prec > l_bp {'),
 ('eq_reordered_independent_statements', ['hv'], 'function.rs', r'(let mut ans = Decimal::ZERO;\n)', r'\1                let _unused_marker = 0;\n'),
 ('eq_extra_comment_and_blank_lines', ['ev'], 'parser.rs', r'(fn exec_list\(&self, params: Vec<ExprAST>, ctx: &mut Context\) -> Result<Value> \{\n)', r'\1        // collect the elements in order\n\n'),
 ('eq_explicit_return', ['pr'], 'parser.rs', r'(fn reference_expr\(&self, val: &\'a str\) -> String \{\n)        val\.to_string\(\)', r'\1        return val.to_string();'),
]
