
#[verifier::external_body] pub struct InfixOpManager { x: u8 }     // opaque: an empty struct would make every handle equal, and a view that is a function of the handle could then never change
pub uninterp spec fn lbp(op: Seq<char>) -> int;
pub uninterp spec fn rbp(op: Seq<char>) -> int;
// (to be discharged from the verified get_precidence + registry contract: l = 2p, r = 2p +- 1, p >= 1)
pub broadcast axiom fn axiom_bp(op: Seq<char>)
    requires keyword::reg_infix(op)
    ensures #[trigger] lbp(op) >= 2, lbp(op) % 2 == 0, #[trigger] rbp(op) >= 1, rbp(op) % 2 == 1;
impl InfixOpManager {
  #[verifier::external_body] pub fn new() -> Self { unimplemented!() }
  #[verifier::external_body] pub fn get_precidence(&self, op: &str) -> (r: (i32, i32))
     ensures keyword::reg_infix(op@) ==> r.0 == lbp(op@) && r.1 == rbp(op@), !keyword::reg_infix(op@) ==> r == (-1i32, -1i32) { unimplemented!() }
}
impl<'a> Tokenizer<'a> {
    // the current-token register is consistent with the cursor
    pub closed spec fn synced(&self) -> bool {
        &&& self.wf()
        &&& tok_end(self.cur_token, self.len()) == self.off()
        &&& tok_start(self.cur_token, self.len()) <= self.off()
        &&& (!(self.cur_token is EOF) ==> 0 <= tok_start(self.cur_token, self.len()) < self.off())
    }
    // termination measure: bytes from the start of the current token to the end of input
    pub closed spec fn m(&self) -> int { self.len() - tok_start(self.cur_token, self.len()) }
}
impl<'a> Parser<'a> {
    pub closed spec fn wf(&self) -> bool { self.tokenizer.synced() }
    pub closed spec fn m(&self) -> int { self.tokenizer.m() }
    pub closed spec fn cur(&self) -> Token<'a> { self.tokenizer.cur_token }
}

#[verifier::external_body]
pub fn vx_string_eq_str(a: &String, b: &str) -> (r: bool) ensures r == (a@ == b@) { a == b }
// ======================= derivation witnesses =======================
pub enum G<'a> {
    Lit(Token<'a>),
    Ref(Token<'a>),
    Paren(Token<'a>, Box<G<'a>>, Token<'a>),
    Pre(Token<'a>, Box<G<'a>>),
    Bin(Box<G<'a>>, Option<Token<'a>>, Token<'a>, Box<G<'a>>),       // l, optional `not` token, operator token, r
    Cond(Box<G<'a>>, Token<'a>, Box<G<'a>>, Token<'a>, Box<G<'a>>),  // c ? a : e
    Post(Box<G<'a>>, Token<'a>, String),                              // operand, postfix operator token, the String stored in the AST
    List(Token<'a>, Seq<(G<'a>, Option<Token<'a>>)>, Token<'a>, Vec<ExprAST<'a>>),   // [ item (, item)* ,? ]  + the Vec stored in the AST
    Call(Token<'a>, Token<'a>, Seq<(G<'a>, Option<Token<'a>>)>, Token<'a>, Vec<ExprAST<'a>>),  // name ( arg (, arg)* )
    Entry(Box<G<'a>>, Token<'a>, Box<G<'a>>),                                          // key : value   (only inside Map)
    Map(Token<'a>, Seq<(G<'a>, Option<Token<'a>>)>, Token<'a>, Vec<(ExprAST<'a>, ExprAST<'a>)>),  // { entry (, entry)* ,? }
}
pub open spec fn op_text(t: Token) -> Seq<char> { match t { Token::Operator(s, _) => s@, _ => Seq::empty() } }
pub open spec fn first<'a>(g: G<'a>) -> Token<'a> decreases g {
    match g { G::Lit(t) => t, G::Ref(t) => t, G::Paren(t, _, _) => t, G::Pre(t, _) => t, G::Bin(l, _, _, _) => first(*l), G::Cond(c, _, _, _, _) => first(*c), G::Post(g, _, _) => first(*g), G::List(t, _, _, _) => t, G::Call(t, _, _, _, _) => t, G::Entry(k, _, _) => first(*k), G::Map(t, _, _, _) => t }
}
#[verifier::opaque]
pub open spec fn ast_of<'a>(g: G<'a>) -> ExprAST<'a> decreases g {
    match g {
        G::Lit(t) => match t {
            Token::Number(d, _) => ExprAST::Literal(Literal::Number(d)),
            Token::Bool(v, _) => ExprAST::Literal(Literal::Bool(v)),
            Token::String(s, _) => ExprAST::Literal(Literal::String(s)),
            _ => ExprAST::None },
        G::Ref(t) => match t { Token::Reference(s, _) => ExprAST::Reference(s), _ => ExprAST::None },
        G::Paren(_, g, _) => ast_of(*g),
        G::Pre(t, g) => match t { Token::Operator(s, _) => ExprAST::Unary(s, Box::new(ast_of(*g))), _ => ExprAST::None },
        G::Bin(l, nt, t, r) => match t {
            Token::Operator(s, _) => if nt is Some { ExprAST::Unary("not", Box::new(ExprAST::Binary(s, Box::new(ast_of(*l)), Box::new(ast_of(*r))))) }
                                     else { ExprAST::Binary(s, Box::new(ast_of(*l)), Box::new(ast_of(*r))) },
            _ => ExprAST::None },
        G::Cond(c, _, a, _, e) => ExprAST::Ternary(Box::new(ast_of(*c)), Box::new(ast_of(*a)), Box::new(ast_of(*e))),
        G::Post(g, _, s) => ExprAST::Postfix(Box::new(ast_of(*g)), s),
        G::List(_, _, _, v) => ExprAST::List(v),
        G::Call(t, _, _, _, v) => match t { Token::Function(nm, _) => ExprAST::Function(nm, v), _ => ExprAST::None },
        G::Entry(_, _, _) => ExprAST::None,
        G::Map(_, _, _, v) => ExprAST::Map(v),
    }
}
pub open spec fn is_prim(g: G) -> bool { !(g is Bin) && !(g is Cond) && !(g is Entry) }
// an atom: a primary that is neither a prefix nor a postfix expression (literal, name, call, list, map, parenthesised expression)
pub open spec fn is_atom(g: G) -> bool { is_prim(g) && !(g is Pre) && !(g is Post) }
// the tokenizer, scanning from the end of `t`, produces `t2`
pub open spec fn nxt(b: Seq<u8>, t: Token, t2: Token) -> bool {
    !(t is EOF) && tok_post(b, tok_end(t, b.len() as int), t2, tok_end(t2, b.len() as int))
}
#[verifier::opaque]
pub open spec fn lspine(g: G, x: int) -> bool decreases g {
    match g { G::Bin(l, _, t, _) => lbp(op_text(t)) >= x && lspine(*l, x), G::Cond(_, _, _, _, _) => x <= 0, _ => true }
}
#[verifier::opaque]
pub open spec fn rspine(g: G, x: int) -> bool decreases g {
    match g { G::Bin(_, _, t, r) => rbp(op_text(t)) >= x && rspine(*r, x), G::Cond(_, _, _, _, _) => x <= 0, _ => true }
}
// g is a derivation whose last token is followed by `follow`
#[verifier::opaque]
pub open spec fn wf(g: G, b: Seq<u8>, follow: Token) -> bool decreases g {
    match g {
        G::Lit(t) => (t is Number || t is Bool || t is String) && nxt(b, t, follow),
        G::Ref(t) => t is Reference && nxt(b, t, follow),
        G::Paren(to, g, tc) => tok_is(to, "("@) && nxt(b, to, first(*g)) && wf(*g, b, tc) && tok_is(tc, ")"@) && nxt(b, tc, follow),
        G::Pre(t, g) => t is Operator && keyword::reg_prefix(op_text(t)) && nxt(b, t, first(*g)) && is_prim(*g) && wf(*g, b, follow),
        G::Post(g, t, s) => is_atom(*g) && wf(*g, b, t) && t is Operator && keyword::reg_postfix(op_text(t)) && s@ == op_text(t) && nxt(b, t, follow),
        G::List(to, items, tc, v) => {
            &&& tok_is(to, "["@)
            &&& nxt(b, to, if items.len() == 0 { tc } else { first(items[0].0) })
            &&& wf_items(items, b, if items.len() == 0 { tc } else { first(items[0].0) }, tc)
            &&& tok_is_sep(tc, "]"@) &&& nxt(b, tc, follow)
            &&& v@.len() == items.len()
            &&& forall|i: int| 0 <= i < items.len() ==> v@[i] == ast_of(#[trigger] items[i].0)
        },
        G::Call(tn, to, items, tc, v) => {
            &&& tn is Function &&& nxt(b, tn, to) &&& tok_is_sep(to, "("@)
            &&& nxt(b, to, if items.len() == 0 { tc } else { first(items[0].0) })
            &&& wf_items(items, b, if items.len() == 0 { tc } else { first(items[0].0) }, tc)
            &&& (items.len() > 0 ==> items.last().1 is None)          // no trailing comma in an argument list
            &&& tok_is(tc, ")"@) &&& nxt(b, tc, follow)
            &&& v@.len() == items.len()
            &&& forall|i: int| 0 <= i < items.len() ==> v@[i] == ast_of(#[trigger] items[i].0)
        },
        G::Entry(k, tc, v) => wf(*k, b, tc) && tok_is_sep(tc, ":"@) && nxt(b, tc, first(*v)) && wf(*v, b, follow),
        G::Map(to, items, tc, v) => {
            &&& tok_is(to, "{"@)
            &&& nxt(b, to, if items.len() == 0 { tc } else { first(items[0].0) })
            &&& wf_items(items, b, if items.len() == 0 { tc } else { first(items[0].0) }, tc)
            &&& tok_is_sep(tc, "}"@) &&& nxt(b, tc, follow)
            &&& v@.len() == items.len()
            &&& forall|i: int| 0 <= i < items.len() ==> entry_ok(#[trigger] items[i].0, v@[i])
        },
        G::Cond(c, tq, a, tc, e) => {
            &&& wf(*c, b, tq) &&& !(*c is Cond)
            &&& tok_is(tq, "?"@) &&& nxt(b, tq, first(*a)) &&& wf(*a, b, tc)
            &&& tok_is_sep(tc, ":"@) &&& nxt(b, tc, first(*e)) &&& wf(*e, b, follow)
        },
        G::Bin(l, nt, t, r) => {
            &&& wf(*l, b, match nt { Some(n) => n, None => t })
            &&& (nt matches Some(n) ==> is_not_tok(n) && nxt(b, n, t))
            &&& t is Operator && keyword::reg_infix(op_text(t))
            &&& nxt(b, t, first(*r))
            &&& wf(*r, b, follow)
            &&& lspine(*r, rbp(op_text(t)))      // everything the right operand took binds tighter than op from the right
            &&& rspine(*l, lbp(op_text(t)))      // nothing in the left operand could have taken op
        },
    }
}
// trusted (std): Display of a String is its content
pub broadcast axiom fn axiom_string_to_string(s: String, r: String) ensures #[trigger] to_string_from_display_ensures(&s, r) ==> r@ == s@;
// a run of items, each followed by an optional `,`; only the last item may lack the comma; `end` follows the run
pub open spec fn wf_items(items: Seq<(G, Option<Token>)>, b: Seq<u8>, start: Token, end: Token) -> bool decreases items {
    if items.len() == 0 { start == end } else {
        let pre = items.drop_last();
        let (g, c) = items.last();
        &&& wf_items(pre, b, start, first(g))
        &&& (pre.len() > 0 ==> pre.last().1 is Some)
        &&& match c { Some(ct) => wf(g, b, ct) && tok_is_sep(ct, ","@) && nxt(b, ct, end), None => wf(g, b, end) }
    }
}
pub open spec fn entry_ok(g: G, kv: (ExprAST, ExprAST)) -> bool decreases g {
    match g { G::Entry(gk, _, gv) => kv == (ast_of(*gk), ast_of(*gv)), _ => false }
}
pub assume_specification<'a>[<ExprAST<'a> as Clone>::clone](v: &ExprAST<'a>) -> (r: ExprAST<'a>) ensures r == *v;
// the whole program: a chain of statements from the first token to `end`, and the AST the code builds from them
pub open spec fn prog_ok<'a>(items: Seq<(G<'a>, Option<Token<'a>>)>, vec: Vec<ExprAST<'a>>, v: ExprAST<'a>, b: Seq<u8>, start: Token<'a>, end: Token<'a>) -> bool {
    &&& wf_stmts(items, b, start, end)
    &&& vec@.len() == items.len()
    &&& forall|i: int| 0 <= i < items.len() ==> vec@[i] == ast_of(#[trigger] items[i].0)
    &&& (if items.len() == 1 { v == vec@[0] } else { v == ExprAST::Stmt(vec) })
}
// a run of statements, each optionally followed by `;`
pub open spec fn wf_stmts(items: Seq<(G, Option<Token>)>, b: Seq<u8>, start: Token, end: Token) -> bool decreases items {
    if items.len() == 0 { start == end } else {
        let pre = items.drop_last();
        let (g, c) = items.last();
        &&& wf_stmts(pre, b, start, first(g))
        &&& !(g is Entry)
        &&& match c { Some(ct) => wf(g, b, ct) && ct is Semicolon && nxt(b, ct, end), None => wf(g, b, end) }
    }
}
pub proof fn lemma_stmts_push<'a>(items: Seq<(G<'a>, Option<Token<'a>>)>, b: Seq<u8>, start: Token<'a>, g: G<'a>, c: Option<Token<'a>>, end: Token<'a>)
    requires wf_stmts(items, b, start, first(g)), !(g is Entry),
        match c { Some(ct) => wf(g, b, ct) && ct is Semicolon && nxt(b, ct, end), None => wf(g, b, end) },
    ensures wf_stmts(items.push((g, c)), b, start, end),
{
    reveal_with_fuel(wf, 2);
    assert(items.push((g, c)).drop_last() =~= items);
}
pub proof fn lemma_items_first(items: Seq<(G, Option<Token>)>, b: Seq<u8>, start: Token, end: Token)
    requires wf_items(items, b, start, end), items.len() > 0,
    ensures start == first(items[0].0),
    decreases items.len()
{
    reveal_with_fuel(wf, 3); reveal_with_fuel(wf_items, 3);
    if items.len() > 1 { lemma_items_first(items.drop_last(), b, start, first(items.last().0)); assert(items.drop_last()[0] == items[0]); }
}
pub proof fn lemma_items_push<'a>(items: Seq<(G<'a>, Option<Token<'a>>)>, b: Seq<u8>, start: Token<'a>, g: G<'a>, c: Option<Token<'a>>, end: Token<'a>)
    requires wf_items(items, b, start, first(g)), items.len() > 0 ==> items.last().1 is Some,
        match c { Some(ct) => wf(g, b, ct) && tok_is_sep(ct, ","@) && nxt(b, ct, end), None => wf(g, b, end) },
    ensures wf_items(items.push((g, c)), b, start, end),
{
    reveal_with_fuel(wf, 2);
    let it2 = items.push((g, c));
    assert(it2.drop_last() =~= items);
    assert(it2.last() == (g, c));
    assert(it2.len() > 0);
    assert(wf_items(it2.drop_last(), b, start, first(g)));
    assert(it2.drop_last().len() > 0 ==> it2.drop_last().last().1 is Some);
    assert(it2.last().0 == g && it2.last().1 == c);
    assert(match it2.last().1 { Some(ct) => wf(it2.last().0, b, ct) && tok_is_sep(ct, ","@) && nxt(b, ct, end), None => wf(it2.last().0, b, end) });
    assert(wf_items(it2, b, start, end) == ({
        let pre = it2.drop_last();
        let (g, c) = it2.last();
        &&& wf_items(pre, b, start, first(g))
        &&& (pre.len() > 0 ==> pre.last().1 is Some)
        &&& match c { Some(ct) => wf(g, b, ct) && tok_is_sep(ct, ","@) && nxt(b, ct, end), None => wf(g, b, end) }
    }));
}
pub open spec fn delim_str(d: DelimTokenType) -> Seq<char> {
    match d { DelimTokenType::OpenParen => "("@, DelimTokenType::CloseParen => ")"@, DelimTokenType::OpenBracket => "["@,
              DelimTokenType::CloseBracket => "]"@, DelimTokenType::OpenBrace => "{"@, DelimTokenType::CloseBrace => "}"@, DelimTokenType::Unknown => "??"@ }
}
pub open spec fn tok_is(t: Token, s: Seq<char>) -> bool {
    match t { Token::Delim(d, _) => delim_str(d) == s, Token::Operator(op, _) => op@ == s, _ => false }
}
pub open spec fn tok_is_sep(t: Token, s: Seq<char>) -> bool {
    tok_is(t, s) || (t matches Token::Comma(c, _) && c@ == s)
}
// tk(b, p), the token the tokenizer produces when scanning from offset p, is defined in the tokenizer's ghost vocabulary (lemma_tk: it is the only one)
pub open spec fn is_not_tok(t: Token) -> bool { t matches Token::Operator(op, _) && op@ == "not"@ }
pub open spec fn pw(t: Token) -> int {
    match t { Token::Operator(op, _) => if keyword::reg_infix(op@) { lbp(op@) } else { -1 }, _ => -1 }
}
// the operator token that decides the grouping when the cursor is at `t`: `t` itself, or the token after a `not`
pub open spec fn optok<'a>(b: Seq<u8>, t: Token<'a>) -> Token<'a> {
    if is_not_tok(t) { tk(b, tok_end(t, b.len() as int)) } else { t }
}
pub open spec fn la(b: Seq<u8>, t: Token) -> int { pw(optok(b, t)) }
// one step of the operator loop: lhs `g` absorbs `t_op gr`
pub proof fn lemma_bin_step<'a>(g: G<'a>, nt: Option<Token<'a>>, t_op: Token<'a>, gr: G<'a>, b: Seq<u8>, cur: Token<'a>, min: int)
    requires
        wf(g, b, match nt { Some(n) => n, None => t_op }), !(g is Cond),
        nt matches Some(n) ==> is_not_tok(n) && nxt(b, n, t_op),
        t_op is Operator, keyword::reg_infix(op_text(t_op)),
        nxt(b, t_op, first(gr)), wf(gr, b, cur),
        lspine(gr, rbp(op_text(t_op))), rspine(g, lbp(op_text(t_op))),
        lspine(g, min), lbp(op_text(t_op)) >= min,
        tok_is(cur, "?"@) || (la(b, cur) <= rbp(op_text(t_op)) && rspine(gr, la(b, cur))),
    ensures ({
        let g2 = G::Bin(Box::new(g), nt, t_op, Box::new(gr));
        &&& wf(g2, b, cur) &&& lspine(g2, min) &&& first(g2) == first(g)
        &&& (tok_is(cur, "?"@) || rspine(g2, la(b, cur)))
        &&& !(g2 is Cond) &&& !(g2 is Entry)
        &&& ast_of(g2) == (match t_op { Token::Operator(s, _) => if nt is Some { ExprAST::Unary("not", Box::new(ExprAST::Binary(s, Box::new(ast_of(g)), Box::new(ast_of(gr))))) }
                                                                     else { ExprAST::Binary(s, Box::new(ast_of(g)), Box::new(ast_of(gr))) }, _ => ExprAST::None })   // @C02 binary.node
    }),
{
    reveal_with_fuel(wf, 2); reveal_with_fuel(lspine, 2); reveal_with_fuel(rspine, 2); reveal_with_fuel(ast_of, 2);
}
// a primary has no operator on either spine
pub proof fn lemma_prim_spines(g: G)
    requires is_prim(g)
    ensures forall|x: int| #[trigger] lspine(g, x), forall|x: int| #[trigger] rspine(g, x),
{ reveal_with_fuel(lspine, 2); reveal_with_fuel(rspine, 2); }
// building `c ? a : e` at the outermost level of an expression
pub proof fn lemma_cond_step<'a>(g: G<'a>, tq: Token<'a>, ga: G<'a>, tc: Token<'a>, gb: G<'a>, b: Seq<u8>, cur: Token<'a>, min: int)
    requires
        wf(g, b, tq), !(g is Cond), tok_is(tq, "?"@), nxt(b, tq, first(ga)), wf(ga, b, tc),
        tok_is_sep(tc, ":"@), nxt(b, tc, first(gb)), wf(gb, b, cur), min <= 0,
    ensures ({
        let gc = G::Cond(Box::new(g), tq, Box::new(ga), tc, Box::new(gb));
        &&& wf(gc, b, cur) &&& lspine(gc, min) &&& first(gc) == first(g) &&& !(gc is Entry)
        &&& ast_of(gc) == ExprAST::Ternary(Box::new(ast_of(g)), Box::new(ast_of(ga)), Box::new(ast_of(gb)))   // @C02 conditional.node
    }),
{
    reveal_with_fuel(wf, 2); reveal_with_fuel(lspine, 2); reveal_with_fuel(rspine, 2); reveal_with_fuel(ast_of, 2);
}

// ---------- node construction lemmas: the only places where `wf` is unfolded for a new node; call sites see plain preconditions ----------
pub proof fn lemma_node_lit<'a>(t: Token<'a>, b: Seq<u8>, follow: Token<'a>)
    requires t is Number || t is Bool || t is String, nxt(b, t, follow),   // @C05,C09 node.literal
    ensures wf(G::Lit(t), b, follow), is_atom(G::Lit(t)), first(G::Lit(t)) == t,
        ast_of(G::Lit(t)) == (match t { Token::Number(d, _) => ExprAST::Literal(Literal::Number(d)), Token::Bool(v, _) => ExprAST::Literal(Literal::Bool(v)), Token::String(s, _) => ExprAST::Literal(Literal::String(s)), _ => ExprAST::None }),
{ reveal_with_fuel(wf, 2); reveal_with_fuel(ast_of, 2); }
pub proof fn lemma_node_ref<'a>(t: Token<'a>, b: Seq<u8>, follow: Token<'a>)
    requires t is Reference, nxt(b, t, follow),   // @C05 node.reference
    ensures wf(G::Ref(t), b, follow), is_atom(G::Ref(t)), first(G::Ref(t)) == t,
        ast_of(G::Ref(t)) == (match t { Token::Reference(s, _) => ExprAST::Reference(s), _ => ExprAST::None }),
{ reveal_with_fuel(wf, 2); reveal_with_fuel(ast_of, 2); }
pub proof fn lemma_node_paren<'a>(to: Token<'a>, g: G<'a>, tc: Token<'a>, b: Seq<u8>, follow: Token<'a>)
    requires tok_is(to, "("@), nxt(b, to, first(g)), wf(g, b, tc),
        tok_is(tc, ")"@),          // @C05 paren.closer
        nxt(b, tc, follow),
    ensures ({ let p = G::Paren(to, Box::new(g), tc); wf(p, b, follow) && is_atom(p) && first(p) == to && ast_of(p) == ast_of(g) }),   // @C02 paren.transparent
{ reveal_with_fuel(wf, 2); reveal_with_fuel(ast_of, 2); }
pub proof fn lemma_node_pre<'a>(t: Token<'a>, g: G<'a>, b: Seq<u8>, follow: Token<'a>)
    requires t is Operator,
        keyword::reg_prefix(op_text(t)),      // @C05 prefix.registered
        nxt(b, t, first(g)),
        is_prim(g),                           // @C02 prefix.operand_is_primary
        wf(g, b, follow),
    ensures ({ let p = G::Pre(t, Box::new(g)); wf(p, b, follow) && is_prim(p) && first(p) == t
            && ast_of(p) == (match t { Token::Operator(s, _) => ExprAST::Unary(s, Box::new(ast_of(g))), _ => ExprAST::None }) }),
{ reveal_with_fuel(wf, 2); reveal_with_fuel(ast_of, 2); }
pub proof fn lemma_node_post<'a>(g: G<'a>, t: Token<'a>, s: String, b: Seq<u8>, follow: Token<'a>)
    requires
        is_atom(g),                           // @C02 postfix.operand_is_atom
        wf(g, b, t), t is Operator,
        keyword::reg_postfix(op_text(t)),     // @C05 postfix.registered
        s@ == op_text(t), nxt(b, t, follow),
    ensures ({ let p = G::Post(Box::new(g), t, s); wf(p, b, follow) && is_prim(p) && first(p) == first(g) && ast_of(p) == ExprAST::Postfix(Box::new(ast_of(g)), s) }),
{ reveal_with_fuel(wf, 2); reveal_with_fuel(ast_of, 2); }
pub proof fn lemma_node_list<'a>(to: Token<'a>, items: Seq<(G<'a>, Option<Token<'a>>)>, tc: Token<'a>, v: Vec<ExprAST<'a>>, b: Seq<u8>, t1: Token<'a>, follow: Token<'a>)
    requires tok_is(to, "["@), nxt(b, to, t1), wf_items(items, b, t1, tc),
        tok_is_sep(tc, "]"@),      // @C05 list.closer
        nxt(b, tc, follow), v@.len() == items.len(), forall|i: int| 0 <= i < items.len() ==> v@[i] == ast_of(#[trigger] items[i].0),
    ensures ({ let p = G::List(to, items, tc, v); wf(p, b, follow) && is_atom(p) && first(p) == to && ast_of(p) == ExprAST::List(v) }),
{ reveal_with_fuel(wf, 2); reveal_with_fuel(ast_of, 2); if items.len() > 0 { lemma_items_first(items, b, t1, tc); } else { reveal_with_fuel(wf_items, 2); } }
pub proof fn lemma_node_map<'a>(to: Token<'a>, items: Seq<(G<'a>, Option<Token<'a>>)>, tc: Token<'a>, v: Vec<(ExprAST<'a>, ExprAST<'a>)>, b: Seq<u8>, t1: Token<'a>, follow: Token<'a>)
    requires tok_is(to, "{"@), nxt(b, to, t1), wf_items(items, b, t1, tc),
        tok_is_sep(tc, "}"@),      // @C05 map.closer
        nxt(b, tc, follow), v@.len() == items.len(), forall|i: int| 0 <= i < items.len() ==> entry_ok(#[trigger] items[i].0, v@[i]),
    ensures ({ let p = G::Map(to, items, tc, v); wf(p, b, follow) && is_atom(p) && first(p) == to && ast_of(p) == ExprAST::Map(v) }),
{ reveal_with_fuel(wf, 2); reveal_with_fuel(ast_of, 2); if items.len() > 0 { lemma_items_first(items, b, t1, tc); } else { reveal_with_fuel(wf_items, 2); } }
pub proof fn lemma_node_entry<'a>(gk: G<'a>, tcol: Token<'a>, gv: G<'a>, b: Seq<u8>, follow: Token<'a>)
    requires wf(gk, b, tcol), !(gk is Entry),
        tok_is_sep(tcol, ":"@),    // @C05 map.colon
        nxt(b, tcol, first(gv)), wf(gv, b, follow), !(gv is Entry),
    ensures ({ let p = G::Entry(Box::new(gk), tcol, Box::new(gv)); wf(p, b, follow) && first(p) == first(gk) && entry_ok(p, (ast_of(gk), ast_of(gv))) }),
{ reveal_with_fuel(wf, 2); }
pub proof fn lemma_node_call<'a>(tn: Token<'a>, to: Token<'a>, items: Seq<(G<'a>, Option<Token<'a>>)>, tc: Token<'a>, v: Vec<ExprAST<'a>>, b: Seq<u8>, t1: Token<'a>, follow: Token<'a>)
    requires tn is Function, nxt(b, tn, to),
        tok_is_sep(to, "("@),      // @C05 call.open
        nxt(b, to, t1), wf_items(items, b, t1, tc), items.len() > 0 ==> items.last().1 is None,
        tok_is(tc, ")"@),          // @C05 call.closer
        nxt(b, tc, follow), v@.len() == items.len(), forall|i: int| 0 <= i < items.len() ==> v@[i] == ast_of(#[trigger] items[i].0),
    ensures ({ let p = G::Call(tn, to, items, tc, v); wf(p, b, follow) && is_atom(p) && first(p) == tn
            && ast_of(p) == (match tn { Token::Function(nm, _) => ExprAST::Function(nm, v), _ => ExprAST::None }) }),
{ reveal_with_fuel(wf, 2); reveal_with_fuel(ast_of, 2); if items.len() > 0 { lemma_items_first(items, b, t1, tc); } else { reveal_with_fuel(wf_items, 2); } }
impl<'a> Parser<'a> {
    pub closed spec fn bytes(&self) -> Seq<u8> { self.tokenizer.bytes() }
    pub open spec fn d_atom(&self, old: &Parser<'a>, r: ExprAST<'a>) -> bool {
        exists|g: G<'a>| is_atom(g) && first(g) == old.cur() && #[trigger] wf(g, self.bytes(), self.cur()) && ast_of(g) == r
    }
    pub open spec fn d_prim(&self, old: &Parser<'a>, r: ExprAST<'a>) -> bool {
        exists|g: G<'a>| is_prim(g) && first(g) == old.cur() && #[trigger] wf(g, self.bytes(), self.cur()) && ast_of(g) == r
    }
    pub open spec fn d_expr(&self, old: &Parser<'a>, r: ExprAST<'a>) -> bool {
        exists|g: G<'a>| !(g is Entry) && first(g) == old.cur() && #[trigger] wf(g, self.bytes(), self.cur()) && ast_of(g) == r
    }
}
