"""property -> units / harnesses / notes (DESIGN.md section 5)"""
A1 = "A1 Verus (Z3) is sound; execution model: unbounded stack, no unwinding through verified code, machine integers with overflow as an error (profile independent)"
A2 = "A2 std: str::char_indices / CharIndices::{next,clone} model, str range indexing returns the sub-bytes, str::parse::<i64>, Display of str/String, vstd's own specs"
A3 = "A3 rust_decimal: from_str total and exact (dec_parse); checked_{add,sub,mul,div,rem} = Some(exact) iff representable; ordering and == numeric; normalize/to_string/from_iN as stated in the prelude"
A4 = "A4 registries frozen during one parse/evaluation; handlers and context functions deterministic functions of their arguments, not touching engine state"
A5 = "A5 pinned trusted primitives (*Manager::{new,register}, Context::{new,set}, DescriptorManager::{new,set}, init::init, create_context!) are a OnceCell static / one HashMap insert under a lock; for the verified read primitives only lock() = the current map and HashMap::get = map lookup are assumed (rule 30)"
A6 = "A6 the textual normalisations of DESIGN.md 3.2 preserve meaning (each application counted in normalisations_applied)"
A7 = "A7 (discharged: lemma_tok_unique proves that the scanner's postcondition and classification determine the token; no assumption remains)"
A8 = "A8 a &str is determined by its characters and by its bytes (a@ == b@ ==> a == b; a.spec_bytes() == b.spec_bytes() ==> a == b); a one-character ASCII string is that one byte"
NC_COMPLETE = "completeness: that every sentence of the grammar is accepted (the parser theorem is a soundness theorem)"
PROPS = {
 'C01': dict(units=['tp', 'pr', 'lb', 'dd', 'ev', 'ds'], assumptions=[A1, A2, A3, A6, A8],
    level_text="Unbounded proof (Verus) on the extracted real source: every slice/index/arithmetic/unwrap precondition in tokenizer, parser and printer is discharged and every loop and recursion has a decreasing measure, for all UTF-8 inputs. Stack depth is outside the verifier's model (known finding).",
    level_note="Assumes A1 A2 A3 A6 A8 (DESIGN.md 4); describe() safety/termination is proved in unit dd (descriptor applications opaque); stack exhaustion is a known finding outside the model.",
    not_covered=["stack exhaustion (the verifier's model has an unbounded stack; known finding)", "the default_*_descriptor bodies called by describe() (C18: bounded stand-in)", "Decimal::from_str totality (A3)"]),
 'C02': dict(units=['tp', 'lb', 'hv'], assumptions=[A1, A2, A3, A6, A8, "TP uses axiom_bp (binding powers of a registered infix operator are even >= 2 / odd >= 1); unit LB proves it (lemma_bp) for the real get_precidence under the domain 0 < p <= 10^9"],
    level_text="Unbounded proof: every Parser::parse_* function returns Ok only with a ghost derivation witness that chains the tokenizer's tokens from the entry token to the exit token, carries the left/right spine precedence constraints under which the tree is unique, and whose AST is the result (loop invariant of the Pratt loop, all productions, any size).",
    level_note="Soundness of grouping; uniqueness of the witness and completeness of acceptance are not proved. Assumes A1 A2 A3 A6 A8.",
    always_bounded=dict(function='acceptance of well-formed input by parse_expression (completeness clause of the parser theorem)', categories=['parse'],
        why="the parser theorem is a soundness theorem: a change that makes the parser reject (or the tokenizer fail on) a sentence of the grammar violates no contract; completeness needs a functional tokenizer specification and uniqueness of witnesses, which are not within reach",
        bound="fixed + seeded corpus of vx/corpus.py (about 3 900 inputs: every ordered pair of operators plain and negated, long flat chains and nesting up to depth 150, string literals with multi-byte characters at every offset, prefix/postfix/conditional/call/list/map forms, corruptions of valid programs, multi-byte neighbours, random expressions of depth <= 3) against the reference grammar of vx/oracle.py"),
    not_covered=["uniqueness of the derivation witness", NC_COMPLETE + ' - bounded stand-in only']),
 'C03': dict(units=['hv', 'ev', 'lb'], assumptions=[A1, A2, A3, A4, A5, A6],
    level_text="Unbounded proof: each of the 23 built-in handlers (lifted byte-for-byte from the init() functions) agrees with a spec function written from the README/property for every operand value, including every wrongly-typed operand; the evaluator agrees with the big-step semantics sem for every AST and context.",
    level_note="Decimal arithmetic itself is the dependency's (A3: uninterpreted dec_add...); user handlers are opaque (A4).",
    not_covered=["user-registered handlers", "float()"]),
 'C04': dict(units=['hv', 'ev'], assumptions=[A1, A2, A3, A6],
    level_text="Unbounded proof: inside every built-in handler each panicking operation has its precondition discharged (checked Decimal ops, shift count in 0..=63, non-empty aggregate) and the postcondition forces Ok(exact) or Err; integer() is Ok(n) exactly for integral in-range numbers.",
    level_note="Panicking Decimal operators have no dischargeable precondition in the model, so any reintroduction fails; A3 for the checked forms.",
    not_covered=["user-registered handlers"]),
 'C05': dict(units=['tp', 'lb'], assumptions=[A1, A2, A3, A6, A8],
    level_text="Unbounded proof (the parser theorem, see C02): an accepted input is exactly a token chain of the documented grammar to EOF - every separator/delimiter/operator token has the required text, nothing dropped, nothing consumed as something else; expect() is Ok only on a match; string/number scanners return Ok only for a terminated string / a valid decimal.",
    always_bounded=dict(function='rejection/acceptance agreement of parse_expression with the documented grammar (completeness clause)', categories=['parse'],
        why="see C02: acceptance of every sentence of the grammar is outside the contracts' reach",
        bound="fixed + seeded corpus of vx/corpus.py (about 3 900 inputs: every ordered pair of operators plain and negated, long flat chains and nesting up to depth 150, string literals with multi-byte characters at every offset, prefix/postfix/conditional/call/list/map forms, corruptions of valid programs, multi-byte neighbours, random expressions of depth <= 3) against the reference grammar of vx/oracle.py"),
    level_note="Assumes A1 A2 A3 A6 A8.", not_covered=[NC_COMPLETE + ' - bounded stand-in only']),
 'C06': dict(units=['ev', 'lb', 'hv'], assumptions=[A1, A4, A5, A6],
    level_text="Unbounded proof: exec_binary's SETTER branch, exec_chain, exec_reference against sem (bind after both sides are evaluated, under the target name, result None, failure = no insertion, non-reference target = Err); Context::set_variable/get_variable against the map view; the ten compound handlers have the same spec function as their plain operator.",
    level_note="Context primitives set/get/value trusted over a map view (A5).", not_covered=["the HashMap behind Context (A5)"]),
 'C07': dict(units=['ev', 'hv', 'lb'], assumptions=[A1, A4, A5, A6],
    level_text="Unbounded proof: exec returns sem(ast, ctx).0 and leaves ctx == sem(ast, ctx).1, where sem threads the state left to right through operands, arguments, elements, entries (key then value) and statements, stops at the first Err, applies a function after its arguments and evaluates one branch of a conditional.",
    level_note="Multiplicity of calls to an opaque handler with equal arguments is invisible (A4); order is decided through context effects and data flow.",
    not_covered=["number of invocations of an opaque handler with identical arguments (A4)"]),
 'C08': dict(units=['lb', 'ev', 'hv'], assumptions=[A1, A4, A5, A6, A8],
    level_text="Unbounded proof: get_precidence returns (2p, 2p+-1) of the registered entry, lemma_bp_gate shows gate and loop test agree with the registered order for all precedences 0 < p <= 10^9 incl. adjacent ones; register_* and parse_expression establish init() before touching a registry; exec_function dispatches context function, then global, else Err; get_handler/get_op_type return the registered fields.",
    always_bounded=dict(function='register / evaluate histories through the real registries, tokenizer and parser (the "every later evaluation" clause over a history of registrations)', categories=['script'],
        why="per-call contracts speak about one evaluation against a registry view; that a later call sees the last registration (A5), and that the tokenizer classifies a registered or bound name as that name, are outside these units' contracts",
        bound="the registration scripts of vx/corpus.py (about 330 steps: override before/after first use, re-registration with other precedence/associativity, shadowing, long / multi-byte / symbolic operator names, names that differ from keywords only in case, create_context! contexts)"),
    level_note="'most recently registered' over a history relies on HashMap::insert replacing (A5); interleavings are not quantified.",
    not_covered=["histories of registrations (A5)", "interleavings"]),
 'C09': dict(units=['tp', 'hv', 'ev'], assumptions=[A1, A2, A3, A6],
    level_text="Unbounded proof: number_token hands exactly the maximal run to Decimal::from_str and the token carries dec_parse(slice); parse_token/exec_literal pass the Decimal through unchanged; + - * % comparisons and equality (and compound forms) return the checked/ordering result on the operands obtained by decimal() - no float()/integer()/rescale on the path.",
    level_note="Exactness of the decimal operations themselves is A3.", not_covered=["rust_decimal internals (A3)"]),
 'C10': dict(units=['tp', 'lb'], assumptions=[A1, A2, A3, A6, A8],
    level_text="Unbounded proof: Tokenizer::next ensures tok_post: only whitespace skipped, span in bounds on char boundaries, cursor at span end, token text = source slice (string payload between equal quotes with no such quote inside, number parses to the carried Decimal); keyword::is_op is the disjunction of the registry predicates; tok_class: greedy longest symbolic operator, word operators only as whole words, a name directly followed by `(` is a function name, boolean keywords, digit runs; lemma_tok_unique: these clauses determine the token (the scanner is a function of input, cursor and registry).",
    level_note="Operator sets are the registry predicates (uninterpreted): the proof holds for every registered operator set.",
    not_covered=["that the registry predicate reg_opb on bytes is the registry's view (keyword::is_op answers by the text; A8)"]),
 'C12': dict(units=['pr', 'tp', 'lb'], assumptions=[A1, A2, A3, A6],
    level_text="Unbounded proof: expr(t)@ == render(t) for every AST, render written from the grammar (parenthesisation rules per position, quote choice, separators). That render inverts the parser needs parser completeness (not proved).",
    always_bounded=dict(function='round trip parse -> expr() -> parse through the real parser (that render inverts the parser)', categories=['parse', 'script'],
        why="expr() is proved equal to the spec function render; that render is a right inverse of the real parser needs parser completeness, which is outside the contracts' reach",
        bound="fixed + seeded corpus of vx/corpus.py (about 3 900 inputs: every ordered pair of operators plain and negated, long flat chains and nesting up to depth 150, string literals with multi-byte characters at every offset, prefix/postfix/conditional/call/list/map forms, corruptions of valid programs, multi-byte neighbours, random expressions of depth <= 3) against the reference grammar of vx/oracle.py"),
    level_note="Printer against a spec function; see DESIGN.md 5 C12.", not_covered=["that render inverts the real parser in general (needs completeness) - bounded stand-in only"]),
 'C17': dict(units=['hv'], assumptions=[A1, A2, A3, A6],
    level_text="Unbounded proof: every accessor is Ok on exactly one variant and returns the payload; Value::from(n) denotes n for i8..i64/u8..u64 (i128/u128 beyond 96 bits: known finding); integer() returns n for every number that is the integer n in i64 range whatever its scale, Err otherwise.",
    level_note="from_iN/normalize/to_string/parse contracts are A3/A2.", not_covered=["f32/f64 conversions"]),
 'C18': dict(units=['ds', 'dd'], assumptions=[A1, A5, A6],
    level_text="Unbounded proof: each of the nine get_*_descriptor returns the entry stored under exactly (kind, name) if it has that kind, else the documented default; each set_* writes exactly that key; a registration is local to its key; describe() (iterator adapters normalised to index loops, rule 26; descriptor applications opaque, rule 7) equals the spec function sdesc: every node is rendered by the descriptor looked up for its kind and name, applied to the renderings of its children in order.",
    level_note="Store behind trusted new/set/get over a map view (A5), frozen during one describe() (A4); the nine default_*_descriptor bodies are proved to compute the documented default rendering (slice join through a trusted wrapper, rule 28).",
    not_covered=["that the opaque default values of rule 24 are the default_* functions (by construction of the normalisation)"]),
}
for _p in PROPS.values():
    _p.setdefault('level', 'proof')

NOT_APPLICABLE = {
 'C11': "relates two runs on different inputs; the scanner is proved to be a function of the bytes (C10), but the property also needs the parser to be a function of the token sequence (uniqueness of derivation witnesses and completeness of acceptance; the parser theorem is a soundness theorem) and invariance of the scanner under inserted whitespace, which no per-call contract within reach expresses (DESIGN.md 5, C11); its local ingredients are obligations of C10/C02/C05",
 'C13': "quantifies over thread schedules; Kani has no threads and Verus only reasons about code written against its own permission-typed primitives (that would be a model, not the code)",
 'C14': "deadlock freedom under re-entrant dyn Fn handlers: lock state is in no signature, liveness is outside both verifiers, Kani's Mutex hits an unsupported syscall",
 'C15': "unwinding and lock poisoning are outside both execution models (Verus: no unwinding; Kani: panic = failure); the Err-propagation half is decided under C07",
 'C16': "histories and schedules of separate calls over process-global state; per-call contracts (evaluation is a function of AST, context view, registry view) are reported under C07/C08",
}
