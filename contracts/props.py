"""property -> units / harnesses / notes (DESIGN.md section 5)"""
A_COMMON = [
 "A1 Verus (Z3) and Kani/CBMC are sound; Verus execution model: unbounded stack, no unwinding, machine integers with overflow as an error",
 "A2 std: str::char_indices / CharIndices::{next,clone} model (offsets are char boundaries, advance by len_utf8), str range indexing returns the sub-bytes, vstd's own specs",
 "A3 rust_decimal: from_str total and exact (dec_parse); checked_* / ordering contracts as stated in the prelude",
 "A6 the textual normalisations of DESIGN.md 3.2 preserve meaning (each application counted in normalisations_applied)",
]
PROPS = {
 'C01': dict(units=['tp'], level='proof',
    assumptions=A_COMMON + ["A7 Tokenizer::next is a deterministic function of (input, cursor, registry) - one assumed ensures clause"],
    not_covered=["stack exhaustion (the verifier's model has an unbounded stack)", "describe() (C18)", "Decimal::from_str totality (A3)"]),
 'C02': dict(units=['tp'], level='proof', assumptions=A_COMMON + ["A7 (see C01)", "axiom_bp: binding powers of registered infix operators are (2p, 2p+-1), p >= 1 - discharged in unit L for the real get_precidence"],
    not_covered=["uniqueness of the derivation witness", "completeness (that every sentence of the grammar is accepted)"]),
 'C05': dict(units=['tp'], level='proof', assumptions=A_COMMON + ["A7 (see C01)"], not_covered=["completeness"]),
 'C10': dict(units=['tp'], level='proof', assumptions=A_COMMON, not_covered=["classification rules (v): thorough tier"]),
}

NOT_APPLICABLE = {
 'C11': "relates two runs on different inputs; needs uniqueness of derivation witnesses and a functional tokenizer spec, which no per-call contract within reach expresses (DESIGN.md 5, C11); its local ingredients are obligations of C10/C02/C05",
 'C13': "quantifies over thread schedules; Kani has no threads and Verus only reasons about code written against its own permission-typed primitives (that would be a model, not the code)",
 'C14': "deadlock freedom under re-entrant dyn Fn handlers: lock state is in no signature, liveness is outside both verifiers, Kani's Mutex hits an unsupported syscall",
 'C15': "unwinding and lock poisoning are outside both execution models (Verus: no unwinding; Kani: panic = failure); the Err-propagation half is decided under C07",
 'C16': "histories and schedules of separate calls over process-global state; per-call contracts (evaluation is a function of AST, context view, registry view) are reported under C07/C08",
}
