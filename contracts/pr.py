"""Unit PR: the printer (ExprAST::expr family, parser.rs) against the spec function `render` (C12; safety/termination C01)."""
from vx.splice import FnSpec as F, Ins, Inv, LetBind, GhostArg, Closure
from vx.unit import Unit, Src, Ghost
import os
_d = os.path.dirname(__file__)
def _t(n): return open(os.path.join(_d, n)).read()

P = "        ensures r@ == "
H = "        proof { broadcast use axiom_str_to_string; match self { %s => { %s }, _ => {} } }"
BU = "        proof { broadcast use axiom_str_to_string, axiom_decimal_to_string; }"
def LOOP(field, vec, pat, sep, start):
    return [
      Ins('entry', '', """        let ghost items = match self { %s => *%s, _ => arbitrary() };
        proof { broadcast use axiom_str_to_string; lemma_vec_cloned_eq(items, %s); }""" % (pat, field, vec)),
      Inv('loop#0', """            invariant *self == %s, items@ == %s@,
                %s,""" % (pat.replace('_', 'name') if 'Function' in pat else pat, vec, start), iter_name=None),
    ]
PRINTER = [
  F('ExprAST::get_precidence', props=['C12'], spec="        ensures r.0 == (*self is Binary), *self is Binary ==> r.1.0 == bin_l(*self) && r.1.1 == bin_r(*self),"),
  F('ExprAST::is_ternary', props=['C12'], spec="        ensures r == (*self is Ternary),"),
  F('ExprAST::is_prefix_operand', props=['C12'], spec="        ensures r == !(*self is Binary || *self is Ternary),"),
  F('ExprAST::expr', spec="        ensures r@ == render(*self),  // @C12 expr.render\n        decreases self, 2int,", ops=[Ins('entry', '', BU)]),
  F('ExprAST::literal_expr', spec=P + "render_lit(val),  // @C12 literal.render", ops=[Ins('entry', '', BU)]),
  F('ExprAST::reference_expr', spec=P + "val@,  // @C12 reference.render", ops=[Ins('entry', '', BU)]),
  F('ExprAST::unary_expr', spec="        requires *self == ExprAST::Unary(op, Box::new(*rhs)),\n" + P + "render(*self),  // @C12 unary.render\n        decreases self, 1int,",
    ops=[Ins('entry', '', H % ("ExprAST::Unary(_, b)", "assert(**b == *rhs); assert(decreases_to!(self => b));"))]),
  F('ExprAST::operand_expr', spec=P + "render_operand(*self),  // @C12 operand.render\n        decreases self, 3int,", ops=[Ins('entry', '', BU)]),
  F('ExprAST::binary_expr', spec="        requires *self == ExprAST::Binary(op, Box::new(*lhs), Box::new(*rhs)),\n" + P + "render(*self),  // @C12 binary.render\n        decreases self, 1int,",
    ops=[Ins('entry', '', H % ("ExprAST::Binary(_, b1, b2)", "assert(**b1 == *lhs && **b2 == *rhs); assert(decreases_to!(self => b1)); assert(decreases_to!(self => b2));"))]),
  F('ExprAST::postfix_expr', spec="        requires self matches ExprAST::Postfix(l, o) && **l == *lhs && o@ == op@,\n" + P + "render(*self),  // @C12 postfix.render\n        decreases self, 1int,",
    ops=[Ins('entry', '', H % ("ExprAST::Postfix(b, _)", "assert(**b == *lhs); assert(decreases_to!(self => b));"))]),
  F('ExprAST::ternary_expr', spec="        requires *self == ExprAST::Ternary(Box::new(*condition), Box::new(*lhs), Box::new(*rhs)),\n" + P + "render(*self),  // @C12 ternary.render\n        decreases self, 1int,",
    ops=[Ins('entry', '', H % ("ExprAST::Ternary(b1, b2, b3)", "assert(**b1 == *condition && **b2 == *lhs && **b3 == *rhs); assert(decreases_to!(self => b1)); assert(decreases_to!(self => b2)); assert(decreases_to!(self => b3));"))]),
  F('ExprAST::function_expr',
    spec="        requires self matches ExprAST::Function(n, args) && n == name && vec_cloned(*args, exprs),\n" + P + "render(*self),  // @C12 call.render\n        decreases self, 1int,",
    ops=[
      Ins('entry', '', """        let ghost items = match self { ExprAST::Function(_, args) => *args, _ => arbitrary() };
        proof { broadcast use axiom_str_to_string; lemma_vec_cloned_eq(items, exprs);
            reveal_strlit("("); reveal_strlit(","); reveal_strlit(")");
            assert("("@ =~= seq!['(']); assert(","@ =~= seq![',']); assert(")"@ =~= seq![')']); }"""),
      Ins('loop#0', 'before', "proof { assert(ans@ =~= name@ + \"(\"@ + joined(exprs@, \",\"@, 0)); }"),
      Ins('loop#0', 'body_end', "proof { assert(ans@ =~= name@ + \"(\"@ + joined(exprs@, \",\"@, i as int + 1)); }"),
      Ins('tail', 'before', "proof { assert(ans@ =~= name@ + \"(\"@ + joined(exprs@, \",\"@, exprs@.len() as int) + \")\"@); }"),
      Inv('loop#0', """            invariant self matches ExprAST::Function(n2, a2) && n2 == name && *a2 == items, items@ == exprs@,
                "("@ =~= seq!['('], ","@ =~= seq![','], ")"@ =~= seq![')'],
                ans@ == name@ + "("@ + joined(exprs@, ","@, i as int),"""),
      Ins('loop#0', 'body_start', "            proof { match self { ExprAST::Function(_, it2) => { vstd::std_specs::vec::axiom_vec_index_decreases(*it2, i as int); assert(exprs@[i as int] == it2@[i as int]); }, _ => {} } }"),
    ]),
  F('ExprAST::list_expr',
    spec="        requires self matches ExprAST::List(items0) && vec_cloned(*items0, params),\n" + P + "render(*self),  // @C12 list.render\n        decreases self, 1int,",
    ops=[
      Ins('entry', '', """        let ghost items = match self { ExprAST::List(items0) => *items0, _ => arbitrary() };
        proof { broadcast use axiom_str_to_string; lemma_vec_cloned_eq(items, params); }"""),
      Inv('loop#0', """            invariant *self == ExprAST::List(items), items@ == params@,
                s@ == "["@ + joined(params@, ","@, i as int),"""),
      Ins('loop#0', 'body_start', "            proof { match self { ExprAST::List(it2) => { vstd::std_specs::vec::axiom_vec_index_decreases(*it2, i as int); assert(params@[i as int] == it2@[i as int]); }, _ => {} } }"),
    ]),
  F('ExprAST::chain_expr',
    spec="        requires self matches ExprAST::Stmt(items0) && vec_cloned(*items0, exprs),\n" + P + "render(*self),  // @C12 chain.render\n        decreases self, 1int,",
    ops=[
      Ins('entry', '', """        let ghost items = match self { ExprAST::Stmt(items0) => *items0, _ => arbitrary() };
        proof { broadcast use axiom_str_to_string; lemma_vec_cloned_eq(items, exprs); }"""),
      Inv('loop#0', """            invariant *self == ExprAST::Stmt(items), items@ == exprs@,
                s@ == joined(exprs@, ";"@, i as int),"""),
      Ins('loop#0', 'body_start', "            proof { match self { ExprAST::Stmt(it2) => { vstd::std_specs::vec::axiom_vec_index_decreases(*it2, i as int); assert(exprs@[i as int] == it2@[i as int]); }, _ => {} } }"),
    ]),
  F('ExprAST::map_expr',
    spec="        requires self matches ExprAST::Map(items0) && pairs_cloned(*items0, m),\n" + P + "render(*self),  // @C12 map.render\n        decreases self, 1int,",
    ops=[
      Ins('entry', '', """        let ghost items = match self { ExprAST::Map(items0) => *items0, _ => arbitrary() };
        proof { broadcast use axiom_str_to_string; assert forall|j: int| 0 <= j < items.len() implies items@[j] == m@[j] by { broadcast use axiom_pair_clone; assert(cloned(items[j], m[j])); } assert(items@ =~= m@); }"""),
      Inv('loop#0', """            invariant *self == ExprAST::Map(items), items@ == m@,
                s@ == "{"@ + joined_pairs(m@, i as int),"""),
      Ins('loop#0', 'body_start', "            proof { match self { ExprAST::Map(it2) => { vstd::std_specs::vec::axiom_vec_index_decreases(*it2, i as int); assert(m@[i as int] == it2@[i as int]); }, _ => {} } }"),
    ]),
]
KEYS = set(s.key for s in PRINTER)
UNIT = Unit('pr', [
    Ghost(_t('pr_prelude.rs'), name='prelude'),
    Src('error.rs'),
    Src('define.rs'),
    Src('parser.rs', fns=PRINTER, props=['C01!', 'C12'],
        keep_fns=lambda k: k in KEYS,
        keep_items=lambda kind, name: (kind == 'enum') or (kind == 'impl' and name == 'ExprAST'),
        item_attr={'Literal': '#[verifier::external_derive]', 'ExprAST': '#[verifier::external_derive]'},
        header=_t('pr_ghost.rs'), string_concat=True,
        regex_rules=[('rule16_tuple_clone', r'let \((\w+), (\w+)\) = (\w+)\[(\w+)\]\.clone\(\);', r'let \1 = \3[\4].0.clone(); let \2 = \3[\4].1.clone();'),
                     ('rule21_string_from_literal', r'String::from\(("(?:[^"\\]|\\.)*")\)', r'vx_string_from(\1)'),
                     ('rule21_string_from_literal', r'("(?:[^"\\]|\\.)*")\.into\(\)', r'vx_string_from(\1)'),
                     ('rule17_str_pattern', r"\b(\w+)\.contains\(('(?:\\.|[^'\\])')\)", r'vx_contains_char(\1, \2)')]),
    Ghost('\n} } // verus!\nfn main(){}\n', name='tail'),
])
