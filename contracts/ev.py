"""Unit EV: the tree-walking evaluator (ExprAST::exec*, parser.rs) against the big-step semantics `sem` (C03 dispatch, C06, C07, C08).

Handlers are opaque values applied through trusted wrappers (rule 7); the registries and the Context are trusted reads/writes
over spec views; `sem` is written from the property statements (left-to-right, each once, lazy conditional, stop at first Err,
context function before global function, assignment = insert of handler(old, new) under the target name and result None).
"""
from vx.splice import FnSpec as F, Ins, Inv, LetBind, GhostArg, Closure, DynCall, DynCallId
from vx.unit import Unit, Src, Ghost
import os
_d = os.path.dirname(__file__)
def _t(n): return open(os.path.join(_d, n)).read()

AG = "        ensures agrees(r, final(ctx)@, sem(*self, old(ctx)@)),"
LOOPPROOF = """            proof {
                let k = it.index@ as int;
                lemma_seq_step(%(v)s@, k, old(ctx)@);
                %(extra)s
                match self { %(pat)s => { vstd::std_specs::vec::axiom_vec_index_decreases(*it2, k); assert(expr == it2@[k]); }, _ => {} }
            }"""
EXEC = [
  F('ExprAST::exec', spec=AG + "\n        decreases self, 1int,"),
  F('ExprAST::exec_literal', props=['C03', 'C09'], spec="        requires *self == ExprAST::Literal(literal),\n        ensures r matches Ok(v) && vv(v) == lit_sv(literal),"),
  F('ExprAST::exec_reference', spec="        requires *self == ExprAST::Reference(name),\n        ensures agrees(r, ctx@, sem(*self, ctx@)),"),
  F('ExprAST::exec_function',
    spec="        requires self matches ExprAST::Function(n, args) && n == name && vec_cloned(*args, exprs),\n" + AG + "\n        decreases self, 0int,",
    ops=[
      Ins('loop#0', 'before', """let ghost items = match self { ExprAST::Function(_, args) => *args, _ => arbitrary() };
        proof { lemma_vec_cloned_eq(items, exprs); }"""),
      Inv('loop#0', """            invariant self matches ExprAST::Function(n2, a2) && n2 == name && *a2 == items, items@ == exprs@,
                sem_seq(exprs@.take(it.index@ as int), old(ctx)@) == (Some(vv_seq(params@)), ctx@),""", iter_name='it'),
      Ins('loop#0', 'body_start', LOOPPROOF % dict(v="exprs", extra="assert forall|v: Value| vv_seq(params@.push(v)) == vv_seq(params@).push(vv(v)) by { lemma_vv_seq_push(params@, v); }", pat="ExprAST::Function(_, it2)")),
      Ins('loop#0', 'after', "        proof { assert(exprs@.take(exprs@.len() as int) =~= exprs@); }"),
    ]),
  F('ExprAST::redirect_inner_function',
    spec="        ensures agree_v(r, match func_h(name@) { Some(f) => applyn(f, vv_seq(params@)), None => None }),",
    ),
  F('ExprAST::exec_unary',
    spec="        requires *self == ExprAST::Unary(op, Box::new(*rhs)),\n" + AG + "\n        decreases self, 0int,",
    ops=[Ins('entry', '', "        proof { match self { ExprAST::Unary(_, b) => { assert(**b == *rhs); assert(decreases_to!(self => b)); }, _ => {} } }")]),
  F('ExprAST::exec_binary',
    spec="        requires *self == ExprAST::Binary(op, Box::new(*lhs), Box::new(*rhs)),\n" + AG + "\n        decreases self, 0int,",
    ops=[Ins('entry', '', "        proof { broadcast use axiom_same_entry; match self { ExprAST::Binary(_, b1, b2) => { assert(**b1 == *lhs && **b2 == *rhs); assert(decreases_to!(self => b1)); assert(decreases_to!(self => b2)); }, _ => {} } }")]),
  F('ExprAST::exec_postfix',
    spec="        requires self matches ExprAST::Postfix(l, o) && **l == *lhs && o@ == op@,\n" + AG + "\n        decreases self, 0int,",
    ),
  F('ExprAST::exec_ternary',
    spec="        requires *self == ExprAST::Ternary(Box::new(*condition), Box::new(*lhs), Box::new(*rhs)),\n" + AG + "\n        decreases self, 0int,"),
  F('ExprAST::exec_list',
    spec="        requires self matches ExprAST::List(items) && vec_cloned(*items, params),\n" + AG + "\n        decreases self, 0int,",
    ops=[
      Ins('loop#0', 'before', """let ghost items = match self { ExprAST::List(items) => *items, _ => arbitrary() };
        proof { lemma_vec_cloned_eq(items, params); }"""),
      Inv('loop#0', """            invariant *self == ExprAST::List(items), items@ == params@,
                sem_seq(params@.take(it.index@ as int), old(ctx)@) == (Some(vv_seq(ans@)), ctx@),""", iter_name='it'),
      Ins('loop#0', 'body_start', LOOPPROOF % dict(v="params", extra="assert forall|v: Value| vv_seq(ans@.push(v)) == vv_seq(ans@).push(vv(v)) by { lemma_vv_seq_push(ans@, v); }", pat="ExprAST::List(it2)")),
      Ins('tail', 'before', "proof { assert(params@.take(params@.len() as int) =~= params@); }"),
    ]),
  F('ExprAST::exec_chain',
    spec="        requires self matches ExprAST::Stmt(items) && vec_cloned(*items, params),\n" + AG + "\n        decreases self, 0int,",
    ops=[
      Ins('loop#0', 'before', """let ghost items = match self { ExprAST::Stmt(items) => *items, _ => arbitrary() };
        let ghost mut vs = Seq::<SV>::empty();
        proof { lemma_vec_cloned_eq(items, params); }"""),
      Inv('loop#0', """            invariant *self == ExprAST::Stmt(items), items@ == params@,
                sem_seq(params@.take(it.index@ as int), old(ctx)@) == (Some(vs), ctx@),
                vv(ans) == (if vs.len() == 0 { SV::None } else { vs.last() }),""", iter_name='it'),
      Ins('loop#0', 'body_start', LOOPPROOF % dict(v="params", extra="", pat="ExprAST::Stmt(it2)")),
      Ins('loop#0', 'body_end', "proof { vs = vs.push(vv(ans)); }"),
      Ins('tail', 'before', "proof { assert(params@.take(params@.len() as int) =~= params@); }"),
    ]),
  F('ExprAST::exec_map',
    spec="        requires self matches ExprAST::Map(items) && pairs_cloned(*items, m),\n" + AG + "\n        decreases self, 0int,",
    ops=[
      Ins('loop#0', 'before', """let ghost items = match self { ExprAST::Map(items) => *items, _ => arbitrary() };
        proof { assert forall|i: int| 0 <= i < items.len() implies items@[i] == m@[i] by { broadcast use axiom_pair_clone; assert(cloned(items[i], m[i])); } assert(items@ =~= m@); }"""),
      Inv('loop#0', """            invariant *self == ExprAST::Map(items), items@ == m@,
                sem_pairs(m@.take(it.index@ as int), old(ctx)@) == (Some(vv_pairs(ans@)), ctx@),""", iter_name='it', bind='kv'),
      Ins('loop#0', 'body_start', """            proof {
                let i = it.index@ as int;
                lemma_pairs_step(m@, i, old(ctx)@);
                assert forall|p: (Value, Value)| vv_pairs(ans@.push(p)) == vv_pairs(ans@).push((vv(p.0), vv(p.1))) by { lemma_vv_pairs_push(ans@, p); }
                match self { ExprAST::Map(it2) => { vstd::std_specs::vec::axiom_vec_index_decreases(*it2, i); assert(kv == it2@[i]); }, _ => {} }
            }"""),
      Ins('tail', 'before', "proof { assert(m@.take(m@.len() as int) =~= m@); }"),
    ]),
  F('ExprAST::get_reference_name',
    spec="        ensures self matches ExprAST::Reference(n) ==> r == Ok::<&str, Error>(n), !(self is Reference) ==> r is Err,"),
]
VALUE = [
  F('<Value as From<&str>>::from', spec="    ensures vv(r) == SV::Str(value@),"),
]
CONTEXT = [
  F('Context::new', trust=True, spec=""),
  F('Context::set', trust=True, spec="        ensures final(self)@ == old(self)@.insert(name@, cv_view(v)),"),
  F('Context::set_func', props=['C08'], spec="        ensures final(self)@ == old(self)@.insert(name@, CV::Func(func)),  // @C08 context.set_func"),
  F('Context::set_variable', props=['C06', 'C09'], spec="        ensures final(self)@ == old(self)@.insert(name@, CV::Var(vv(value))),  // @C06,C09 context.set_variable"),
  F('Context::get', props=['C06', 'C07', 'C08', 'C09'],
    spec="        ensures self@.dom().contains(name@) == (r is Some), r matches Some(c) ==> cv_view(c) == self@[name@],  // @C06,C07,C08,C09 context.get"),
  F('Context::get_func', props=['C08'], spec="        ensures r == spec_get_func(self@, name@),  // @C08 context.get_func"),
  F('Context::get_variable', props=['C06'],
    spec="        ensures self@.dom().contains(name@) && self@[name@] is Var ==> r is Some && vv(r->Some_0) == self@[name@]->Var_0,\n            !(self@.dom().contains(name@) && self@[name@] is Var) ==> r is None,  // @C06 context.get_variable"),
  F('Context::value', props=['C03', 'C06', 'C07', 'C08', 'C09'], spec="        ensures agree_v(r, spec_value(self@, name@)),  // @C03,C06,C07,C08,C09 context.value"),
]
EXEC_KEYS = set(s.key for s in EXEC) | {'ExprAST::get_precidence'}
UNIT = Unit('ev', [
    Ghost(_t('ev_prelude_head.rs'), name='prelude'),
    Src('error.rs'),
    Src('define.rs'),
    Src('operator.rs', keep_items=lambda kind, name: kind == 'enum' and name == 'InfixOpType'),
    Src('value.rs', fns=VALUE, props=['C03', 'C09', 'C17'],
        keep_items=lambda kind, name: (kind == 'enum' and name == 'Value') or (kind == 'impl' and name.startswith('<Value as From')),
        item_attr={'Value': '#[verifier::external_derive]'}),
    Ghost(_t('ev_prelude_trusted.rs'), name='ev_trusted'),
    Src('context.rs', fns=CONTEXT, props=['C06', 'C07', 'C08', 'C01!', 'C04!'],
        keep_items=lambda kind, name: (kind == 'enum') or (kind == 'impl' and name == 'Context'),
        item_attr={'ContextValue': '#[verifier::external_derive]'}, dyn_calls=True,
        regex_rules=[('rule30_lock_guard', r'self\.0\.lock\(\)\.unwrap\(\)', 'self.vx_lock()')]),
    Src('parser.rs', fns=EXEC, props=['C03', 'C06', 'C07', 'C08', 'C01!', 'C04!'],
        keep_fns=lambda k: k in EXEC_KEYS,
        keep_items=lambda kind, name: (kind == 'enum') or (kind == 'impl' and name == 'ExprAST'),
        item_attr={'Literal': '#[verifier::external_derive]', 'ExprAST': '#[verifier::external_derive]'},
        header=_t('ev_ghost.rs'), dyn_calls=True),
    Ghost('\n} } // verus!\nfn main(){}\n', name='tail'),
])
