//! Replay driver: runs concrete cases through the public API of the crate built from the repository under check.
//! One JSON object per input line, one JSON object per output line. Never part of a verdict by itself: it attaches
//! failing inputs to obligations the verifier has failed, and serves the bounded differential stand-in (DESIGN.md 3.4).
use expression_engine::{create_context, execute, parse_expression, register_function, register_infix_op, register_postfix_op, register_prefix_op, Context, InfixOpAssociativity, InfixOpType, Value};
use std::io::{self, BufRead, Write};
use std::panic;
use std::sync::{Arc, Mutex};

fn esc(s: &str) -> String {
    let mut o = String::from("\"");
    for c in s.chars() {
        match c {
            '"' => o.push_str("\\\""),
            '\\' => o.push_str("\\\\"),
            '\n' => o.push_str("\\n"),
            '\r' => o.push_str("\\r"),
            '\t' => o.push_str("\\t"),
            c if (c as u32) < 0x20 => o.push_str(&format!("\\u{:04x}", c as u32)),
            c => o.push(c),
        }
    }
    o.push('"');
    o
}

// minimal JSON string field extraction (inputs are produced by our own Python side: {"m":"..","s":".."} with escaped strings)
fn field(line: &str, key: &str) -> Option<String> {
    let pat = format!("\"{}\":", key);
    let i = line.find(&pat)? + pat.len();
    let rest = line[i..].trim_start();
    if !rest.starts_with('"') { return None; }
    let mut out = String::new();
    let mut it = rest[1..].chars();
    while let Some(c) = it.next() {
        match c {
            '"' => return Some(out),
            '\\' => match it.next()? {
                'n' => out.push('\n'), 'r' => out.push('\r'), 't' => out.push('\t'), '"' => out.push('"'), '\\' => out.push('\\'), '/' => out.push('/'),
                'u' => { let h: String = (0..4).filter_map(|_| it.next()).collect(); let mut cp = u32::from_str_radix(&h, 16).ok()?;
                         if (0xD800..0xDC00).contains(&cp) { // surrogate pair
                             it.next(); it.next(); let l: String = (0..4).filter_map(|_| it.next()).collect(); let lo = u32::from_str_radix(&l, 16).ok()?;
                             cp = 0x10000 + ((cp - 0xD800) << 10) + (lo - 0xDC00); }
                         out.push(char::from_u32(cp)?); }
                x => out.push(x),
            },
            c => out.push(c),
        }
    }
    None
}

// invocations of globally registered functions (reg_fn) are logged here and appended to the trace of the evaluation that made them
static GLOBAL_LOG: Mutex<Vec<String>> = Mutex::new(Vec::new());
thread_local! { static CUR_TRACE: std::cell::RefCell<Option<Arc<Mutex<Vec<String>>>>> = std::cell::RefCell::new(None); }

fn ctx_with_trace(trace: Arc<Mutex<Vec<String>>>) -> Context {
    CUR_TRACE.with(|c| *c.borrow_mut() = Some(trace.clone()));
    let mut ctx = Context::new();
    let mk = |name: &'static str, tr: Arc<Mutex<Vec<String>>>, ret: fn(Vec<Value>) -> Result<Value, String>| {
        let f: Arc<dyn Fn(Vec<Value>) -> expression_engine::Result<Value> + Send + Sync> = Arc::new(move |params: Vec<Value>| {
            tr.lock().unwrap().push(format!("{}({})", name, params.iter().map(|p| format!("{:?}", p)).collect::<Vec<_>>().join(",")));
            match ret(params) { Ok(v) => Ok(v), Err(prog) => execute(if prog.is_empty() { "1 +" } else { prog.as_str() }, create_context!()) }   // an Err of the crate's own error type
        });
        f
    };
    ctx.set_func("t", mk("t", trace.clone(), |_| Ok(Value::from(true))));
    ctx.set_func("f", mk("f", trace.clone(), |_| Ok(Value::from(false))));
    ctx.set_func("one", mk("one", trace.clone(), |_| Ok(Value::from(1))));
    ctx.set_func("two", mk("two", trace.clone(), |_| Ok(Value::from(2))));
    ctx.set_func("boom", mk("boom", trace.clone(), |_| Err(String::new())));
    ctx.set_func("boomT", mk("boomT", trace.clone(), |_| Err("- true".to_string())));     // fails with ShouldBeNumber
    ctx.set_func("boomP", mk("boomP", trace.clone(), |_| Err("1 / 0".to_string())));      // fails with ParamInvalid
    ctx.set_func("id", mk("id", trace.clone(), |p| Ok(p.into_iter().next().unwrap_or(Value::None))));
    ctx.set_func("cnt", mk("cnt", trace.clone(), |p| Ok(Value::from(p.len() as i64))));
    ctx
}

fn run_case(line: &str) -> String {
    let m = field(line, "m").unwrap_or_default();
    let s = field(line, "s").unwrap_or_default();
    match m.as_str() {
        "parse" => match parse_expression(&s) {
            Ok(a) => format!("{{\"ok\":true,\"ast\":{}}}", esc(&format!("{:?}", a))),
            Err(e) => format!("{{\"ok\":false,\"err\":{}}}", esc(&format!("{}", e))),
        },
        "rt" => match { let s2 = s.clone(); match std::panic::catch_unwind(move || parse_expression(&s2).map(|a| format!("{:?}", a))) { Ok(_) => parse_expression(&s), Err(_) => return "{\"panic\":true,\"stage\":\"parse\"}".to_string() } } {
            Ok(a) => {
                let pr = std::panic::catch_unwind(std::panic::AssertUnwindSafe(|| (a.expr(), a.describe())));
                let (e1, d) = match pr { Ok(x) => x, Err(_) => return "{\"panic\":true,\"stage\":\"print\"}".to_string() };
                match parse_expression(&e1) {
                    Ok(b) => format!("{{\"ok\":true,\"ast\":{},\"expr\":{},\"ok2\":true,\"ast2\":{},\"expr2\":{},\"describe\":{}}}", esc(&format!("{:?}", a)), esc(&e1), esc(&format!("{:?}", b)), esc(&b.expr()), esc(&d)),
                    Err(e) => format!("{{\"ok\":true,\"ast\":{},\"expr\":{},\"ok2\":false,\"err2\":{},\"describe\":{}}}", esc(&format!("{:?}", a)), esc(&e1), esc(&format!("{}", e)), esc(&d)),
                }
            }
            Err(e) => format!("{{\"ok\":false,\"err\":{}}}", esc(&format!("{}", e))),
        },
        "exec" => {
            let trace = Arc::new(Mutex::new(Vec::new()));
            let ctx = ctx_with_trace(trace.clone());
            let mut handle = Context::new();
            handle.0 = ctx.0.clone();   // same map: observe the bindings the evaluation leaves behind
            let r = execute(&s, ctx);
            let tr = trace.lock().unwrap().join(";");
            let vars = vars_debug(&handle);
            match r {
                Ok(v) => format!("{{\"ok\":true,\"val\":{},\"trace\":{},\"vars\":{}}}", esc(&format!("{:?}", v)), esc(&tr), esc(&vars)),
                Err(e) => format!("{{\"ok\":false,\"err\":{},\"trace\":{},\"vars\":{}}}", esc(&format!("{}", e)), esc(&tr), esc(&vars)),
            }
        }
        "macroctx" => {
            // the context built by the public create_context! macro (variables of several types and a function)
            let ctx = create_context!("x" => 5, "s" => "str", "b" => true, "l" => vec![Value::from(1), Value::from(2)], "f" => Arc::new(|p: Vec<Value>| Ok(Value::from(p.len() as i64 + 40))), "y" => 2.5);
            match execute(&s, ctx) { Ok(v) => format!("{{\"ok\":true,\"val\":{}}}", esc(&format!("{:?}", v))), Err(e) => format!("{{\"ok\":false,\"err\":{}}}", esc(&format!("{}", e))) }
        }
        "macroctx2" => {
            let ctx = create_context!(
                "f" => Arc::new(|_p: Vec<Value>| Ok(Value::from("first"))), "f" => Arc::new(|_p: Vec<Value>| Ok(Value::from("second"))),
                "v" => 1, "v" => 2,
                "g" => Arc::new(|_p: Vec<Value>| Ok(Value::from("gfn"))), "g" => 7,
                "h" => 8, "h" => Arc::new(|_p: Vec<Value>| Ok(Value::from("hfn"))),
                "k" => Arc::new(|p: Vec<Value>| Ok(Value::from(p.len() as i64))), "z" => "last");
            match execute(&s, ctx) { Ok(v) => format!("{{\"ok\":true,\"val\":{}}}", esc(&format!("{:?}", v))), Err(e) => format!("{{\"ok\":false,\"err\":{}}}", esc(&format!("{}", e))) }
        }
        "conv" => conv(&s),
        _ => "{\"bad\":true}".to_string(),
    }
}

// variables of the context after evaluation, sorted by name: "a=Number(1);b=Bool(true)" (functions are skipped)
fn vars_debug(ctx: &Context) -> String {
    let names: Vec<String> = { let g = ctx.0.lock().unwrap(); let mut n: Vec<String> = g.keys().cloned().collect(); n.sort(); n };
    let mut out = Vec::new();
    for n in names { if let Some(v) = ctx.get_variable(&n) { out.push(format!("{}={:?}", n, v)); } }
    out.join(";")
}

fn conv(s: &str) -> String {
    let (ty, val) = match s.split_once(':') { Some(x) => x, None => return "{\"bad\":true}".into() };
    macro_rules! int { ($t:ty) => {{ match val.parse::<$t>() { Ok(n) => { let v = Value::from(n); format!("{{\"ok\":true,\"val\":{},\"int\":{}}}", esc(&format!("{:?}", v)), esc(&format!("{:?}", v.clone().integer().ok()))) } Err(_) => "{\"bad\":true}".into() } }} }
    match ty {
        "i8" => int!(i8), "i16" => int!(i16), "i32" => int!(i32), "i64" => int!(i64), "i128" => int!(i128),
        "u8" => int!(u8), "u16" => int!(u16), "u32" => int!(u32), "u64" => int!(u64), "u128" => int!(u128),
        "acc" => {
            // every accessor on one value of each variant: which accept it (C17: exactly the accessor of its own type)
            let v = match val { "none" => Value::None, "bool" => Value::from(true), "num" => Value::from(7), "frac" => execute("2.5", create_context!()).unwrap(), "str" => Value::from("s"),
                                "list" => Value::List(vec![Value::from(1)]), "map" => Value::Map(vec![(Value::from(1), Value::from(2))]), "empty_list" => Value::List(vec![]), "zero" => Value::from(0), "false" => Value::from(false), "empty_str" => Value::from(""), _ => return "{\"bad\":true}".into() };
            let r = format!("bool={} decimal={} string={} list={} integer={} float={}", v.clone().bool().is_ok(), v.clone().decimal().is_ok(), v.clone().string().is_ok(), v.clone().list().is_ok(), v.clone().integer().is_ok(), v.clone().float().is_ok());
            format!("{{\"ok\":true,\"val\":{}}}", esc(&r))
        }
        "dec" => match execute(val, create_context!()) { Ok(v) => format!("{{\"ok\":true,\"val\":{},\"int\":{}}}", esc(&format!("{:?}", v)), esc(&format!("{:?}", v.clone().integer().ok()))), Err(_) => "{\"ok\":false}".into() },
        _ => "{\"bad\":true}".into(),
    }
}

fn script(lines: &[String]) {
    // a sequence of registrations, parses and evaluations in ONE process (first use, re-registration, overrides)
    let out = io::stdout();
    for l in lines {
        let m = field(l, "m").unwrap_or_default();
        let s = field(l, "s").unwrap_or_default();
        let res = panic::catch_unwind(|| match m.as_str() {
            "reg_fn" => { let tag = field(l, "tag").unwrap_or_default(); let nm = s.clone();
                register_function(&s, Arc::new(move |p: Vec<Value>| {
                    let line = format!("G:{}({})", nm, p.iter().map(|x| format!("{:?}", x)).collect::<Vec<_>>().join(","));
                    let cur = CUR_TRACE.with(|c| c.borrow().clone());
                    match cur { Some(t) => t.lock().unwrap().push(line), None => GLOBAL_LOG.lock().unwrap().push(line) }
                    Ok(Value::from(tag.as_str())) })); "{\"ok\":true}".to_string() }
            "reg_prefix" => { let tag = field(l, "tag").unwrap_or_default(); register_prefix_op(&s, Arc::new(move |v| Ok(Value::List(vec![Value::from(tag.as_str()), v])))); "{\"ok\":true}".to_string() }
            "reg_postfix" => { let tag = field(l, "tag").unwrap_or_default(); register_postfix_op(&s, Arc::new(move |v| Ok(Value::List(vec![Value::from(tag.as_str()), v])))); "{\"ok\":true}".to_string() }
            "reg_infix" => {
                let tag = field(l, "tag").unwrap_or_default();
                let p: i32 = field(l, "p").and_then(|x| x.parse().ok()).unwrap_or(100);
                let assoc = if field(l, "assoc").unwrap_or_default() == "R" { InfixOpAssociativity::RIGHT } else { InfixOpAssociativity::LEFT };
                let ty = if field(l, "ty").unwrap_or_default() == "SETTER" { InfixOpType::SETTER } else { InfixOpType::CALC };
                register_infix_op(&s, p, ty, assoc, Arc::new(move |a, b| Ok(Value::List(vec![Value::from(tag.as_str()), a, b]))));
                "{\"ok\":true}".to_string()
            }
            "rtreg" => {
                // parse, THEN register an infix operator, then render and re-parse: expr() and the parser must use the same (current) table (C12, C08)
                let op = field(l, "op").unwrap_or_default();
                let tag = field(l, "tag").unwrap_or_default();
                let p: i32 = field(l, "p").and_then(|x| x.parse().ok()).unwrap_or(100);
                let assoc = if field(l, "assoc").unwrap_or_default() == "R" { InfixOpAssociativity::RIGHT } else { InfixOpAssociativity::LEFT };
                match parse_expression(&s) {
                    Ok(a) => {
                        register_infix_op(&op, p, InfixOpType::CALC, assoc, Arc::new(move |x, y| Ok(Value::List(vec![Value::from(tag.as_str()), x, y]))));
                        let e1 = a.expr();
                        match parse_expression(&e1) {
                            Ok(b) => format!("{{\"ok\":true,\"ast\":{},\"expr\":{},\"ok2\":true,\"ast2\":{}}}", esc(&format!("{:?}", a)), esc(&e1), esc(&format!("{:?}", b))),
                            Err(e) => format!("{{\"ok\":true,\"ast\":{},\"expr\":{},\"ok2\":false,\"err2\":{}}}", esc(&format!("{:?}", a)), esc(&e1), esc(&format!("{}", e))),
                        }
                    }
                    Err(e) => format!("{{\"ok\":false,\"err\":{}}}", esc(&format!("{}", e))),
                }
            }
            _ => run_case(l),
        });
        let txt = match res { Ok(t) => t, Err(_) => "{\"panic\":true}".to_string() };
        let mut o = out.lock();
        writeln!(o, "{}", txt).ok();
        o.flush().ok();
    }
}

fn main() {
    panic::set_hook(Box::new(|_| {}));
    let args: Vec<String> = std::env::args().collect();
    let stdin = io::stdin();
    let lines: Vec<String> = stdin.lock().lines().filter_map(|l| l.ok()).filter(|l| !l.trim().is_empty()).collect();
    if args.len() > 1 && args[1] == "--script" { script(&lines); return; }
    // independent cases: each in its own thread with a large stack so that deep recursion shows up as what it is at the default stack only in "--small-stack" mode
    let big = !(args.len() > 1 && args[1] == "--small-stack");
    let out = io::stdout();
    for l in lines {
        let l2 = l.clone();
        let b = std::thread::Builder::new().stack_size(if big { 256 << 20 } else { 2 << 20 });
        let h = b.spawn(move || panic::catch_unwind(|| run_case(&l2))).unwrap();
        let txt = match h.join() { Ok(Ok(t)) => t, _ => "{\"panic\":true}".to_string() };
        let mut o = out.lock();
        writeln!(o, "{}", txt).ok();
        o.flush().ok();
    }
}
